"""C15 - JSON output is always valid, schema-conformant and self-consistent.

Spec: spec/Trace_Report.tla (json-schema.md transcribed field by field as Schema; hexstring shape and padding;
Counts / Offsets / CrashingThreadCopy / ModulesMirror consistency rules on limbs).  Binding: V - reports of every
process state the corpus and the Processor.tla cases produce (hostile names, every CPU width incl. unknown,
threads and crashing threads without frames, requesting threads at every index) are required to be UTF-8 + JSON,
compact and pretty forms equal as values, projected, and judged by TLC."""
import json
from . import core
from . import pipeline


def run(ctx):
    ctx.build()
    mc = pipeline.processor_cases(ctx)
    n = 260 if ctx.tier == "quick" else 3000
    tr = ctx.harness("record_process", ["reports", n, mc.out_path], out_name="reports.ndjson", timeout=3000)
    tv, vs = pipeline.verdicts(ctx, "Trace_Report", tr, "reports")
    lines = pipeline.lines_of(tr)
    for idx, mon in vs:
        rec = json.loads(lines[idx - 1])
        small = {"id": rec["id"], "cpu": rec.get("cpu"), "width": rec.get("width"), "lexical": rec.get("lexical"), "req": rec.get("req")}
        ctx.mismatch("report:" + mon, {"monitor": mon, "report": small})
    widths = {}
    withct = 0
    for line in lines:
        r = json.loads(line)
        widths[r.get("width")] = widths.get(r.get("width"), 0) + 1
        if r.get("req", 0) > 1:
            withct += 1
    if len(widths) < 2 or withct == 0:
        raise core.ToolFailure("vacuous: reports cover widths %s, %d with a crashing thread at index >= 1" % (widths, withct))
    samples = []
    for line in lines[3:200:45]:
        r = json.loads(line)
        samples.append({"id": r["id"], "cpu": r["cpu"], "width": r.get("width"), "requesting_thread_plus_1": r.get("req"), "modules": len(r.get("modules", []))})
    cov = {
        "evaluations": tv["total"], "distinct_nontrivial": len(set(lines)),
        "rule": "one JSON report per processable corpus item (seeded generated and corrupted dumps x symbol files: every CPU incl. unknown, hostile thread / "
                "module / function names, big-endian, /proc streams) and per sampled Processor.tla case; non-trivial = distinct report record",
        "samples": samples, "states": tv["states"], "transitions": tv["transitions"], "traces_validated_against_impl": tv["total"],
        "reports_by_pointer_width": {str(k): v for k, v in widths.items()}, "reports_with_crashing_thread_index_ge_1": withct,
        "explanation": "Trace_Report.tla has no state space of its own: it is the TLA+ statement of the schema and cross-field rules, evaluated by TLC on each recorded report",
    }
    return ctx.finish("exploration", cov, assumptions=[
        "lexical validity (UTF-8, JSON grammar, compact = pretty as values) is decided by str::from_utf8 + serde_json in the recorder, not by TLC",
        "schema = the fields of json-schema.md transcribed in Trace_Report.tla; every field optional / nullable as the document says",
        "function_offset is only checked against module_offset (the function base is not in the report)"])


def replay(ctx, path):
    with open(path) as f:
        print(json.dumps(json.load(f), indent=1)[:6000])
    return 0
