"""C13 - processing is deterministic and independent of scheduling.

Spec: spec/Confluence.tla (threads' symbol look-ups complete in any order; results collected by index, statistics
after the join, hash-ordered collections emitted canonically => the report is a function of the inputs; three named
bug variants must violate Confluent) on top of spec/SymbolCache.tla.  Binding: every corpus item is processed 7
times in one process (fresh hash seeds) under a plain poll loop, poll loops with different supplier delays per
module, and a multi-thread tokio runtime; the bytes of print_json / print / print_brief are compared and TLC
(Trace_Process.tla) judges each item."""
import json
from . import core
from . import pipeline


def run(ctx):
    ctx.build()
    ok = ctx.tlc("MC_Confluence", "MC_Confluence_ok", coverage="separate", required_actions=["Step", "Finish"], timeout=600)
    if ok.violated:
        raise core.ToolFailure("Confluent is violated in the model itself")
    for v in ("collect", "stats", "hash"):
        m = ctx.tlc("MC_Confluence", "MC_Confluence_" + v, coverage=False, timeout=600, expect_violation=True, out_name="conf_" + v)
        if m.violated != "Confluent":
            raise core.ToolFailure("vacuity guard: bug variant '%s' of Confluence.tla no longer violates Confluent" % v)
    n = 150 if ctx.tier == "quick" else 1500
    tr = ctx.harness("record_process", ["determinism", n], out_name="determinism.ndjson", timeout=3000)
    tv, vs = pipeline.verdicts(ctx, "Trace_Process", tr, "determinism")
    lines = pipeline.lines_of(tr)
    for idx, mon in vs:
        rec = json.loads(lines[idx - 1])
        fp = "determinism:%s:%s" % (mon, rec.get("diff", ""))
        # two modules of the report share a file name and what differs is one of the per-module symbol flags, which the report looks up by
        # that name: a class of its own (see known-findings.json), so that any other non-determinism keeps its own fingerprint
        if rec.get("same_leaf") == 1 and rec.get("diff", "") in (".modules[].corrupt_symbols", ".modules[].loaded_symbols", ".modules[].missing_symbols", ".modules[].symbol_url"):
            fp += ":modules-sharing-a-file-name"
        ctx.mismatch(fp, {"monitor": mon, "item": rec})
    if len(lines) < 20:
        raise core.ToolFailure("vacuous: only %d processable items" % len(lines))
    cov = {
        "states": ok.distinct + tv["states"], "transitions": ok.generated + tv["transitions"],
        "traces_validated_against_impl": len(lines) * 7,
        "samples": [json.loads(l) for l in lines[:4]], "exhaustive": False,
        "evaluations": len(lines) * 7, "distinct_nontrivial": len(lines),
        "rule": "each processable corpus item x 7 runs {2 plain, 3 delayed-supplier schedules, 2 multi-thread tokio} in one process; non-trivial = item",
        "tlc": {"Confluence": ok.as_dict(), "bug_variants_violate": ["collect", "stats", "hash"]},
    }
    return ctx.finish("model_checking", cov, assumptions=[
        "schedules: supplier completion is delayed by 0..3 polls per module; OS-thread interleavings inside tokio are sampled",
        "fresh hash seeds come from constructing new HashMaps per run in one process"])


def replay(ctx, path):
    with open(path) as f:
        print(json.dumps(json.load(f), indent=1)[:6000])
    return 0
