"""C02 - parsed streams reproduce exactly what the dump encodes, in either byte order.

Spec: spec/DumpModel.tla - what a well-formed dump means: the directory walk (last entry of a type is served),
threads in file order with get_thread(id) = last thread of that id and the stack-memory fallback, the identifier
rules by CodeView kind and OS as constructor terms, memory lists (32/64-bit) as byte maps incl. regions ending at
the last address, UTF-16 names returned exactly, the MISC_INFO layout rule.  TLC checks ServedIsLast over every
directory of <= MaxDir entries and enumerates every abstract dump facet by facet, in both byte orders.
Binding: G - each emitted case is written with seeded random leaf values by the frozen vendored writer, read back
with /repo's minidump crate and compared item by item and byte by byte (every address of every region); the rule
terms are rendered from the written leaves.  The rich templates (all 24 streams, 9 CPU layouts, both byte orders)
are read back field by field as well."""
import json
from . import core


def run(ctx):
    tier = ctx.tier
    ctx.build()
    mc = ctx.tlc("DumpModel", "MC_DumpModel_" + tier, coverage="separate", required_actions=["Walk", "Finish"], timeout=3000)
    if mc.violated:
        raise core.ToolFailure("C02 invariant %s is violated in DumpModel.tla itself" % mc.violated)
    reps = 3 if tier == "quick" else 12
    rep = ctx.read_harness_report(ctx.harness("replay_dumpmodel", [mc.out_path, reps], out_name="replay_dumpmodel.out", timeout=3000))
    for need in ("modules:big", "modules:little", "threads:big", "memory:little", "directory:big", "names:little", "misc:big", "crashpad:big", "crashpad:little", "sysinfo:big", "sysinfo:little", "templates", "raw-record-compared-across-byte-orders", "context-register-compared-across-byte-orders"):
        if rep["classes"].get(need, 0) == 0:
            raise core.ToolFailure("vacuous: no replayed case of class %s" % need)
    cov = {
        "states": mc.distinct, "transitions": mc.generated, "traces_validated_against_impl": rep["evaluations"], "exhaustive": True,
        "evaluations": rep["evaluations"], "distinct_nontrivial": rep["distinct_nontrivial"], "samples": rep["samples"][:3],
        "rule": "every abstract dump of DumpModel.tla, one facet at a time: modules (10 CodeView kinds x 3 OSes x version signature, pairs in both file orders with one "
                "module ending near the top of the address space), threads (<= 3, stack own/fallback/missing, duplicate ids, both memory-list kinds), memory (0-3 regions x "
                "4 placements incl. last byte = 2^64-1 x 32/64-bit list; every address compared), directory (every sequence of <= MaxDir entries over 3 types x 2 "
                "variants), names (6 string sites x 7 kinds incl. leading U+FEFF / U+FFFE), misc (5 layouts); x {little, big}; x seeded leaf values; plus 20 rich templates "
                "read back field by field",
        "tlc": {"DumpModel": mc.as_dict()}, "replay_classes": rep["classes"],
    }
    return ctx.finish("model_checking", cov, assumptions=[
        "the writer is the frozen vendored copy of minidump-synth (commit 0c877d2) plus hand-placed raw sections; it is trusted to encode what the harness asks",
        "structure is enumerated by TLC; leaf values (addresses, GUIDs, bytes, names) are seeded samples",
        "items per list are 0..3, not 0..40; regions are <= 300 bytes so that every address can be compared"])


def replay(ctx, path):
    with open(path) as f:
        print(json.dumps(json.load(f), indent=1)[:6000])
    return 0
