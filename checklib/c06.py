"""C06 - STACK CFI rules evaluate exactly as the documented postfix language.

Spec: spec/CfiExpr.tla (token semantics), spec/CfiEval.tla (token machine), spec/CfiRules.tla
(INIT/delta rule sets), spec/Trace_CfiEval.tla (trace validation), spec/Words.tla (u64 limbs).
Bindings: G = every TLC state replayed through the real parser + SymbolFile::walk_frame
(harness replay_cfi); V = random long programs over random u64 operands recorded from the real
evaluator and validated token by token by TLC (record_cfi + Trace_CfiEval)."""
import json
from . import core

EVAL_ACTIONS = ["StepArith", "StepDiv", "StepAlign", "StepDeref", "StepCfa", "StepUndef", "StepReg", "StepLit"]


def words_selftest(ctx, widths=(64,)):
    n = 0
    for w in widths:
        out = ctx.harness("words_vectors", [w, "quick" if ctx.tier == "quick" else "full"], out_name="words%d.ndjson" % w)
        r = ctx.tlc("Trace_Words", "Trace_Words", workers=1, env={"VERIF_TRACE": out}, coverage=False,
                    out_name="words%d" % w, xss="512m", xmx="2g")
        if r.violated:
            raise core.ToolFailure("Words.tla self-test failed for width %d (%s): the limb arithmetic of the "
                                   "specification disagrees with Rust's wrapping arithmetic" % (w, r.violated))
        n += r.distinct - 1
    return n


def run(ctx):
    tier = ctx.tier
    ctx.build()
    nvec = words_selftest(ctx)
    # ---- layer 1: expression evaluator: MC + Gen + replay
    ev = ctx.tlc("CfiEval", "MC_CfiEval_" + tier, coverage="separate", required_actions=EVAL_ACTIONS, timeout=3000)
    if ev.violated:
        raise core.ToolFailure("design-level invariant %s of CfiEval.tla is violated in the model" % ev.violated)
    rep1 = ctx.read_harness_report(ctx.harness("replay_cfi", ["eval", ev.out_path], out_name="replay_eval.out"))
    # ---- layer 2: rule sets
    ru = ctx.tlc("CfiRules", "MC_CfiRules_" + tier, coverage="separate", required_actions=["AddPair", "StartDelta"], timeout=3000)
    if ru.violated:
        raise core.ToolFailure("design-level invariant %s of CfiRules.tla is violated in the model" % ru.violated)
    rep2 = ctx.read_harness_report(ctx.harness("replay_cfi", ["rules", ru.out_path], out_name="replay_rules.out"))
    for need in ("eval_defined", "eval_fails", "reg_set", "reg_cleared"):
        if rep1["classes"].get(need, 0) == 0:
            raise core.ToolFailure("vacuous replay: class %s never exercised" % need)
    for need in ("rules_ok", "rules_ok_with_clear", "rules_fail_missing", "rules_fail_cfa", "rules_fail_ra", "rules_fail_norecord"):
        if rep2["classes"].get(need, 0) == 0:
            raise core.ToolFailure("vacuous replay: class %s never exercised" % need)
    # ---- STACK CFI through a real 32-bit register context (CfiStackWalker + the x86 walker): the cfi / cfi_big rule shapes of
    # WalkerX86.tla state the documented outcome (values that do not fit the register leave it unknown, caller-saved registers are
    # never forwarded); here a disagreement is a violation of C06, not drift
    wx = ctx.tlc("WalkerX86", "MC_WalkerX86_any", coverage=False, timeout=3000, out_name="walkerx86_any")
    if wx.violated:
        raise core.ToolFailure("invariant %s of WalkerX86.tla is violated in the model" % wx.violated)
    rep3 = ctx.read_harness_report(ctx.harness("replay_walk", ["x86", wx.out_path, ctx.work / "x86_any.trace.ndjson"], out_name="replay_x86_strict.out",
                                               timeout=3000, env={"VERIF_STRICT_RULES": "cfi,cfi_big"}))
    for need in ("rule:cfi", "rule:cfi_big"):
        if rep3["classes"].get(need, 0) == 0:
            raise core.ToolFailure("vacuous replay: no walk under rule shape %s" % need)
    # ---- which registers a frame recovered by STACK CFI knows, through the real ARM64 / ARM / MIPS contexts: forwarded only when known in
    # the callee, set from their rules otherwise (WalkerArm.tla / WalkerMips.tla, mode any); a disagreement on a CFI frame is a violation here
    strict_classes = {}
    drift_before = list(ctx.drift)
    for arch_args, module, cfg in ((["arm64", "linux"], "WalkerArm", "MC_WalkerArm_arm64_linux_any"), (["arm", "linux"], "WalkerArm", "MC_WalkerArm_arm_linux_any"),
                                   (["mips"], "WalkerMips", "MC_WalkerMips_32_any")):
        wm = ctx.tlc(module, cfg, coverage=False, timeout=3000, out_name="strict_" + cfg)
        if wm.violated:
            raise core.ToolFailure("invariant %s of %s.tla is violated in the model" % (wm.violated, module))
        rs = ctx.read_harness_report(ctx.harness("replay_walk", arch_args + [wm.out_path, ctx.work / ("strict_%s.trace.ndjson" % cfg)], out_name="replay_strict_%s.out" % cfg,
                                                 timeout=3000, env={"VERIF_STRICT_CFI_REGS": "1"}))
        if rs["classes"].get("frame:cfi", 0) == 0:
            raise core.ToolFailure("vacuous replay: no CFI frame under %s" % cfg)
        strict_classes[cfg] = rs["classes"].get("frame:cfi", 0)
        ctx.drift = list(drift_before)          # everything that is not a CFI-register disagreement is C05's business, not this check's
    # ---- V: random long programs validated by the trace spec
    nprog = 600 if tier == "quick" else 6000
    tr = ctx.harness("record_cfi", [nprog], out_name="cfi_trace.ndjson")
    tv = ctx.trace_validate("Trace_CfiEval", "Trace_CfiEval", tr)
    if tv["violated"] or tv["matched"] != tv["total"]:
        idx = tv["matched"] or 0
        with open(tr) as f:
            lines = f.readlines()
        rec = json.loads(lines[idx]) if idx < len(lines) else None
        fp = "cfi-trace-panic" if rec and rec.get("res") == "panic" else "cfi-trace"
        ctx.mismatch(fp, {"what": "real evaluator's result or memory reads are not a behaviour of CfiExpr", "index": idx,
                          "record": rec, "invariant": tv["violated"]})
    cov = {
        "states": ev.distinct + ru.distinct + tv["states"],
        "transitions": ev.generated + ru.generated + tv["transitions"],
        "traces_validated_against_impl": rep1["evaluations"] + rep2["evaluations"] + (tv["matched"] or 0),
        "samples": rep1["samples"][:4] + rep2["samples"][:2],
        "exhaustive": True,
        "evaluations": rep1["evaluations"] + rep2["evaluations"] + (tv["total"] or 0),
        "distinct_nontrivial": rep1["distinct_nontrivial"] + rep2["distinct_nontrivial"],
        "rule": "every program over the configured token alphabet up to MaxLen in .ra/.cfa/register position (non-trivial = "
                "distinct program with a defined result); every rule set reachable by adding <= Extra pairs / deltas to 6 base INIT "
                "records x 9 lookup addresses (non-trivial = distinct rule set with at least one successful unwind); plus random "
                "programs of up to ~40 tokens over random u64 operands validated by Trace_CfiEval",
        "tlc": {"CfiEval": ev.as_dict(), "CfiRules": ru.as_dict(), "Trace_CfiEval": {k: v for k, v in tv.items() if k != "out"}},
        "replay_classes": {"eval": rep1["classes"], "rules": rep2["classes"]},
        "words_selftest_vectors": nvec,
        "random_programs_validated": tv["matched"],
    }
    return ctx.finish("model_checking", cov, assumptions=[
        "the documented semantics are those transcribed in CfiExpr.tla / CfiRules.tla (walker.rs module docs)",
        "tokens the documentation leaves undefined ('+5', '$' in the middle of a name) are outside the alphabet",
        "delta records with duplicate addresses are not generated (their relative order is not documented)",
        "Words.tla limb arithmetic (self-tested against Rust on %d boundary vectors in this run)" % nvec,
        "mock FrameWalker and projection in harness/src/bin/replay_cfi.rs and record_cfi.rs"])


def replay(ctx, path):
    with open(path) as f:
        o = json.load(f)
    print(json.dumps(o, indent=1)[:4000])
    return 0
