"""C10 - streamed symbol parsing ignores chunking and hands every byte to the callback.
(shared machinery for C09 - parsing is total and bounded)

Spec: spec/SymStream.tla (SymbolFile::parse + circular::Buffer as the function Iter), MC_SymStream.tla (byte-level
inputs, small constants, every schedule), MC_SymStreamL.tla (real capacity ratio 16, line-length inputs, every
schedule), Trace_SymStream.tla (trace validation at the real constants 10 KiB / 160 KiB).
Bindings: G - behaviours TLC enumerates at ratio 16 are scaled by 5120 and executed, read for read, on the real
parser; V - grammar-generated / corrupted files under seeded chunk schedules. Both produce the same event log
(Start/Read/Cb/End seen by a wrapping reader and callback), which TLC validates iteration by iteration against
SymStream!Iter and on which it evaluates the C09/C10 monitors."""
import json
import re
from . import core

C10_MON = {"CallbackPrefix", "OkMeansAll", "ChunkIndependent"}
C09_MON = {"WindowBounded", "ReadsBounded", "LongLineDropped", "Total_panic", "Total_hang", "Total_none"}
REPAIRED = True   # the loop in /repo carries the fix: commit for the unterminated-tail defect (see known-findings.json)


def validate(ctx, trace, name):
    cfg = "Trace_SymStream_repaired" if REPAIRED else "Trace_SymStream"
    tv = ctx.trace_validate("Trace_SymStream", cfg, trace, out_name=name, timeout=3000, xmx="8g")
    verdicts, drift = [], []
    with open(tv["out"], "r", errors="replace") as f:
        for line in f:
            m = re.match(r'<<"VERDICT", (\d+), "(\w+)">>', line)
            if m:
                verdicts.append((int(m.group(1)), m.group(2)))
            m = re.match(r'<<"DRIFT", (\d+), (\d+)>>', line)
            if m:
                drift.append((int(m.group(1)), int(m.group(2))))
    if tv["matched"] != tv["total"]:
        raise core.ToolFailure("Trace_SymStream stopped at event %s of %s (%s)" % (tv["matched"], tv["total"], tv["violated"]))
    return tv, verdicts, drift


def parses_of(trace):
    """id -> (Start record without the newline table, End record)"""
    out = {}
    cur = None
    with open(trace) as f:
        for line in f:
            if line.startswith('{"ev":"Start"'):
                o = json.loads(line)
                o["nls"] = "(%d newlines)" % len(o["nls"])
                cur = o["id"]
                out[cur] = [o, None]
            elif line.startswith('{"ev":"End"') and cur is not None:
                out[cur][1] = json.loads(line)
    return out


def run_symstream(ctx, monitors, pid):
    tier = ctx.tier
    ctx.build()
    rep = "TRUE" if REPAIRED else "FALSE"
    # ---- design level: small constants, byte-level inputs, every schedule
    mc1 = ctx.tlc("MC_SymStream", "MC_SymStream_" + ("repaired" if REPAIRED else "quick") + ("" if tier == "quick" else "_thorough"),
                  coverage=False, timeout=6000)
    if mc1.violated:
        raise core.ToolFailure("design-level property %s of SymStream is violated in the small-constant model" % mc1.violated)
    # ---- real capacity ratio: behaviours (one chunk schedule per distinct terminal state) replayed on the real code
    mc2 = ctx.tlc("MC_SymStreamL", "MC_SymStreamL_" + ("repaired" if REPAIRED else "cex") + ("" if tier == "quick" else "_thorough"),
                  coverage=False, timeout=6000)
    if mc2.violated:
        raise core.ToolFailure("design-level property %s of SymStream is violated at capacity ratio 16" % mc2.violated)
    beh = ctx.harness("record_symstream", ["beh", mc2.out_path], out_name="beh.ndjson")
    tvb, vb, db = validate(ctx, beh, "beh")
    # ---- real files under seeded chunkings
    budget = 45000 if tier == "quick" else 400000
    rnd = ctx.harness("record_symstream", [budget], out_name="rnd.ndjson", timeout=3000)
    tvr, vr, dr = validate(ctx, rnd, "rnd")
    nparses = 0
    for trace, verdicts, drift, mode in ((beh, vb, db, "G"), (rnd, vr, dr, "V")):
        ps = parses_of(trace)
        nparses += len(ps)
        for pid_, mon in verdicts:
            if mon not in monitors:
                continue
            st, en = ps.get(pid_, [None, None])
            tail = ""
            if mon == "ChunkIndependent" and st and st.get("whole") != (en or {}).get("out"):
                tail = ":whole=%s,chunked=%s" % (st.get("whole"), (en or {}).get("out"))
            ctx.mismatch("symstream:%s%s" % (mon, tail), {"mode": mode, "monitor": mon, "start": st, "end": en, "trace": str(trace)})
        for pid_, at in drift:
            st, en = ps.get(pid_, [None, None])
            ctx.drift.append({"what": "recorded loop iteration is not a behaviour of SymStream!Iter (monitors were evaluated from the events alone)",
                              "mode": mode, "event_index": at, "start": st, "end": en})
    samples = []
    for i, (st, en) in list(parses_of(rnd).items())[:400:67]:
        samples.append({"start": st, "end": en})
    cov = {
        "states": mc1.distinct + mc2.distinct + tvb["states"] + tvr["states"],
        "transitions": mc1.generated + mc2.generated + tvb["transitions"] + tvr["transitions"],
        "traces_validated_against_impl": nparses,
        "samples": samples,
        "exhaustive": False,
        "evaluations": nparses,
        "distinct_nontrivial": len(parses_of(rnd)) + len(parses_of(beh)),
        "rule": "small-constant model: every input string over {x,newline,bad} up to MaxLen x every chunk schedule; ratio-16 model: every "
                "sequence of <= MaxLines lines from LineLens + tail x every schedule, one replayed schedule per distinct terminal state; "
                "real code: seeded grammar-generated and corrupted symbol files (all record kinds, CR/LF variants, numeric extremes, "
                "non-UTF-8, threshold-sized and over-long lines, missing final newline) x chunk modes {whole, 1-byte trickle, random small, "
                "around 10/20/40/80/160 KiB, single split, tiny}; each parse is one trace (non-trivial = distinct (file, schedule))",
        "tlc": {"MC_SymStream": mc1.as_dict(), "MC_SymStreamL": mc2.as_dict(),
                "Trace(beh)": {k: v for k, v in tvb.items() if k != "out"}, "Trace(random)": {k: v for k, v in tvr.items() if k != "out"}},
        "events_validated": tvb["total"] + tvr["total"],
        "monitors": sorted(monitors),
        "model_variant": "Repaired=" + rep,
    }
    return ctx.finish("model_checking", cov, assumptions=[
        "the reader contract: read() returns 0 only at end of input or for an empty slice",
        "homogeneity: a ratio-16 behaviour scaled by 5120 is a behaviour of the real constants (checked: scaled behaviours validate event for event)",
        "the line parser's verdict per line is the environment's choice in Trace_SymStream (read off the End event); tables are compared by SymbolFile: PartialEq in the recorder",
        "the 80 KiB line bound of the statement is the monitor's precondition (maxline < 81920)"])


def run(ctx):
    return run_symstream(ctx, C10_MON, "C10")


def replay(ctx, path):
    with open(path) as f:
        print(json.dumps(json.load(f), indent=1)[:6000])
    return 0
