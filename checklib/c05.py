"""C05 - every produced call stack is well-formed and makes progress (shared machinery for C04 and the C03 bound).

Spec: spec/WalkerAmd64.tla (get_caller_frame loop: CFI / frame pointer / scan as separate actions, acceptance
test, C05 monitors and the C03 bound as invariants), spec/Trace_Walk.tla (the C05 predicates and the frame bound
on REAL call stacks of any architecture, exact u64 on limbs).
Bindings: G - every instance of the small symbolic machine is materialised and walked by the real walk_stack
(exact agreement with the model is recorded; disagreement is drift for C05); V - seeded random contexts, stack
bytes, module lists and symbol text for amd64, x86, arm64 (both layouts), arm and mips; TLC evaluates the monitors
on every recorded call stack."""
import json
import re
from . import core
from .c06 import words_selftest

C05_MON = {"FirstFrame", "LaterFrames", "StackPointerProgress", "ScanFrame", "ModuleFunctionCover", "panic"}
WALK_ACTIONS = ["StepCfi", "StepFp", "StepScan", "StopNoFrame", "StopRejected", "StopBound"]


def walk_verdicts(ctx, trace, name):
    tv = ctx.trace_validate("Trace_Walk", "Trace_Walk", trace, out_name=name, timeout=3000, xmx="8g")
    if tv["matched"] != tv["total"]:
        raise core.ToolFailure("Trace_Walk stopped at record %s of %s" % (tv["matched"], tv["total"]))
    vs = []
    with open(tv["out"], "r", errors="replace") as f:
        for line in f:
            m = re.match(r'<<"VERDICT", (\d+), "(\w+)">>', line)
            if m:
                vs.append((int(m.group(1)), m.group(2)))
    return tv, vs


def summarize(rec):
    r = dict(rec)
    r.pop("words", None)
    if len(r.get("frames", [])) > 6:
        r["frames"] = r["frames"][:6] + ["... %d frames" % len(rec["frames"])]
    return r


def report_walk(ctx, trace, vs, monitors, mode):
    if not vs:
        return
    with open(trace) as f:
        lines = f.readlines()
    for idx, mon in vs:
        if mon not in monitors:
            continue
        rec = json.loads(lines[idx - 1])
        fp = "walk:%s:%s" % (rec.get("arch", "amd64"), mon)
        if mon == "panic":
            fp += ":" + rec.get("panic_msg", "")
        if mon == "FrameBound":
            trusts = set(f["trust"] for f in rec["frames"][1:])
            fp += ":" + ("cfi-never-reads-stack" if trusts == {"cfi"} else "+".join(sorted(trusts)))
        ctx.mismatch(fp, {"mode": mode, "monitor": mon, "walk": summarize(rec)})


# step-by-step walker models: key -> (TLA+ module, configuration stem, replay_walk arguments before the TLC output path)
MODELS = {
    "amd64": ("WalkerAmd64", "MC_WalkerAmd64", ["amd64"]),
    "amd64-windows": ("WalkerAmd64", "MC_WalkerAmd64win", ["amd64win"]),
    "x86": ("WalkerX86", "MC_WalkerX86", ["x86"]),
    "arm-ios": ("WalkerArm", "MC_WalkerArm_arm_ios", ["arm", "ios"]),
    "arm-linux": ("WalkerArm", "MC_WalkerArm_arm_linux", ["arm", "linux"]),
    "arm64": ("WalkerArm", "MC_WalkerArm_arm64_linux", ["arm64", "linux"]),
    "arm64old": ("WalkerArm", "MC_WalkerArm_arm64_linux", ["arm64old", "linux"]),
    "mips32": ("WalkerMips", "MC_WalkerMips_32", ["mips"]),
    "mips64": ("WalkerMips", "MC_WalkerMips_64", ["mips64"]),
}
NO_FP_TECHNIQUE = ("arm-linux", "mips32", "mips64")


def run_model_arch(ctx, arch, mode_cfg, built, reuse=None):
    """MC + replay of one walker configuration; returns (tlc result, replay report, trace path).
    arch is a key of MODELS; mode_cfg names the configuration (None: <stem>_<any|built>[_thorough])."""
    mod, stem, hargs = MODELS[arch]
    if mode_cfg is None:
        mode_cfg = "%s_%s%s" % (stem, "built" if built else "any", "_thorough" if ctx.tier == "thorough" else "")
    if reuse is not None:
        mc = reuse
    else:
        mc = ctx.tlc(mod, mode_cfg, coverage="separate", required_actions=None, timeout=6000, out_name=mode_cfg)
        if mc.violated:
            raise core.ToolFailure("invariant %s of %s.tla is violated in the model (%s)" % (mc.violated, mod, mode_cfg))
    trace = ctx.work / ("%s.%s.trace.ndjson" % (mode_cfg, arch))
    rep = ctx.read_harness_report(ctx.harness("replay_walk", hargs + [mc.out_path, trace], out_name="%s.%s.replay.out" % (mode_cfg, arch), timeout=6000))
    return mc, rep, trace


def run(ctx):
    tier = ctx.tier
    ctx.build()
    nvec = words_selftest(ctx)
    mc, rep, trace = run_model_arch(ctx, "amd64", None, False)
    for a in WALK_ACTIONS:
        if mc.coverage.get(a, (0, 0))[1] == 0:
            raise core.ToolFailure("vacuous: action %s of WalkerAmd64 never taken" % a)
    for need in ("frame:cfi", "frame:frame_pointer", "frame:scan"):
        if rep["classes"].get(need, 0) == 0:
            raise core.ToolFailure("vacuous replay: no %s produced by the real walker" % need)
    if rep["drift"]:
        ctx.drift.extend([None] * rep["drift"])
    others = {}
    traces = []
    last64 = None
    for arch in ("amd64-windows", "x86", "arm-ios", "arm-linux", "arm64", "arm64old", "mips32", "mips64"):
        mc2, rep2, trace2 = run_model_arch(ctx, arch, None, False, reuse=last64 if arch == "arm64old" else None)
        if arch == "arm64":
            last64 = mc2
        for a in WALK_ACTIONS:
            if a != "StopBound" and mc2.coverage.get(a, (0, 0))[1] == 0 and not (a == "StepFp" and arch in NO_FP_TECHNIQUE):
                raise core.ToolFailure("vacuous: action %s of %s never taken (%s)" % (a, MODELS[arch][0], arch))
        for need in ("frame:cfi", "frame:scan"):
            if rep2["classes"].get(need, 0) == 0:
                raise core.ToolFailure("vacuous replay: no %s produced by the real %s walker" % (need, arch))
        if rep2["drift"]:
            ctx.drift.extend([None] * rep2["drift"])
        others[arch] = {"tlc": mc2.as_dict(), "replayed": rep2["evaluations"], "classes": rep2["classes"], "disagreements": rep2["drift"]}
        traces.append((arch, trace2))
    tvg, vg = walk_verdicts(ctx, trace, "walk_g")
    report_walk(ctx, trace, vg, C05_MON, "G")
    gstates = 0
    for arch, tr2 in traces:
        tv2, v2 = walk_verdicts(ctx, tr2, "walk_g_" + arch)
        report_walk(ctx, tr2, v2, C05_MON, "G")
        gstates += tv2["total"]
    nrand = 1800 if tier == "quick" else 30000
    tr = ctx.harness("record_walk", [nrand], out_name="walk_v.ndjson", timeout=3000)
    tvv, vv = walk_verdicts(ctx, tr, "walk_v")
    report_walk(ctx, tr, vv, C05_MON, "V")
    per_arch = {}
    with open(tr) as f:
        for line in f:
            o = json.loads(line)
            for fr in o["frames"][1:]:
                k = o["arch"] + ":" + fr["trust"]
                per_arch[k] = per_arch.get(k, 0) + 1
    for a in ("amd64", "x86", "arm64", "arm64old", "arm", "mips"):
        for t in ("cfi", "scan"):
            if per_arch.get(a + ":" + t, 0) == 0:
                raise core.ToolFailure("vacuous V run: no %s frame on %s" % (t, a))
    samples = []
    with open(tr) as f:
        for i, line in enumerate(f):
            o = json.loads(line)
            if len(o["frames"]) >= 3 and len(samples) < 5:
                samples.append(summarize(o))
    cov = {
        "states": mc.distinct + tvg["states"] + tvv["states"], "transitions": mc.generated + tvg["transitions"] + tvv["transitions"],
        "traces_validated_against_impl": rep["evaluations"] + tvv["total"] + sum(o["replayed"] for o in others.values()),
        "samples": samples, "exhaustive": False,
        "evaluations": rep["evaluations"] + tvv["total"] + sum(o["replayed"] for o in others.values()), "distinct_nontrivial": rep["distinct_nontrivial"],
        "rule": "amd64, x86 (STACK WIN frame data / FPO / STACK CFI, grand-callee parameter sizes), arm (iOS and Linux), arm64, arm64-old, mips o32 and mips64 models: every stack of NW words over the "
                "candidate values x contexts x unwind rule shapes walked by the real walk_stack and compared frame by frame with the model: return address, sp, technique, "
                "callee-saved register validity and values, parameter size (non-trivial = instance with at least one recovered caller); all architectures: seeded random "
                "contexts / stack bytes / modules / symbol text, monitors evaluated by Trace_Walk on every call stack",
        "tlc": {"WalkerAmd64": mc.as_dict(), "Trace_Walk(G)": {k: v for k, v in tvg.items() if k != "out"}, "Trace_Walk(V)": {k: v for k, v in tvv.items() if k != "out"}},
        "replay_classes": rep["classes"], "other_models": others, "frames_by_arch_and_technique": per_arch, "words_selftest_vectors": nvec,
    }
    return ctx.finish("model_checking", cov, assumptions=[
        "C05 monitors as stated in Trace_Walk.tla; call adjustments 1 (x86, amd64), 2 (arm), 4 (arm64), 8 (mips); sp may repeat between the first two frames on arm / arm64 / mips only",
        "step-by-step models exist for amd64 (non-Windows), x86, arm, arm64 (both layouts) and mips (o32 and 64-bit)",
        "WalkerX86 mirrors the no-op STACK WIN register clear (finding recorded under C07) so that exact agreement can be demanded",
        "the frame bound is C03's subject and not judged here"])


def replay(ctx, path):
    with open(path) as f:
        print(json.dumps(json.load(f), indent=1)[:6000])
    return 0
