"""C05 - every produced call stack is well-formed and makes progress (shared machinery for C04 and the C03 bound).

Spec: spec/WalkerAmd64.tla (get_caller_frame loop: CFI / frame pointer / scan as separate actions, acceptance
test, C05 monitors and the C03 bound as invariants), spec/Trace_Walk.tla (the C05 predicates and the frame bound
on REAL call stacks of any architecture, exact u64 on limbs).
Bindings: G - every instance of the small symbolic machine is materialised and walked by the real walk_stack
(exact agreement with the model is recorded; disagreement is drift for C05); V - seeded random contexts, stack
bytes, module lists and symbol text for amd64, x86, arm64 (both layouts), arm and mips; TLC evaluates the monitors
on every recorded call stack."""
import json
import re
from . import core
from .c06 import words_selftest

C05_MON = {"FirstFrame", "LaterFrames", "StackPointerProgress", "ScanFrame", "ModuleFunctionCover", "panic"}
WALK_ACTIONS = ["StepCfi", "StepFp", "StepScan", "StopNoFrame", "StopRejected", "StopBound"]


def walk_verdicts(ctx, trace, name):
    tv = ctx.trace_validate("Trace_Walk", "Trace_Walk", trace, out_name=name, timeout=3000, xmx="8g")
    if tv["matched"] != tv["total"]:
        raise core.ToolFailure("Trace_Walk stopped at record %s of %s" % (tv["matched"], tv["total"]))
    vs = []
    with open(tv["out"], "r", errors="replace") as f:
        for line in f:
            m = re.match(r'<<"VERDICT", (\d+), "(\w+)">>', line)
            if m:
                vs.append((int(m.group(1)), m.group(2)))
    return tv, vs


def summarize(rec):
    r = dict(rec)
    r.pop("words", None)
    if len(r.get("frames", [])) > 6:
        r["frames"] = r["frames"][:6] + ["... %d frames" % len(rec["frames"])]
    return r


def report_walk(ctx, trace, vs, monitors, mode):
    if not vs:
        return
    with open(trace) as f:
        lines = f.readlines()
    for idx, mon in vs:
        if mon not in monitors:
            continue
        rec = json.loads(lines[idx - 1])
        fp = "walk:%s:%s" % (rec.get("arch", "amd64"), mon)
        if mon == "panic":
            fp += ":" + rec.get("panic_msg", "")
        if mon == "FrameBound":
            trusts = set(f["trust"] for f in rec["frames"][1:])
            fp += ":" + ("cfi-never-reads-stack" if trusts == {"cfi"} else "+".join(sorted(trusts)))
        ctx.mismatch(fp, {"mode": mode, "monitor": mon, "walk": summarize(rec)})


def run_model_arch(ctx, arch, mode_cfg, built):
    """MC + replay of one Walker<Arch> configuration; returns (tlc result, replay report, trace path)."""
    mod = {"amd64": "WalkerAmd64"}[arch]
    mc = ctx.tlc(mod, mode_cfg, coverage="separate", required_actions=None, timeout=6000, out_name=mode_cfg)
    if mc.violated:
        raise core.ToolFailure("invariant %s of %s.tla is violated in the model (%s)" % (mc.violated, mod, mode_cfg))
    trace = ctx.work / (mode_cfg + ".trace.ndjson")
    rep = ctx.read_harness_report(ctx.harness("replay_walk", [arch, mc.out_path, trace], out_name=mode_cfg + ".replay.out", timeout=6000))
    return mc, rep, trace


def run(ctx):
    tier = ctx.tier
    ctx.build()
    nvec = words_selftest(ctx)
    mc, rep, trace = run_model_arch(ctx, "amd64", "MC_WalkerAmd64_any" if tier == "quick" else "MC_WalkerAmd64_any_thorough", False)
    for a in WALK_ACTIONS:
        if mc.coverage.get(a, (0, 0))[1] == 0:
            raise core.ToolFailure("vacuous: action %s of WalkerAmd64 never taken" % a)
    for need in ("frame:cfi", "frame:frame_pointer", "frame:scan"):
        if rep["classes"].get(need, 0) == 0:
            raise core.ToolFailure("vacuous replay: no %s produced by the real walker" % need)
    if rep["drift"]:
        ctx.drift.extend([None] * rep["drift"])
    tvg, vg = walk_verdicts(ctx, trace, "walk_g")
    report_walk(ctx, trace, vg, C05_MON, "G")
    nrand = 1800 if tier == "quick" else 30000
    tr = ctx.harness("record_walk", [nrand], out_name="walk_v.ndjson", timeout=3000)
    tvv, vv = walk_verdicts(ctx, tr, "walk_v")
    report_walk(ctx, tr, vv, C05_MON, "V")
    per_arch = {}
    with open(tr) as f:
        for line in f:
            o = json.loads(line)
            for fr in o["frames"][1:]:
                k = o["arch"] + ":" + fr["trust"]
                per_arch[k] = per_arch.get(k, 0) + 1
    for a in ("amd64", "x86", "arm64", "arm64old", "arm", "mips"):
        for t in ("cfi", "scan"):
            if per_arch.get(a + ":" + t, 0) == 0:
                raise core.ToolFailure("vacuous V run: no %s frame on %s" % (t, a))
    samples = []
    with open(tr) as f:
        for i, line in enumerate(f):
            o = json.loads(line)
            if len(o["frames"]) >= 3 and len(samples) < 5:
                samples.append(summarize(o))
    cov = {
        "states": mc.distinct + tvg["states"] + tvv["states"], "transitions": mc.generated + tvg["transitions"] + tvv["transitions"],
        "traces_validated_against_impl": rep["evaluations"] + tvv["total"],
        "samples": samples, "exhaustive": False,
        "evaluations": rep["evaluations"] + tvv["total"], "distinct_nontrivial": rep["distinct_nontrivial"],
        "rule": "amd64 model: every stack of NW words over 8 candidate values x 27 contexts x 4 CFI rule shapes walked by the real walk_stack and "
                "compared frame by frame with the model (non-trivial = instance with at least one recovered caller); all architectures: seeded random "
                "contexts / stack bytes / modules / symbol text, monitors evaluated by Trace_Walk on every call stack",
        "tlc": {"WalkerAmd64": mc.as_dict(), "Trace_Walk(G)": {k: v for k, v in tvg.items() if k != "out"}, "Trace_Walk(V)": {k: v for k, v in tvv.items() if k != "out"}},
        "replay_classes": rep["classes"], "frames_by_arch_and_technique": per_arch, "words_selftest_vectors": nvec,
    }
    return ctx.finish("model_checking", cov, assumptions=[
        "C05 monitors as stated in Trace_Walk.tla; call adjustments 1 (x86, amd64), 2 (arm), 4 (arm64), 8 (mips); sp may repeat between the first two frames on arm / arm64 / mips only",
        "a step-by-step model exists for amd64 (non-Windows) only; the other architectures are decided by the monitors on recorded walks",
        "the frame bound is C03's subject and not judged here"])


def replay(ctx, path):
    with open(path) as f:
        print(json.dumps(json.load(f), indent=1)[:6000])
    return 0
