"""C18 - register access by name is consistent for every CPU context.

Spec: spec/Registers.tla over spec/RegTables.tla (hand-entered documented tables, generated into TLA+ by
tools/gen_registers_tla.py).  Binding: G, complete - every state (context type x history of <= MaxSets
set-by-name operations over all names, aliases and unknown names) is executed on the real CpuContext /
MinidumpContext and compared: raw register slots, reads through every name and alias, sp/ip accessors,
memoization, validity Some({m}) for every name and alias m, enumerations."""
import json
from . import core


def run(ctx):
    ctx.build()
    mc = ctx.tlc("Registers", "MC_Registers_" + ctx.tier, coverage="separate", required_actions=["SetKnown", "SetUnknown"], timeout=3000)
    if mc.violated:
        raise core.ToolFailure("design-level invariant %s of Registers.tla is violated (inconsistent documented tables?)" % mc.violated)
    rep = ctx.read_harness_report(ctx.harness("replay_registers", [mc.out_path], out_name="replay_registers.out"))
    for t in ("x86", "amd64", "arm", "arm64", "arm64old", "ppc", "ppc64", "mips", "sparc"):
        if rep["classes"].get("type:" + t, 0) == 0 or rep["classes"].get("hist:" + t, 0) == 0:
            raise core.ToolFailure("vacuous replay: context type %s never exercised" % t)
    cov = {
        "states": mc.distinct, "transitions": mc.generated,
        "traces_validated_against_impl": rep["evaluations"],
        "samples": rep["samples"][:6] or [{"note": "see replay classes"}],
        "exhaustive": True,
        "evaluations": rep["evaluations"], "distinct_nontrivial": rep["distinct_nontrivial"],
        "rule": "9 context types x every history of <= MaxSets writes by name (first write: every name, alias and 5 unknown names x {1, all-ones}; "
                "later writes: aliases, their canonical names, sp/ip names, first/last register) - each state checked through every name; plus per type "
                "all singleton validity sets Some({m}) x all query names, unknown names under All/empty/full validity, enumerations (non-trivial = "
                "distinct non-empty history)",
        "tlc": {"Registers": mc.as_dict()}, "replay_classes": rep["classes"],
    }
    return ctx.finish("model_checking", cov, assumptions=[
        "the documented tables are those of tools/gen_registers_tla.py (architecture register names, ARM/ARM64/SPARC aliases, sp/ip names)",
        "ground truth for 'which register a name denotes' is the public raw context field read by replay_registers.rs::raw_slot",
        "a validity set that itself contains an unknown name is outside the property (sets are built from memoized names)"])


def replay(ctx, path):
    with open(path) as f:
        print(json.dumps(json.load(f), indent=1)[:6000])
    return 0
