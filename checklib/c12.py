"""C12 - a module's symbols are located once, however concurrent lookups interleave.

Spec: spec/SymbolCache.tla (poll-granular model of Symbolizer::get_symbols / CachedAsyncResult::get over an async
mutex per module key), MC_SymbolCache.tla (task scripts / supplier answers / suspensions), Trace_SymbolCache.tla.
Bindings: G - every complete behaviour of <= MaxSteps poll/open steps (spurious polls included) is replayed on the
real Symbolizer by an executor that polls exactly the named task; pending_stats and per-task observations are
compared after every step.  V - the same scripts under a seeded random strict executor and multi-thread tokio;
TLC evaluates the C12 predicates on each run's summary."""
import json
import re
from . import core


def run(ctx):
    tier = ctx.tier
    ctx.build()
    mc = ctx.tlc("MC_SymbolCache", "MC_SymbolCache_" + tier, coverage="separate", required_actions=["Poll", "Open"], timeout=3000)
    if mc.violated:
        raise core.ToolFailure("C12 invariant %s is violated in the model itself" % mc.violated)
    # the documented mistake (lock released across the supplier await) must be caught by the model: guards against a vacuous spec
    mut = ctx.tlc("MC_SymbolCache", "MC_SymbolCache_mutant", coverage=False, timeout=3000, expect_violation=True, out_name="mutant")
    if mut.violated != "AtMostOnce":
        raise core.ToolFailure("vacuity guard: the HoldAcrossAwait=FALSE variant of SymbolCache.tla no longer violates AtMostOnce")
    gen = ctx.tlc("MC_SymbolCache", "Gen_SymbolCache_" + tier, coverage=False, timeout=6000, xmx="16g")
    if gen.violated:
        raise core.ToolFailure("C12 invariant %s is violated in the model itself (Gen)" % gen.violated)
    rep = ctx.read_harness_report(ctx.harness("replay_symcache", ["replay", gen.out_path], out_name="replay_symcache.out", timeout=3000))
    # the same behaviours with the keys mapped to three libraries that share a leaf name and have no identifiers
    rep_dirs = ctx.read_harness_report(ctx.harness("replay_symcache", ["replay", gen.out_path], out_name="replay_symcache_dirs.out", timeout=3000, env={"VERIF_IDMAP": "dirs"}))
    rep["evaluations"] += rep_dirs["evaluations"]
    nruns = 600 if tier == "quick" else 6000
    tr = ctx.harness("replay_symcache", ["v", gen.out_path, nruns], out_name="symcache_v.ndjson", timeout=3000)
    tv = ctx.trace_validate("Trace_SymbolCache", "Trace_SymbolCache", tr)
    if tv["matched"] != tv["total"]:
        raise core.ToolFailure("Trace_SymbolCache stopped at record %s of %s" % (tv["matched"], tv["total"]))
    with open(tr) as f:
        lines = f.readlines()
    with open(tv["out"], "r", errors="replace") as f:
        for line in f:
            m = re.match(r'<<"VERDICT", (\d+), "(\w+)">>', line)
            if m:
                ctx.mismatch("symcache-run:" + m.group(2), {"run": json.loads(lines[int(m.group(1)) - 1])})
    if rep["evaluations"] < 100:
        raise core.ToolFailure("vacuous: only %d behaviours replayed" % rep["evaluations"])
    cov = {
        "states": mc.distinct + gen.distinct, "transitions": mc.generated + gen.generated,
        "traces_validated_against_impl": rep["evaluations"] + tv["total"],
        "samples": rep["samples"][:4], "exhaustive": True,
        "evaluations": rep["evaluations"] + tv["total"], "distinct_nontrivial": rep["distinct_nontrivial"],
        "rule": "MC: all interleavings of poll/open steps incl. spurious polls for the configured scripts (3 tasks, 1-3 lookups, 1-3 keys differing in one "
                "identity component each, answers Ok/NotFound/ParseErr/LoadErr, 0-3 suspensions), history hidden by VIEW; Gen: every complete behaviour "
                "of <= MaxSteps steps replayed poll-exactly under two identity mappings of the keys (one differing identifier; same leaf name in different directories "
                "without identifiers) (non-trivial = distinct behaviour); V: seeded strict-executor and tokio runs",
        "tlc": {"MC": mc.as_dict(), "Gen": gen.as_dict(), "mutant_violates": mut.violated, "Trace": {k: v for k, v in tv.items() if k != "out"}},
        "replay_classes": rep["classes"], "runs_under_free_executors": tv["total"],
    }
    return ctx.finish("model_checking", cov, assumptions=[
        "cancellation (dropping a lookup future) is excluded, as in the statement",
        "a lock future always retries try_lock when polled, so steering polls by task name is exact without modelling waiter order",
        "OS-thread interleavings inside tokio are sampled, not enumerated"])


def replay(ctx, path):
    with open(path) as f:
        print(json.dumps(json.load(f), indent=1)[:6000])
    return 0
