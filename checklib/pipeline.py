"""Shared driver for the whole-pipeline checks C03 (totality), C13 (determinism), C15 (JSON report): a seeded corpus
of generated / corrupted (dump, symbols) pairs plus dumps of Processor.tla cases is processed by the real
process_minidump (harness record_process); TLC evaluates the monitors of Trace_Process.tla / Trace_Report.tla on
every recorded run."""
import json
import re
from . import core


def processor_cases(ctx):
    mc = ctx.tlc("Processor", "MC_Processor_quick", coverage=False, timeout=3000, xmx="16g", out_name="processor_cases")
    if mc.violated:
        raise core.ToolFailure("Processor.tla invariant %s violated" % mc.violated)
    return mc


def verdicts(ctx, tla, trace, name):
    tv = ctx.trace_validate(tla, tla, trace, out_name=name, timeout=3000, xmx="10g")
    if tv["matched"] != tv["total"]:
        raise core.ToolFailure("%s stopped at record %s of %s (%s)" % (tla, tv["matched"], tv["total"], tv["violated"]))
    vs = []
    with open(tv["out"], "r", errors="replace") as f:
        for line in f:
            m = re.match(r'<<"VERDICT", (\d+), "(\w+)">>', line)
            if m:
                vs.append((int(m.group(1)), m.group(2)))
    return tv, vs


def lines_of(path):
    with open(path) as f:
        return f.readlines()
