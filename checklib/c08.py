"""C08 - address look-ups over untrusted range tables are sound and complete.

Spec: spec/RangeMap.tla (into_rangemap_safe, MemRange constructors, STACK WIN overlap repair; the C08
predicates as invariants), spec/Trace_RangeMap.tla (the same predicates on observations of the real code,
exact u64 on limbs).  Bindings: G - every entry sequence TLC enumerates is built into 15 kinds of real tables
(trait, module / unloaded-module / memory / memory64 / memory-info / maps lists directly and through generated
dumps, symbol-file FUNC / line / STACK CFI / STACK WIN tables); equality with the model's table implies the
predicates (TLC checked them on the model's table); any case that differs is decided by TLC evaluating the
predicates on the real observation (violation) or is drift.  V - seeded random u64 tables, all evaluated by TLC."""
import json
import re
from . import core
from .c06 import words_selftest


def verdicts(ctx, trace, out_name):
    """Run Trace_RangeMap over observation records; returns (n_records, list of (idx, bind, monitor))."""
    tv = ctx.trace_validate("Trace_RangeMap", "Trace_RangeMap", trace, out_name=out_name, timeout=3000, xmx="8g")
    if tv["matched"] != tv["total"]:
        raise core.ToolFailure("Trace_RangeMap stopped at record %s of %s" % (tv["matched"], tv["total"]))
    vs = []
    with open(tv["out"], "r", errors="replace") as f:
        for line in f:
            m = re.match(r'<<"VERDICT", (\d+), "(\w+)", "(\w+)">>', line)
            if m:
                vs.append((int(m.group(1)), m.group(2), m.group(3)))
    return tv, vs


def report(ctx, trace, vs, mode):
    if not vs:
        return
    with open(trace) as f:
        lines = f.readlines()
    for idx, bind, mon in vs:
        rec = json.loads(lines[idx - 1])
        fp = "rangemap:%s:%s" % (bind, mon)
        if rec.get("panic"):
            fp += ":" + (rec.get("panic_msg") or "")
        rec.pop("probes", None) if len(json.dumps(rec)) > 6000 else None
        ctx.mismatch(fp, {"mode": mode, "record": rec})


def run(ctx):
    tier = ctx.tier
    ctx.build()
    nvec = words_selftest(ctx)
    maxv = 9 if tier == "quick" else 19
    mc = ctx.tlc("RangeMap", "MC_RangeMap_" + tier, coverage="separate", required_actions=["Add"], timeout=6000)
    if mc.violated:
        raise core.ToolFailure("design-level invariant %s of RangeMap.tla is violated in the model" % mc.violated)
    pend = ctx.work / "pending.ndjson"
    rep = ctx.read_harness_report(ctx.harness("replay_rangemap", [mc.out_path, maxv, pend], out_name="replay_rm.out", timeout=6000))
    npend = rep["classes"].get("pending_for_monitors", 0)
    tvp = None
    if npend:
        tvp, vs = verdicts(ctx, pend, "pending")
        report(ctx, pend, vs, "G")
        ndrift = npend - len(set(v[0] for v in vs))
        for _ in range(ndrift):
            ctx.drift.append(None)
        if ndrift:
            with open(pend) as f:
                flagged = set(v[0] for v in vs)
                for i, line in enumerate(f, 1):
                    if i not in flagged:
                        r = json.loads(line)
                        r.pop("probes", None)
                        ctx.drift[0] = {"what": "real table differs from RangeMap.Safe but satisfies the C08 predicates", "record": r}
                        break
    ntab = 120 if tier == "quick" else 1200
    tr = ctx.harness("record_rangemap", [ntab], out_name="rm_trace.ndjson")
    tvr, vs = verdicts(ctx, tr, "random")
    report(ctx, tr, vs, "V")
    for b in ("trait", "modules", "unloaded", "memory", "memory64", "meminfo", "maps", "dump_modules", "func", "lines", "cfi", "win_fd", "win_fpo", "unified_meminfo", "unified_maps"):
        if rep["classes"].get(b, 0) == 0:
            raise core.ToolFailure("vacuous replay: binding %s never exercised" % b)
    cov = {
        "states": mc.distinct + tvr["states"] + (tvp["states"] if tvp else 0),
        "transitions": mc.generated + tvr["transitions"] + (tvp["transitions"] if tvp else 0),
        "traces_validated_against_impl": rep["evaluations"] + tvr["total"],
        "samples": rep["samples"][:6],
        "exhaustive": True,
        "evaluations": rep["evaluations"] + tvr["total"],
        "distinct_nontrivial": rep["distinct_nontrivial"],
        "rule": "every sequence of <= MaxLen (base,size,value) entries over the configured bases (incl. u64::MAX-1, u64::MAX) and sizes, "
                "built into each of 15 real table kinds and queried at every address of the domain (non-trivial = distinct (binding, "
                "sequence) whose table has >= 2 ranges); plus seeded random u64 tables (0..9 entries, overlapping / nested / duplicate / "
                "empty / ending at 2^64-1) per binding, probed at and around every boundary, all evaluated by Trace_RangeMap",
        "tlc": {"RangeMap": mc.as_dict(), "Trace_RangeMap(random)": {k: v for k, v in tvr.items() if k != "out"}},
        "replay_classes": rep["classes"],
        "cases_decided_by_monitors": npend,
        "random_tables_observed": tvr["total"],
        "words_selftest_vectors": nvec,
    }
    return ctx.finish("model_checking", cov, assumptions=[
        "C08 predicates as stated in RangeMap.tla / Trace_RangeMap.tla; an entry's documented range is [base, base+size-1], none if size = 0 or it overflows",
        "the small address domain maps to u64 by an order- and successor-preserving map (MaxV, MaxV-1 -> u64::MAX, u64::MAX-1)",
        "generated dumps come from the frozen vendored writer harness/vendor/vf-synth",
        "completeness is checked at the probed addresses (all of the small domain; every boundary +-1 for random tables)"])


def replay(ctx, path):
    with open(path) as f:
        print(json.dumps(json.load(f), indent=1)[:6000])
    return 0
