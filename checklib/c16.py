"""C16 - the on-disk symbol cache only ever holds complete, parseable files.

Spec: spec/HttpCache.tla - one action per await point / file-system effect of HttpSymbolSupplier's download path
(Local, Send, Chunk, End, Note, Remove, Persist, NextUrl, Drop) over an environment (pre-existing entry, temp dir and
entry directory usable, file kind sym/file) and one script per symbol URL (status, chunks before the connection is
cut, chunk that stops the parser, await point at which the caller abandons the request).
MC: CacheComplete / NoStrayTemp / NoEntryOnFailure in every state, for one client exhaustively and for two clients
sharing the cache path (every interleaving of their file-system steps).
G : every terminal behaviour TLC emits is played against the real HttpSymbolSupplier with one scripted raw-TCP
loopback server per URL (fixed length and chunked bodies, chunk boundaries at line ends and mid-line); afterwards
cache/ and tmp/ are read back byte for byte and compared with the model's terminal state, the request logs with the
model's URL index, and an offline supplier repeats the lookup (same symbol table and URL).  Names taken straight from
a dump (hostile mode) must not make the supplier write outside cache/ and tmp/."""
import json
from . import core


def run(ctx):
    tier = ctx.tier
    ctx.build()
    acts = ["Local", "Send", "Chunk", "End", "Note", "Remove", "Persist", "NextUrl", "Drop"]
    two = ctx.tlc("HttpCache", "MC_HttpCache_two", coverage="separate", required_actions=acts, timeout=3000, out_name="two")
    if two.violated:
        raise core.ToolFailure("C16 invariant %s is violated in the two-client model itself" % two.violated)
    runs = [("MC_HttpCache_quick", 2), ("MC_HttpCache_urls", 2)]
    if tier == "thorough":
        runs += [("MC_HttpCache_thorough", 3), ("MC_HttpCache_urls_thorough", 2)]
    total = {"evaluations": 0, "distinct_nontrivial": 0, "classes": {}, "samples": []}
    mcs = {"two_clients": two.as_dict()}
    states = two.distinct
    trans = two.generated
    for cfg, n in runs:
        mc = ctx.tlc("HttpCache", cfg, coverage=False, timeout=3000, out_name=cfg)
        if mc.violated:
            raise core.ToolFailure("C16 invariant %s is violated in the model itself (%s)" % (mc.violated, cfg))
        mcs[cfg] = mc.as_dict()
        states += mc.distinct
        trans += mc.generated
        # wire concretisations per scenario; the largest enumeration gets one (each scenario opens up to three listeners)
        nconc = 2 if tier == "quick" else (1 if cfg == "MC_HttpCache_urls_thorough" else 2)
        rep = ctx.read_harness_report(ctx.harness("replay_httpcache", ["replay", mc.out_path, n, nconc], out_name="replay_%s.out" % cfg, timeout=3000))
        total["evaluations"] += rep["evaluations"]
        total["distinct_nontrivial"] += rep["distinct_nontrivial"]
        for k, v in rep["classes"].items():
            total["classes"][k] = total["classes"].get(k, 0) + v
        total["samples"].extend(rep.get("samples", [])[:3])
    for mode in ("hostile", "symfile", "bodies"):
        rep = ctx.read_harness_report(ctx.harness("replay_httpcache", [mode], out_name="replay_%s.out" % mode, timeout=600))
        total["evaluations"] += rep["evaluations"]
        for k, v in rep["classes"].items():
            total["classes"][k] = total["classes"].get(k, 0) + v
    for need in ("sym:ok_cached", "sym:dropped", "sym:notfound", "sym:hit", "sym:ok_uncached", "file:ok_cached", "file:dropped", "hostile:ok",
                 "sym-via-locate_file:ok_cached", "sym-via-locate_file:notfound", "symfile:bad0:cut2:ok", "bodies:line-200k:ok", "bodies:plain:ok"):
        if total["classes"].get(need, 0) == 0:
            raise core.ToolFailure("vacuous: no replayed scenario of class %s" % need)
    # scenarios in which the final move into the cache cannot succeed need a second file system (/dev/shm); without one they are skipped, not failed
    if total["classes"].get("skipped:no-second-file-system-for-a-failing-move", 0) == 0:
        for need in ("sym:ok_commit_failed", "move-cannot-succeed"):
            if total["classes"].get(need, 0) == 0:
                raise core.ToolFailure("vacuous: no replayed scenario of class %s" % need)
    else:
        ctx.notes.append("no second file system available: scenarios with a failing final move were skipped")
    cov = {
        "states": states, "transitions": trans, "traces_validated_against_impl": total["evaluations"], "exhaustive": True,
        "evaluations": total["evaluations"], "distinct_nontrivial": total["distinct_nontrivial"], "samples": total["samples"][:5],
        "rule": "every terminal behaviour of HttpCache.tla for the configured constants (N chunks, statuses, drop points incl. 'while waiting for the "
                "response head' and 'after k chunks', pre-existing entry, temp dir / entry dir unusable, 1..MaxUrls URLs, kinds sym and file), each under "
                "1-2 wire concretisations (line-aligned/mid-line chunk boundaries x Content-Length/chunked); non-trivial = distinct scenario",
        "tlc": mcs, "replay_classes": total["classes"],
    }
    return ctx.finish("model_checking", cov, assumptions=[
        "servers announce the body length (Content-Length or chunked); a close-delimited body cut at a line end is indistinguishable from a complete one for any client",
        "two processes sharing one cache path are covered by the model (every interleaving) and by the per-step conformance of one client; they are not raced on the real file system",
        "a dropped request is realised by abandoning the future while the server stalls; which await point it was parked at is the server's choice, the verdict does not depend on it",
        "unusable directories are realised as 'a regular file is in the way' (the harness runs as root, permissions would not bind)"])


def replay(ctx, path):
    with open(path) as f:
        print(json.dumps(json.load(f), indent=1)[:6000])
    return 0
