"""C01 - reading a minidump is total: no panic, hang or runaway allocation on any bytes.

Spec: spec/DumpReader.tla - the reader as a validation protocol over adversarial count / size / offset fields, one
action per validation step, with allocation and work accounting; AllocBacked / WorkBounded / NoPanic checked by TLC,
and one mutant configuration per guard (dropping it must violate an invariant).  spec/Trace_DumpReader.tla - the
statement's monitor (Total, AllocBound) evaluated by TLC on what the real reader did.
Binding: G - every terminal state of DumpReader.tla (a protocol class and one boundary tag per field) is
instantiated as bytes in rich valid template dumps (all 24 stream types, 9 CPU context layouts, both byte orders,
written by the frozen vendored writer) and driven through Minidump::read, get_stream for all 24 types, every
accessor and every print, in worker processes with a bounding allocator and a watchdog; the model's predicted
stream result is compared (drift).  V - the same monitor over every 32-bit word of header, directory and streams
replaced by each boundary value (and 16/64-bit variants), truncation at every offset (with the directory
re-attached), hostile contents of the eight text streams, and seeded random files; the command-line tool's own raw-dump printer
(minidump-stackwalk --dump [--brief], main.rs) is run as a process on every template with every directory entry's size and
location replaced by boundary values (empty, truncated and misplaced streams of every type): exit status 0 or 1 only."""
import json
import os
import re
from . import core
from .c20 import build_cli

GUARDS = ["count_in_bound", "descriptor_size", "chain_bound", "info_type", "param_bound", "record_cap"]


def run(ctx):
    tier = ctx.tier
    ctx.build()
    mc = ctx.tlc("DumpReader", "MC_DumpReader_" + tier, coverage="separate", timeout=3000,
                 required_actions=["DirWalk", "DirSlice", "ListHeader", "ListEntries", "ChainStep", "Mem64", "Mem64Entries", "Exception", "MacCrash", "String"])
    if mc.violated:
        raise core.ToolFailure("C01 design invariant %s is violated in DumpReader.tla with every guard in force" % mc.violated)
    mutants = {}
    for g in GUARDS:
        mu = ctx.tlc("DumpReader", "MC_DumpReader_no_" + g, coverage=False, timeout=3000, expect_violation=True, out_name="mutant_" + g)
        if not mu.violated:
            raise core.ToolFailure("vacuity guard: DumpReader.tla without guard %s violates nothing" % g)
        mutants[g] = mu.violated
    env = {"VERIF_TIER": tier, "VERIF_SEED": str(ctx.seed)}
    binary = build_cli(ctx)
    gens = [("model", ["gen", "model", mc.out_path]), ("sweep", ["gen", "sweep"]), ("trunc", ["gen", "trunc"]), ("text", ["gen", "text"]), ("rand", ["gen", "rand"]),
            ("clidump", ["gen", "clidump"])]
    records = []      # aggregated records for the monitor
    detail = {}       # monitor record index -> detail for the replay file
    counts = {}
    total_cases = 0
    distinct = 0
    for name, args in gens:
        cases = os.path.join(ctx.work, "cases_%s.ndjson" % name)
        out = os.path.join(ctx.work, "results_%s.ndjson" % name)
        ctx.harness("replay_reader", args + [cases], out_name="gen_%s.log" % name, timeout=3000, env=env)
        if name == "clidump":
            # the command-line tool's own raw-dump printer (main.rs), run as a process per case
            ctx.harness("replay_reader", ["cli", cases, out, binary, os.path.join(ctx.work, "cli"), 12], out_name="run_%s.log" % name, timeout=7200, env=env)
        else:
            ctx.harness("replay_reader", ["run", cases, out, 14], out_name="run_%s.log" % name, timeout=7200, env=env)
        with open(cases) as f:
            case_lines = f.readlines()
        groups = {}
        n = 0
        with open(out) as f:
            for line in f:
                r = json.loads(line)
                n += 1
                counts["%s:%s" % (name, r["outcome"])] = counts.get("%s:%s" % (name, r["outcome"]), 0) + 1
                pred, obs = "none", "none"
                meta = r.get("meta")
                if meta:
                    pred = meta["pred"]
                    if r["outcome"] == "err":
                        obs = "read_err"
                    elif r["outcome"] == "ok":
                        obs = "err" if any(e.startswith(meta["stream"]) for e in r.get("errs", [])) else "ok"
                    counts["model:%s" % meta["cls"]] = counts.get("model:%s" % meta["cls"], 0) + 1
                bad = r["outcome"] not in ("ok", "err")
                drift = pred in ("ok", "err", "read_err") and pred != obs
                if bad or drift:
                    if len([1 for d in detail.values() if d["gen"] == name]) < 60:
                        records.append({"gen": name, "len": r["len"], "peak": r["peak"], "outcome": r["outcome"], "n": 1, "pred": pred, "obs": obs})
                        detail[len(records)] = {"gen": name, "case": json.loads(case_lines[r["i"]]), "result": {k: v for k, v in r.items() if k != "meta"}}
                    continue
                k = (r["len"], r["outcome"])
                g = groups.get(k)
                if g is None or r["peak"] > g["peak"]:
                    groups[k] = {"peak": r["peak"], "i": r["i"], "n": (g["n"] if g else 0) + 1}
                else:
                    g["n"] += 1
        if n != len(case_lines):
            raise core.ToolFailure("%s: %d results for %d cases" % (name, n, len(case_lines)))
        total_cases += n
        distinct += len(set(case_lines))
        for (ln, oc), g in sorted(groups.items()):
            records.append({"gen": name, "len": ln, "peak": g["peak"], "outcome": oc, "n": g["n"], "pred": "none", "obs": "none"})
            detail[len(records)] = {"gen": name, "case": json.loads(case_lines[g["i"]]), "worst_peak": g["peak"], "group_size": g["n"]}
    tr = os.path.join(ctx.work, "reader_records.ndjson")
    with open(tr, "w") as f:
        for r in records:
            f.write(json.dumps(r) + "\n")
    tv = ctx.trace_validate("Trace_DumpReader", "Trace_DumpReader", tr, timeout=3000)
    if tv["matched"] != tv["total"]:
        raise core.ToolFailure("Trace_DumpReader stopped at record %s of %s" % (tv["matched"], tv["total"]))
    with open(tv["out"], "r", errors="replace") as f:
        for line in f:
            m = re.match(r'<<"VERDICT", (\d+), "(\w+)">>', line)
            if m:
                d = detail[int(m.group(1))]
                res = d.get("result", {})
                msg = re.sub(r"\d{4,}", "N", res.get("msg", ""))[:90]
                ctx.mismatch("reader:%s:%s:%s" % (m.group(2), res.get("outcome", "peak"), msg), d)
            m = re.match(r'<<"DRIFT", (\d+), "(\w+)", "(\w+)">>', line)
            if m:
                d = detail[int(m.group(1))]
                ctx.drift.append({"what": "DumpReader.tla predicts %s for the stream, the reader returned %s" % (m.group(2), m.group(3)), "case": d["case"].get("meta")})
    for need in ("model:dir", "model:counted", "model:exlist", "model:handle", "model:mem64", "model:exception", "model:maccrash", "model:string",
                 "sweep:ok", "trunc:ok", "trunc:err", "text:ok", "rand:ok", "rand:err", "clidump:ok"):
        if counts.get(need, 0) == 0:
            raise core.ToolFailure("vacuous: no executed case of class %s" % need)
    cov = {
        "states": mc.distinct + tv["states"], "transitions": mc.generated + tv["transitions"],
        "traces_validated_against_impl": total_cases, "exhaustive": False,
        "evaluations": total_cases, "distinct_nontrivial": distinct, "samples": [detail[k]["case"] for k in sorted(detail)[:3]],
        "rule": "model: every terminal state of DumpReader.tla (8 protocol classes, one boundary tag per adversarial field) on the windows-x86 / linux-amd64 templates "
                "in both byte orders; sweep: every 32-bit word of header, directory and the first bytes of every stream (whole file at every alignment for some "
                "templates) x {0,1,L-1,L,L+1,2^31,2^32-1} plus 16/64-bit variants over 20 templates; trunc: cut at every 3rd (thorough: every) offset with the "
                "directory re-attached; text: a grammar of hostile key/separator/value/terminator lines for 8 text streams; rand: seeded random files with and "
                "without a plausible header; clidump: the built minidump-stackwalk --dump / --dump --brief on every template x directory entry x {size, rva} x boundary values; "
                "non-trivial = distinct case",
        "tlc": {"DumpReader": mc.as_dict(), "mutants_violate": mutants, "Trace_DumpReader": {k: v for k, v in tv.items() if k != "out"}},
        "outcome_counts": counts, "monitor_records": len(records),
    }
    return ctx.finish("exploration", cov, assumptions=[
        "the quantifier is over all byte strings; the cases are the structured families above, not an enumeration",
        "allocation is measured by a counting global allocator that refuses any request taking the case above 8 MiB + 256 L + L^2; a refusal aborts the worker and is recorded as the case's outcome",
        "termination is a 30 s watchdog per case",
        "model predictions are compared only where the result does not depend on bytes the model does not describe ('any' otherwise)"])


def replay(ctx, path):
    with open(path) as f:
        print(json.dumps(json.load(f), indent=1)[:6000])
    return 0
