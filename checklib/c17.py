"""C17 - symbol look-up paths derived from module names stay inside the symbol directories.

Spec: spec/Paths.tla (leaf / extension rule / the five builders on TLC strings, the predicate Contained, and an
enumeration of names as token sequences), spec/Trace_Paths.tla (Contained evaluated on the REAL output of every
builder, documented layout compared as drift).  Binding: TLC enumerates every name of <= MaxTok tokens over
{a . / \\ : .. .pdb .DLL C b.c}; the harness feeds each (plus seeded hostile names: UNC, drive, mixed separators,
non-ASCII, NUL-free percent-escapes) to the real builders; TLC then decides every observation."""
import json
import re
from . import core


def run(ctx):
    ctx.build()
    mc = ctx.tlc("Paths", "MC_Paths_" + ctx.tier, coverage="separate", required_actions=["Add"], timeout=3000)
    if mc.violated:
        raise core.ToolFailure("design-level invariant %s of Paths.tla is violated in the model" % mc.violated)
    nrand = 400 if ctx.tier == "quick" else 5000
    tr = ctx.harness("record_paths", [mc.out_path, nrand], out_name="paths.ndjson")
    tv = ctx.trace_validate("Trace_Paths", "Trace_Paths", tr, timeout=3000)
    if tv["matched"] != tv["total"]:
        raise core.ToolFailure("Trace_Paths stopped at record %s of %s" % (tv["matched"], tv["total"]))
    verdicts, drifts = [], []
    with open(tv["out"], "r", errors="replace") as f:
        for line in f:
            m = re.match(r'<<"VERDICT", (\d+), "([\w-]+)", "([\w-]+)">>', line)
            if m:
                verdicts.append((int(m.group(1)), m.group(2), m.group(3)))
            m = re.match(r'<<"DRIFT", (\d+), "([\w-]+)">>', line)
            if m:
                drifts.append((int(m.group(1)), m.group(2)))
    with open(tr) as f:
        lines = f.readlines()
    for idx, b, cls in verdicts:
        rec = json.loads(lines[idx - 1])
        ctx.mismatch("paths:%s:%s" % (b, cls), {"name": rec["s"], "builder": b, "path": rec.get("outs", {}).get(b), "leaf_class": cls,
                                                 "panic": rec.get("panic_msg")})
    for idx, b in drifts:
        rec = json.loads(lines[idx - 1])
        ctx.drift.append({"what": "builder output differs from the documented layout but is contained", "name": rec["s"], "builder": b,
                          "path": rec["outs"].get(b)})
    samples = []
    for line in lines[5:4000:700]:
        r = json.loads(line)
        samples.append({"name": r["s"], "sym": r["outs"].get("sym"), "bin_server": r["outs"].get("bin_server")})
    cov = {
        "states": mc.distinct + tv["states"], "transitions": mc.generated + tv["transitions"],
        "traces_validated_against_impl": tv["total"],
        "samples": samples, "exhaustive": True,
        "evaluations": tv["total"] * 8, "distinct_nontrivial": len(set(lines)),
        "rule": "every module name of <= MaxTok tokens over the token alphabet (as debug file and code file) + seeded hostile names; 8 builder "
                "outputs per name (breakpad_sym cache/server, lookup(BreakpadSym), code-info, extra debuginfo, binary cache/server, mozilla CAB); "
                "non-trivial = distinct observation record",
        "tlc": {"Paths": mc.as_dict(), "Trace_Paths": {k: v for k, v in tv.items() if k != "out"}},
    }
    return ctx.finish("model_checking", cov, assumptions=[
        "Contained = non-empty, no leading separator, no drive prefix, no '..' component under either separator style (Paths.tla)",
        "identifiers come from DebugId/CodeId (hex), so only the name components can carry hostile text",
        "joining onto a root is not executed; Contained is the statement's syntactic condition"])


def replay(ctx, path):
    with open(path) as f:
        print(json.dumps(json.load(f), indent=1)[:6000])
    return 0
