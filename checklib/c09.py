"""C09 - parsing a symbol file is total and bounded.  Shares spec, recorder and trace validation with C10
(checklib/c10.py); decides the monitors WindowBounded, ReadsBounded (termination), LongLineDropped and
totality (no panic / no hang) on the same validated traces."""
from . import c10


def run(ctx):
    return c10.run_symstream(ctx, c10.C09_MON, "C09")


replay = c10.replay
