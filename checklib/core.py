"""Shared machinery of ./check: TLC runner, harness runner, verdicts, evidence.

Exit codes of ./check: 0 = property held on everything explored (known findings are
printed as KNOWN-FINDING lines), 1 = VIOLATION line printed + replay file written,
2 = tool failure / vacuous run (never a VIOLATION line).
"""
import hashlib
import json
import os
import re
import shutil
import subprocess
import sys
import time
from pathlib import Path

ROOT = Path(__file__).resolve().parent.parent
SPEC = ROOT / "spec"
HARNESS = ROOT / "harness"
WORK = ROOT / ".work"
EVID = ROOT / "evidence"
KNOWN = ROOT / "known-findings.json"
TLA_CP = "/opt/veriftools/tla/tla2tools.jar:/opt/veriftools/tla/CommunityModules-deps.jar"
NCPU = os.cpu_count() or 4


class ToolFailure(Exception):
    pass


class TlcResult:
    def __init__(self):
        self.generated = 0
        self.distinct = 0
        self.coverage = {}      # action name -> (distinct, total)
        self.out_path = None
        self.rc = None
        self.violated = None    # name of violated invariant / property, if any
        self.error_text = ""
        self.wall = 0.0
        self.depth = 0

    def as_dict(self):
        return {"generated": self.generated, "distinct": self.distinct, "depth": self.depth,
                "coverage": {k: list(v) for k, v in self.coverage.items()}, "wall_s": round(self.wall, 2)}


_cov_re = re.compile(r"^<(\w+) line \d+, col \d+ to line \d+, col \d+ of module (\w+)(?: \([\d ]+\))?>: (\d+):(\d+)")
_stat_re = re.compile(r"^(\d+) states generated, (\d+) distinct states found")
_depth_re = re.compile(r"The depth of the complete state graph search is (\d+)")
_inv_re = re.compile(r"Invariant (\w+) is violated")
_prop_re = re.compile(r"(Temporal properties were violated|Action property (\w+) is violated|Deadlock reached)")


class Ctx:
    def __init__(self, pid, tier, seed):
        self.pid = pid
        self.tier = tier
        self.seed = seed
        self.t0 = time.time()
        self.work = WORK / pid
        if self.work.exists():
            shutil.rmtree(self.work, ignore_errors=True)
        self.work.mkdir(parents=True, exist_ok=True)
        (WORK / "replay").mkdir(parents=True, exist_ok=True)
        self.violations = []     # (fp, detail)
        self.known_hit = {}      # fp -> count
        self.drift = []
        self.notes = []
        self.known = load_known(pid)
        self._built = False

    # ------------------------------------------------------------------ build
    def build(self):
        if self._built:
            return
        t = time.time()
        env = dict(os.environ)
        env["CARGO_NET_OFFLINE"] = "true"
        p = subprocess.run(["cargo", "build", "--offline", "--bins"], cwd=HARNESS, env=env,
                           stdout=subprocess.PIPE, stderr=subprocess.STDOUT, text=True)
        if p.returncode != 0:
            sys.stdout.write(p.stdout[-6000:])
            raise ToolFailure("cargo build of the harness failed (does /repo still compile?)")
        self._built = True
        self.notes.append("harness build %.1fs" % (time.time() - t))

    def bin(self, name):
        return str(HARNESS / "target" / "debug" / name)

    def harness(self, name, args=(), stdin_path=None, timeout=3600, env=None, out_name=None):
        """Run a harness binary; returns (rc, path of captured stdout)."""
        self.build()
        out = self.work / (out_name or (name + ".out"))
        e = dict(os.environ)
        e["VERIF_SEED"] = str(self.seed)
        e["VERIF_TIER"] = self.tier
        e["RUST_BACKTRACE"] = "0"
        if env:
            e.update(env)
        with open(out, "wb") as fo:
            fi = open(stdin_path, "rb") if stdin_path else subprocess.DEVNULL
            try:
                p = subprocess.run([self.bin(name)] + [str(a) for a in args], stdin=fi, stdout=fo,
                                   stderr=subprocess.PIPE, timeout=timeout, env=e, cwd=self.work)
            except subprocess.TimeoutExpired:
                raise ToolFailure("harness %s timed out after %ss" % (name, timeout))
            finally:
                if stdin_path:
                    fi.close()
        if p.returncode not in (0,):
            err = p.stderr.decode("utf8", "replace")[-3000:]
            raise ToolFailure("harness %s exited %s: %s" % (name, p.returncode, err))
        return out

    # -------------------------------------------------------------------- TLC
    def tlc(self, tla, cfg, workers=None, env=None, timeout=3600, simulate=None, depth=None,
            coverage=True, xss="512m", xmx="12g", deque=False, out_name=None, expect_violation=False,
            required_actions=None, allow_zero=()):
        """Run TLC on spec/<tla>.tla with spec/<cfg>.cfg. Output captured to a file."""
        res = TlcResult()
        meta = self.work / ("meta_" + (out_name or cfg))
        out = self.work / ((out_name or cfg) + ".tlc.out")
        res.out_path = out
        jopts = ["-XX:+UseParallelGC", "-Xss" + xss, "-Xmx" + xmx]
        if deque:
            jopts.append("-Dtlc2.tool.queue.IStateQueue=StateDeque")
        w = workers or min(NCPU, 16)
        cmd = ["java"] + jopts + ["-cp", TLA_CP, "tlc2.TLC", "-workers", str(w),
                                  "-metadir", str(meta), "-cleanup", "-noGenerateSpecTE"]
        if coverage is True and not simulate:
            cmd += ["-coverage", "1"]
        if simulate:
            cmd += ["-simulate", "num=%d" % simulate, "-seed", str(self.seed)]
            if depth:
                cmd += ["-depth", str(depth)]
        cmd += ["-config", cfg + ".cfg", tla + ".tla"]
        e = dict(os.environ)
        e.pop("JAVA_TOOL_OPTIONS", None)
        if env:
            e.update({k: str(v) for k, v in env.items()})
        t = time.time()
        with open(out, "wb") as fo:
            try:
                p = subprocess.run(cmd, cwd=SPEC, stdout=fo, stderr=subprocess.STDOUT, timeout=timeout, env=e)
            except subprocess.TimeoutExpired:
                raise ToolFailure("TLC timed out after %ss on %s/%s" % (timeout, tla, cfg))
        res.wall = time.time() - t
        res.rc = p.returncode
        shutil.rmtree(meta, ignore_errors=True)
        errs = []
        with open(out, "r", errors="replace") as f:
            for line in f:
                if line.startswith("<<"):
                    continue
                m = _cov_re.match(line)
                if m:
                    name = m.group(1)
                    d, tot = int(m.group(3)), int(m.group(4))
                    od, ot = res.coverage.get(name, (0, 0))
                    res.coverage[name] = (max(od, d), max(ot, tot))
                    continue
                m = _stat_re.match(line)
                if m:
                    res.generated, res.distinct = int(m.group(1)), int(m.group(2))
                    continue
                m = _depth_re.search(line)
                if m:
                    res.depth = int(m.group(1))
                m = _inv_re.search(line)
                if m:
                    res.violated = m.group(1)
                m = _prop_re.search(line)
                if m and not res.violated:
                    res.violated = m.group(2) or m.group(1)
                if "Postcondition" in line and "is false" in line and not res.violated:
                    res.violated = "POSTCONDITION"
                if line.startswith("Error:") or "Exception" in line:
                    errs.append(line.strip())
        res.error_text = "\n".join(errs[:10])
        if res.violated and not expect_violation:
            return res
        if p.returncode != 0 and not res.violated:
            tail = subprocess.run(["tail", "-n", "30", str(out)], stdout=subprocess.PIPE, text=True).stdout
            raise ToolFailure("TLC failed (rc=%s) on %s/%s:\n%s" % (p.returncode, tla, cfg, tail))
        if coverage == "separate" and not simulate and not res.violated:
            # -coverage makes invariants with deep recursion very slow (measured 4 s -> 4 min), so the
            # per-action counts come from a second pass over the same transition relation without
            # the invariants.
            stripped = self.work / ((out_name or cfg) + "_cov.cfg")
            keep = []
            skipping = False
            for line in open(SPEC / (cfg + ".cfg")):
                w0 = line.split()[0] if line.split() else ""
                if w0 in ("INVARIANT", "INVARIANTS", "PROPERTY", "PROPERTIES", "POSTCONDITION"):
                    skipping = True
                    continue
                if skipping and w0 in ("SPECIFICATION", "CONSTANT", "CONSTANTS", "CONSTRAINT", "CONSTRAINTS",
                                       "CHECK_DEADLOCK", "VIEW", "INIT", "NEXT", "SYMMETRY", "ACTION_CONSTRAINT"):
                    skipping = False
                if not skipping:
                    keep.append(line)
            stripped.write_text("".join(keep))
            cov = self.tlc(tla, str(stripped)[:-4], workers=workers, env=env, timeout=timeout, coverage=True,
                           xss=xss, xmx=xmx, out_name=(out_name or cfg) + "_cov")
            res.coverage = cov.coverage
            if cov.distinct != res.distinct:
                raise ToolFailure("coverage pass explored %d states, main pass %d" % (cov.distinct, res.distinct))
        if coverage and not simulate and required_actions:
            for a in required_actions:
                if a in allow_zero:
                    continue
                if res.coverage.get(a, (0, 0))[1] == 0:
                    raise ToolFailure("vacuous run: action %s of %s/%s was never taken" % (a, tla, cfg))
        return res

    def trace_validate(self, tla, cfg, trace_path, timeout=1800, xmx="4g", env=None, out_name=None):
        """impl -> spec: validate an ndjson trace recorded from the real code against a trace spec.
        Returns dict(matched, total, violated, states, out). The trace spec prints
        <<"TRACE", "matched", n, "of", m>> from its POSTCONDITION."""
        e = {"VERIF_TRACE": str(trace_path)}
        if env:
            e.update(env)
        res = self.tlc(tla, cfg, workers=1, env=e, timeout=timeout, coverage=False, xss="1g", xmx=xmx, deque=True,
                       out_name=out_name or cfg, expect_violation=True)
        matched = total = None
        with open(res.out_path, "r", errors="replace") as f:
            for line in f:
                m = re.match(r'<<"TRACE", "matched", (\d+), "of", (\d+)>>', line)
                if m:
                    matched, total = int(m.group(1)), int(m.group(2))
        if matched is None and not res.violated:
            tail = subprocess.run(["tail", "-n", "25", str(res.out_path)], stdout=subprocess.PIPE, text=True).stdout
            raise ToolFailure("trace validation of %s produced no verdict:\n%s" % (trace_path, tail))
        return {"matched": matched, "total": total, "violated": res.violated, "states": res.distinct,
                "transitions": res.generated, "out": res.out_path, "wall_s": round(res.wall, 2)}

    # ---------------------------------------------------------------- verdict
    def mismatch(self, fp, detail):
        """Record a property violation observed on the real code. fp is the fingerprint
        matched (exactly) against known-findings.json entries of this property."""
        for k in self.known:
            if k.get("status") == "open" and k["fingerprint"] == fp:
                self.known_hit[fp] = self.known_hit.get(fp, 0) + 1
                return
        self.violations.append((fp, detail))

    def read_harness_report(self, path, drift_tag="DRIFT"):
        """Parse MISMATCH / DRIFT / SUMMARY lines printed by a harness binary."""
        summary = None
        with open(path, "r", errors="replace") as f:
            for line in f:
                if line.startswith("MISMATCH "):
                    o = json.loads(line[9:])
                    self.mismatch(o.get("fp", "unclassified"), o)
                elif line.startswith(drift_tag + " "):
                    if len(self.drift) < 20:
                        self.drift.append(json.loads(line[len(drift_tag) + 1:]))
                    else:
                        self.drift.append(None)
                elif line.startswith("SUMMARY "):
                    summary = json.loads(line[8:])
        if summary is None:
            raise ToolFailure("harness output %s has no SUMMARY line" % path)
        return summary

    def finish(self, level, coverage, assumptions=(), extra=None):
        wall = time.time() - self.t0
        if self.drift and level == "model_checking":
            level = "exploration"
            coverage.setdefault("evaluations", coverage.get("states", 1))
            coverage.setdefault("distinct_nontrivial", max(2, coverage.get("distinct_cases", 2)))
            coverage.setdefault("rule", "model/code drift detected; see drift")
        cov = dict(coverage)
        cov["drift"] = bool(self.drift)
        if self.drift:
            cov["drift_first"] = [d for d in self.drift if d][:3]
            cov["drift_count"] = len(self.drift)
        cov["known_findings_hit"] = self.known_hit
        cov["notes"] = self.notes
        ev = {"property_id": self.pid, "tier": self.tier, "seed": self.seed, "level": level,
              "coverage": cov, "assumptions": list(assumptions), "wall_s": round(wall, 2),
              "violations": len(self.violations)}
        if extra:
            ev.update(extra)
        EVID.mkdir(exist_ok=True)
        with open(EVID / (self.pid + ".json"), "w") as f:
            json.dump(ev, f, indent=1, sort_keys=True)
            f.write("\n")
        for fp, n in sorted(self.known_hit.items()):
            desc = next((k["what"] for k in self.known if k["fingerprint"] == fp), fp)
            print("KNOWN-FINDING: property=%s %s [%s] (%d cases)" % (self.pid, desc, fp, n))
        if self.drift:
            print("DRIFT property=%s model and code disagree outside the property (%d cases); level downgraded"
                  % (self.pid, len(self.drift)))
        if self.violations:
            groups = {}
            for fp, d in self.violations:
                groups.setdefault(fp, []).append(d)
            for fp, ds in sorted(groups.items()):
                h = hashlib.sha1((self.pid + fp + json.dumps(ds[0], sort_keys=True)).encode()).hexdigest()[:12]
                rp = WORK / "replay" / ("%s-%s.json" % (self.pid, h))
                with open(rp, "w") as f:
                    json.dump({"property": self.pid, "fingerprint": fp, "count": len(ds), "cases": ds[:20],
                               "tier": self.tier, "seed": self.seed}, f, indent=1)
                print("VIOLATION property=%s replay=%s" % (self.pid, rp))
            print("%s: %d violation(s) in %d class(es), %.1fs" % (self.pid, len(self.violations), len(groups), wall))
            return 1
        print("%s: OK tier=%s seed=%d %.1fs" % (self.pid, self.tier, self.seed, wall))
        return 0


def load_known(pid):
    if not KNOWN.exists():
        return []
    with open(KNOWN) as f:
        data = json.load(f)
    return [k for k in data.get("findings", []) if k.get("property") == pid]


def tlc_cases(path, tag="CASE"):
    """Yield JSON objects from TLC PrintT lines of the form <<"TAG", "{...}">>."""
    pre = '<<"%s", "' % tag
    with open(path, "r", errors="replace") as f:
        for line in f:
            if line.startswith(pre):
                s = line[len(pre):].rstrip()
                if s.endswith('">>'):
                    s = s[:-3]
                s = s.replace('\\"', '"').replace('\\\\', '\\')
                yield json.loads(s)


def count_lines(path, prefix):
    n = 0
    with open(path, "rb") as f:
        p = prefix.encode()
        for line in f:
            if line.startswith(p):
                n += 1
    return n
