"""C19 - reported bit-flip candidates are genuine single-bit neighbours in mapped memory.

Spec: spec/BitFlip.tla (addresses as (set of high bits, low integer) so that all 64 flip positions fit TLC's
integers; three scenarios: crash address without context, general-protection fault with the non-canonical
address recovered from the crashing instruction, null pointer plus offset).  Binding: G - one minidump per case
(frozen writer: exception record, memory-info regions with protections incl. one ending at 2^64-1, exception
context + instruction bytes for the instruction-based scenarios) processed by the real process_minidump;
possible_bit_flips compared as a set with the specification's, confidences checked to lie in [0,1]."""
import json
from . import core


def run(ctx):
    ctx.build()
    mc = ctx.tlc("BitFlip", "MC_BitFlip_" + ctx.tier, coverage="separate", required_actions=["PickAddr", "PickGpf", "PickNull"], timeout=3000)
    if mc.violated:
        raise core.ToolFailure("C19 predicate %s is violated on the specification itself" % mc.violated)
    rep = ctx.read_harness_report(ctx.harness("replay_bitflip", [mc.out_path], out_name="replay_bitflip.out", timeout=3000))
    for need in ("scenario:addr", "scenario:gpf", "scenario:null", "has-flips"):
        if rep["classes"].get(need, 0) == 0:
            raise core.ToolFailure("vacuous replay: class %s never exercised" % need)
    cov = {
        "states": mc.distinct, "transitions": mc.generated,
        "traces_validated_against_impl": rep["evaluations"],
        "samples": rep["samples"][:6], "exhaustive": True,
        "evaluations": rep["evaluations"], "distinct_nontrivial": rep["distinct_nontrivial"],
        "rule": "scenario 'addr': 4 CPUs x 4 access kinds x 12 examined addresses (null-adjacent, one bit from a region, canonical / non-canonical boundary bits 47, "
                "48, 63, one bit from the region ending at 2^64-1) x 9 memory maps; 'gpf': every non-canonical examined value x maps; 'null': maps; "
                "non-trivial = case with at least one expected candidate",
        "tlc": {"BitFlip": mc.as_dict()}, "replay_classes": rep["classes"],
    }
    return ctx.finish("model_checking", cov, assumptions=[
        "memory maps are given as memory-info lists (Linux maps are covered by C08's table semantics)",
        "the float confidence formula is not modelled: only 0 <= confidence <= 1 is checked, with the nearby-register heuristic saturated in the instruction scenarios",
        "instruction decoding is exercised for 'mov rax,[rbx]' only"])


def replay(ctx, path):
    with open(path) as f:
        print(json.dumps(json.load(f), indent=1)[:6000])
    return 0
