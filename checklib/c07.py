"""C07 - STACK WIN records evaluate exactly as documented (program strings and FPO).

Spec: spec/WinEval.tla (frame-data token machine on u32 limbs, both search-start variants),
spec/WinFpo.tla (FPO algorithm as a step machine over a size grid incl. sums past 2^32), spec/WinKinds.tla (which line
yields a record - type x has_program_string - and which record answers: frame data, FPO, STACK CFI fall-back).
Binding: G - every TLC state is rendered as a STACK WIN line, parsed by the real parser and
unwound by the real SymbolFile::walk_frame against a mock FrameWalker that keeps the validity set
the way CfiStackWalker does (harness replay_win).  The x86 walk_stack path (real CfiStackWalker)
is exercised by the walker checks (C04/C05)."""
import json
from . import core
from .c06 import words_selftest

EVAL_ACTIONS = ["StepOp", "StepAssign", "StepDeref", "StepUndef", "StepLit", "StepVar"]
FPO_ACTIONS = ["Locate", "SkipLeftover", "NoSkip", "RestoreEbp", "PassThrough"]


def run(ctx):
    tier = ctx.tier
    ctx.build()
    nvec = words_selftest(ctx, widths=(32,))
    runs = []
    cfgs = ["MC_WinEval_quick", "MC_WinEval_quick4", "MC_WinEval_quickp", "MC_WinEval_quicka"] if tier == "quick" else ["MC_WinEval_thorough"]
    reps = []
    for cfg in cfgs:
        # the arithmetic configuration (operators and literals only, programs of up to five tokens) has no dereference or variable tokens
        need = [a for a in EVAL_ACTIONS if a not in ("StepDeref", "StepUndef", "StepVar")] if cfg == "MC_WinEval_quicka" else EVAL_ACTIONS
        r = ctx.tlc("MC_WinEval", cfg, coverage="separate", required_actions=need, timeout=6000)
        if r.violated:
            raise core.ToolFailure("design-level invariant %s of WinEval.tla is violated in the model" % r.violated)
        runs.append((cfg, r))
        reps.append(ctx.read_harness_report(ctx.harness("replay_win", ["eval", r.out_path], out_name="replay_%s.out" % cfg)))
    f = ctx.tlc("WinFpo", "MC_WinFpo_" + tier, coverage="separate", required_actions=FPO_ACTIONS, timeout=3000)
    if f.violated:
        raise core.ToolFailure("design-level invariant %s of WinFpo.tla is violated in the model" % f.violated)
    repf = ctx.read_harness_report(ctx.harness("replay_win", ["fpo", f.out_path], out_name="replay_fpo.out"))
    # ---- which record answers: type x has_program_string x evaluates-or-fails, with or without STACK CFI (WinKinds.tla)
    wk = ctx.tlc("WinKinds", "MC_WinKinds_" + tier, coverage="separate", required_actions=["AddLine", "AddCfi"], timeout=3000)
    if wk.violated:
        raise core.ToolFailure("design-level invariant %s of WinKinds.tla is violated in the model" % wk.violated)
    repk = ctx.read_harness_report(ctx.harness("replay_winkinds", [wk.out_path], out_name="replay_winkinds.out"))
    for need in ("answer:framedata", "answer:fpo", "answer:cfi", "answer:none"):
        if repk["classes"].get(need, 0) == 0:
            raise core.ToolFailure("vacuous replay: WinKinds class %s never exercised" % need)
    # ---- STACK WIN through the real x86 walker and a real 32-bit context: on every stack of WalkerX86.tla (mode any) the rule shapes that
    #      unwind by frame data / FPO must agree exactly with the model (return address, esp, ebp / ebx, validity, the parameter size taken
    #      from the frame-data record when both kinds cover the function); a disagreement there is a violation of C07, not drift
    wx = ctx.tlc("WalkerX86", "MC_WalkerX86_any", coverage=False, timeout=3000, out_name="walkerx86_any")
    if wx.violated:
        raise core.ToolFailure("invariant %s of WalkerX86.tla is violated in the model" % wx.violated)
    drift_before = list(ctx.drift)
    repx = ctx.read_harness_report(ctx.harness("replay_walk", ["x86", wx.out_path, ctx.work / "x86_any.trace.ndjson"], out_name="replay_x86_strict.out",
                                               timeout=3000, env={"VERIF_STRICT_RULES": "win_std,win_ra,fpo,fpo_bp,std_fpo,std_cfi"}))
    ctx.drift = drift_before
    for need in ("rule:win_std", "rule:fpo", "rule:std_fpo"):
        if repx["classes"].get(need, 0) == 0:
            raise core.ToolFailure("vacuous replay: no walk under rule shape %s" % need)
    # ---- parser layer: overlapping / duplicate STACK WIN records (RangeMap.tla, WinTable): for C07 the table the
    #      parser builds must be exactly the documented one (first of identical records wins, a record starting
    #      inside the previous one truncates it), so any difference from the model is a violation here
    rm = ctx.tlc("RangeMap", "MC_RangeMap_quick", coverage=False, timeout=3000, out_name="rm_for_win")
    pend = ctx.work / "win_pending.ndjson"
    repw = ctx.read_harness_report(ctx.harness("replay_rangemap", [rm.out_path, 9, pend, "win_fd,win_fpo"], out_name="replay_winrec.out"))
    with open(pend) as fh:
        for line in fh:
            r = json.loads(line)
            r.pop("probes", None)
            ctx.mismatch("win-record-table:" + r["bind"], r)
    classes = {}
    for rp in reps:
        for k, v in rp["classes"].items():
            classes[k] = classes.get(k, 0) + v
    for need in ("eval_ok", "eval_fails", "inst:normal", "inst:noebx", "inst:grand", "inst:espwrap", "inst:bigloc", "inst:ebpwrap", "inst:lowesp"):
        if classes.get(need, 0) == 0:
            raise core.ToolFailure("vacuous replay: class %s never exercised" % need)
    for need in ("fpo_ok_bp", "fpo_ok_passthrough", "fpo_ok_leftover_skip", "fpo_fails"):
        if repf["classes"].get(need, 0) == 0:
            raise core.ToolFailure("vacuous replay: class %s never exercised" % need)
    evals = sum(r["evaluations"] for r in reps) + repf["evaluations"] + repw["evaluations"] + repk["evaluations"] + repx["evaluations"]
    cov = {
        "states": sum(r.distinct for _, r in runs) + f.distinct + wk.distinct,
        "transitions": sum(r.generated for _, r in runs) + f.generated,
        "traces_validated_against_impl": evals,
        "samples": (reps[0]["samples"][:3] + repf["samples"][:3]) or [{"note": "all successful cases hit the known finding; see known-findings.json"}],
        "exhaustive": True,
        "evaluations": evals,
        "distinct_nontrivial": sum(r["distinct_nontrivial"] for r in reps) + repf["distinct_nontrivial"],
        "rule": "every frame-data program over the configured WIN token alphabet up to MaxLen x 7 callee/size instances (non-trivial = "
                "distinct (instance, program) with a defined result); every FPO configuration of the size grid x alloc-base-pointer x "
                "ebp/ebx known x leftover-return-address (non-trivial = configuration that unwinds successfully)",
        "tlc": dict([(c, r.as_dict()) for c, r in runs] + [("WinFpo", f.as_dict()), ("WinKinds", wk.as_dict())]),
        "replay_classes": {"eval": classes, "fpo": repf["classes"], "win_record_tables": repw["classes"], "win_kinds": repk["classes"]},
        "words_selftest_vectors": nvec,
    }
    return ctx.finish("model_checking", cov, assumptions=[
        "documented semantics = walker.rs module docs as transcribed in WinEval.tla / WinFpo.tla; sums past 2^32 'fail cleanly' = no result",
        "the mock FrameWalker in replay_win.rs follows CfiStackWalker's contract (forwarded callee-saved registers valid by default, clear by exact name, u32 range check)",
        "Words.tla (self-tested on %d u32 vectors this run)" % nvec])


def replay(ctx, path):
    with open(path) as f:
        print(json.dumps(json.load(f), indent=1)[:4000])
    return 0
