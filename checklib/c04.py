"""C04 - stack walking recovers the true call chain of well-formed stacks.

Specs: spec/WalkerAmd64.tla, spec/WalkerX86.tla, spec/WalkerArm.tla (arm on iOS and Linux, arm64 in both context
layouts), spec/WalkerMips.tla (o32 and 64-bit) in Mode "built": Build(chain) lays out a well-formed stack for every chain of up to MaxDepth calls (per call:
frame-pointer record / unwind record of each kind / scan-only, filler and grand-callee parameter sizes), TLC checks
on the model that the walk is exactly the generated chain, stops at its end, and knows the frame pointer wherever the
chain hands it on (MatchesBuild); every built stack is then walked by the real walk_stack and compared frame for
frame: return address, sp, technique label, callee-saved register validity and values, parameter size."""
import json
from . import core
from .c05 import run_model_arch, MODELS, NO_FP_TECHNIQUE


def run(ctx):
    tier = ctx.tier
    ctx.build()
    total = {"states": 0, "transitions": 0, "evaluations": 0, "distinct": 0, "classes": {}, "samples": [], "tlc": {}}
    last64 = None
    for arch in ("amd64", "amd64-windows", "x86", "arm-ios", "arm-linux", "arm64", "arm64old", "mips32", "mips64"):
        mc, rep, trace = run_model_arch(ctx, arch, None, True, reuse=last64 if arch == "arm64old" else None)
        if arch == "arm64":
            last64 = mc
        need = ["frame:cfi", "frame:scan", "built"] + ([] if arch in NO_FP_TECHNIQUE else ["frame:frame_pointer"])
        for n in need:
            if rep["classes"].get(n, 0) == 0:
                raise core.ToolFailure("vacuous replay (%s): class %s never produced" % (arch, n))
        if arch != "arm64old":
            total["states"] += mc.distinct
            total["transitions"] += mc.generated
        total["evaluations"] += rep["evaluations"]
        total["distinct"] += rep["distinct_nontrivial"]
        total["samples"] += rep["samples"][:1]
        total["classes"][arch] = rep["classes"]
        total["tlc"][arch] = mc.as_dict()
    cov = {
        "states": total["states"], "transitions": total["transitions"],
        "traces_validated_against_impl": total["evaluations"],
        "samples": total["samples"][:5], "exhaustive": True,
        "evaluations": total["evaluations"], "distinct_nontrivial": total["distinct"],
        "rule": "every buildable chain of 1..MaxDepth calls laid out on an NW-word stack, per architecture: amd64 {frame pointer, STACK CFI, scan} x filler, on Linux and on Windows (frame register pointing 16 bytes below the record); "
                "x86 {ebp frame with 8 bytes of parameters, F1 with one of STACK WIN frame data / FPO / FPO with base pointer / STACK CFI, scan} so that grand-callee "
                "parameter sizes 0 / 8 / 12 meet every record kind; arm (iOS: with frame records; Linux: without) and arm64 / arm64-old {frame record, CFI saving fp, "
                "CFI defining only .cfa/.ra, scan}; mips o32 and 64-bit {CFI saving fp, CFI defining only .cfa/.ra, scan with a code pointer in the argument home slots}; non-trivial = distinct built stack with at least one caller",
        "tlc": total["tlc"], "replay_classes": total["classes"],
    }
    return ctx.finish("model_checking", cov, assumptions=[
        "well-formedness preconditions are those of Buildable in each Walker module (a scanned frame is not followed by one that needs its frame pointer; a frame that keeps "
        "no frame pointer holds a value addressing no stack memory; a STACK CFI rule's callee leaves no parameters behind)",
        "for STACK WIN frames only %ebp is compared among the callee-saved registers (the stale validity of ebx/esi/edi is the finding recorded under C07)",
        "PAC-tagged return addresses are exercised in the 'any' mode (C05), not in built stacks"])


def replay(ctx, path):
    with open(path) as f:
        print(json.dumps(json.load(f), indent=1)[:6000])
    return 0
