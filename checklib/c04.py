"""C04 - stack walking recovers the true call chain of well-formed stacks.

Spec: spec/WalkerAmd64.tla in Mode "built": Build(chain) lays out a stack for every chain of up to MaxDepth calls
(per call: frame-pointer prologue / STACK CFI / scan-only, filler size), TLC checks on the model that the walk is
exactly the generated chain and stops at its end (MatchesBuild), and every built stack is walked by the real
walk_stack and compared frame for frame (return address, sp, frame pointer value and validity, technique)."""
import json
from . import core
from .c05 import run_model_arch


def run(ctx):
    tier = ctx.tier
    ctx.build()
    mc, rep, trace = run_model_arch(ctx, "amd64", "MC_WalkerAmd64_built" if tier == "quick" else "MC_WalkerAmd64_built_thorough", True)
    for need in ("frame:cfi", "frame:frame_pointer", "frame:scan", "built"):
        if rep["classes"].get(need, 0) == 0:
            raise core.ToolFailure("vacuous replay: class %s never produced" % need)
    cov = {
        "states": mc.distinct, "transitions": mc.generated,
        "traces_validated_against_impl": rep["evaluations"],
        "samples": rep["samples"][:5], "exhaustive": True,
        "evaluations": rep["evaluations"], "distinct_nontrivial": rep["distinct_nontrivial"],
        "rule": "every buildable chain of 1..MaxDepth calls over {frame pointer, STACK CFI, scan} x filler {0,1} words laid out on an NW-word stack "
                "(x86-64, Linux); non-trivial = distinct built stack with at least one caller",
        "tlc": {"WalkerAmd64(built)": mc.as_dict()}, "replay_classes": rep["classes"],
    }
    return ctx.finish("model_checking", cov, assumptions=[
        "well-formedness preconditions are those of Build in WalkerAmd64.tla (a scanned frame is not followed by one that needs its frame pointer)",
        "only x86-64 (non-Windows) has a builder so far; x86 / ARM / ARM64 / MIPS chains are not claimed by this run"])


def replay(ctx, path):
    with open(path) as f:
        print(json.dumps(json.load(f), indent=1)[:6000])
    return 0
