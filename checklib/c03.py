"""C03 - processing any dump with any symbols terminates, never panics, always renders.

The specification contributes the structure of the inputs (dumps of Processor.tla cases, walker / CFI / STACK WIN
rule shapes incl. rules that never read the stack, SymStream-style corrupt symbol text) and the monitor
(Trace_Process.tla: ok-or-error, no panic, per-thread frame bound stack bytes + 2, renders as text / brief / JSON,
time budget); the corpus is processed under stable_basic, stable_all and unstable_all by the real
process_minidump_with_options with panic capture and a bounded symbol provider."""
import json
from . import core
from . import pipeline


def run(ctx):
    ctx.build()
    mc = pipeline.processor_cases(ctx)
    n = 240 if ctx.tier == "quick" else 4000
    tr = ctx.harness("record_process", ["total", n, mc.out_path], out_name="total.ndjson", timeout=3000)
    tv, vs = pipeline.verdicts(ctx, "Trace_Process", tr, "total")
    lines = pipeline.lines_of(tr)
    for idx, mon in vs:
        rec = json.loads(lines[idx - 1])
        fp = "process:" + mon
        if mon == "NoPanic":
            msg = rec.get("panic_msg", "")
            fp += ":" + ("unbounded-walk" if "VERIF unbounded walk" in msg else msg)
        if mon == "FrameBound":
            fp += ":" + rec.get("bound_detail", "")
        ctx.mismatch(fp, {"monitor": mon, "run": rec})
    outcomes = {}
    for line in lines:
        r = json.loads(line)
        k = "%s/opt%d%s" % (r["outcome"], r["opt"], "/corrupt" if r["corrupted"] else "")
        outcomes[k] = outcomes.get(k, 0) + 1
    if sum(v for k, v in outcomes.items() if k.startswith("ok")) < 50:
        raise core.ToolFailure("vacuous: fewer than 50 successful processings")
    cov = {
        "evaluations": len(lines), "distinct_nontrivial": len(set(lines)),
        "rule": "seeded corpus items (generated and byte-corrupted dumps for x86 / amd64 / arm64 / arm / ppc64 / unknown CPUs x 8 OS ids, symbol text with "
                "CFI / STACK WIN / hostile names, /proc streams incl. malformed rows) + sampled Processor.tla dumps, each x {stable_basic, stable_all, "
                "unstable_all}; non-trivial = distinct run record",
        "samples": [json.loads(l) for l in lines[:3]],
        "states": tv["states"], "transitions": tv["transitions"], "traces_validated_against_impl": len(lines), "outcomes": outcomes,
        "explanation": "model-structured exploration: the monitor is TLA+ (Trace_Process.tla), the inputs are sampled",
    }
    return ctx.finish("exploration", cov, assumptions=[
        "arbitrary bytes are sampled (seeded generation + corruption), not enumerated",
        "an unbounded walk is cut by a bounded symbol provider and reported, not waited for",
        "instruction decoding (op_analysis) is only exercised by the bytes the corpus happens to place at the crash ip"])


def replay(ctx, path):
    with open(path) as f:
        print(json.dumps(json.load(f), indent=1)[:6000])
    return 0
