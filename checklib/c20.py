"""C20 - the command-line tool exits cleanly and prints exactly what the library computes.

Spec: spec/Cli.tla (mode flags as a clap group, --brief / --pretty validity, sink selection incl. --cyborg and
--output-file, input classes, exit status; design invariants: a failing run is silent, a successful one has exactly
one primary report).  Binding: G - every option combination x input class is run on the minidump-stackwalk binary
built from /repo's working tree; each expected report token is produced in-process by the library with the same
options, symbol paths and bytes, and the sinks are compared byte for byte."""
import json
import os
import subprocess
from . import core


def build_cli(ctx):
    env = dict(os.environ)
    env["CARGO_NET_OFFLINE"] = "true"
    p = subprocess.run(["cargo", "build", "--offline", "-p", "minidump-stackwalk"], cwd="/repo", env=env, stdout=subprocess.PIPE, stderr=subprocess.STDOUT, text=True)
    if p.returncode != 0:
        print(p.stdout[-3000:])
        raise core.ToolFailure("cargo build of minidump-stackwalk failed")
    return "/repo/target/debug/minidump-stackwalk"


def run(ctx):
    ctx.build()
    binary = build_cli(ctx)
    mc = ctx.tlc("Cli", "MC_Cli_" + ctx.tier, coverage="separate",
                 required_actions=["AddMode", "SetBrief", "SetPretty", "SetOutfile", "SetFeatures", "SetInput", "SetSymbols", "SetRfa", "SetSink", "SetLog", "Run"], timeout=3000)
    if mc.violated:
        raise core.ToolFailure("design-level invariant %s of Cli.tla is violated in the model" % mc.violated)
    rep = ctx.read_harness_report(ctx.harness("replay_cli", [mc.out_path, binary, ctx.work / "cli"], out_name="replay_cli.out", timeout=3000))
    for need in ("exit:zero", "exit:one", "exit:usage", "input:valid", "input:missing", "input:directory", "input:empty", "input:notadump", "input:unprocessable",
                 "symbols:http_cache", "symbols:http_default", "symbols:both", "sink:cyborg_bad", "sink:outfile_bad", "sink:outfile_full", "logf:ok:log", "logf:bad:stderr"):
        if rep["classes"].get(need, 0) == 0:
            raise core.ToolFailure("vacuous replay: class %s never exercised" % need)
    cov = {
        "states": mc.distinct, "transitions": mc.generated,
        "traces_validated_against_impl": rep["evaluations"],
        "samples": rep["samples"][:5], "exhaustive": True,
        "evaluations": rep["evaluations"], "distinct_nontrivial": rep["distinct_nontrivial"],
        "rule": "every set of <= 2 mode flags x --brief x --pretty x --output-file x input class {valid (repository samples and generated dumps, rotating), "
                "readable but unprocessable, not a dump, empty, missing, directory}, plus --features values and positional / --symbols-path / both symbol "
                "arguments for the single-mode cases, --recover-function-args, --symbols-url with explicit and default cache directories, sinks that cannot be created (--cyborg, --output-file), --log-file creatable or not; non-trivial = distinct invocation",
        "tlc": {"Cli": mc.as_dict()}, "replay_classes": rep["classes"],
    }
    return ctx.finish("model_checking", cov, assumptions=[
        "the option machine is exhaustive; input files are sampled (corpus dumps, repository samples)",
        "the --dump token is the library's per-stream prints in the CLI's documented order (frozen transcription in replay_cli.rs)",
        "runs are non-interactive (no TTY); --symbols-url is exercised against an unreachable server with the file already cached (explicit and default cache / tmp directories); local debuginfo is not exercised"])


def replay(ctx, path):
    with open(path) as f:
        print(json.dumps(json.load(f), indent=1)[:6000])
    return 0
