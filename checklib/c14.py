"""C14 - the process state is a faithful index of the dump.

Spec: spec/Processor.tla (thread -> call stack mapping, dump-writer skip, requesting thread as a set, context
preference, crash address / reason class rules, process id source, per-frame unloaded-module offsets).
Binding: G - every dump description TLC reaches is serialised by the frozen vendored writer (vf-synth), processed
by the real process_minidump and compared field by field; equality is the property."""
import json
from . import core

ACTIONS = ["AddThread", "SetException", "SetBreakpad", "SetPlatform", "SetMisc", "SetStatus"]


def run(ctx):
    ctx.build()
    mc = ctx.tlc("Processor", "MC_Processor_" + ctx.tier, coverage="separate", required_actions=ACTIONS, timeout=6000, xmx="16g")
    if mc.violated:
        raise core.ToolFailure("design-level invariant %s of Processor.tla is violated in the model" % mc.violated)
    rep = ctx.read_harness_report(ctx.harness("replay_processor", [mc.out_path], out_name="replay_processor.out", timeout=6000))
    for need in ("threads:0", "threads:1", "threads:2", "with-exception", "has-requesting-thread"):
        if rep["classes"].get(need, 0) == 0:
            raise core.ToolFailure("vacuous replay: class %s never exercised" % need)
    cov = {
        "states": mc.distinct, "transitions": mc.generated,
        "traces_validated_against_impl": rep["evaluations"],
        "samples": rep["samples"][:4], "exhaustive": True,
        "evaluations": rep["evaluations"], "distinct_nontrivial": rep["distinct_nontrivial"],
        "rule": "dump descriptions reachable by adding <= MaxThreads threads (ids {1,2} with duplicates, readable / unreadable context, named or not, ip in a "
                "loaded module / one / two unloaded modules / nowhere), an exception record (thread id present / absent / dump-writer; context absent / "
                "unreadable / readable; code x parameter count x sign-extended addresses x access kind), Breakpad info (dump / requesting ids incl. invalid), "
                "5 OS x CPU platforms, misc info with / without pid, /proc status; independent dimensions are varied separately (see Processor.tla)",
        "tlc": {"Processor": mc.as_dict()}, "replay_classes": rep["classes"],
    }
    return ctx.finish("model_checking", cov, assumptions=[
        "the documented rules are those transcribed in Processor.tla; crash reasons are judged for the Windows access-violation classes only",
        "dumps are written by the frozen vendored writer harness/vendor/vf-synth (exception context located by a two-pass layout)",
        "0..32 threads of the statement are covered up to MaxThreads only"])


def replay(ctx, path):
    with open(path) as f:
        print(json.dumps(json.load(f), indent=1)[:6000])
    return 0
