"""C14 - the process state is a faithful index of the dump.

Spec: spec/Processor.tla (thread -> call stack mapping, dump-writer skip, requesting thread as a set, context
preference, crash address / reason class rules, process id source, per-frame unloaded-module offsets).
Binding: G - every dump description TLC reaches is serialised by the frozen vendored writer (vf-synth), processed
by the real process_minidump and compared field by field; equality is the property.
spec/CrashReason.tla - the crash reason / crash address decision table (OS x CPU x exception code x flags x parameter count
x parameter classes): every finished record becomes an exception stream, and the reason string and the address the real
pipeline reports must be the ones the table prescribes.
spec/OsStrings.tla - the OS version / build strings (numeric version + CSD string, and the uname rule of Linux dumps whose numeric
version is 0.0.0): every finished system-info description becomes a dump and system_info.os_version / os_build must be `Expected`."""
import json
from . import core

ACTIONS = ["AddThread", "SetException", "SetBreakpad", "SetPlatform", "SetMisc", "SetStatus", "SetStamp"]


def run(ctx):
    ctx.build()
    mc = ctx.tlc("Processor", "MC_Processor_" + ctx.tier, coverage="separate", required_actions=ACTIONS, timeout=6000, xmx="16g")
    if mc.violated:
        raise core.ToolFailure("design-level invariant %s of Processor.tla is violated in the model" % mc.violated)
    rep = ctx.read_harness_report(ctx.harness("replay_processor", [mc.out_path], out_name="replay_processor.out", timeout=6000))
    for need in ("threads:0", "threads:1", "threads:2", "with-exception", "has-requesting-thread"):
        if rep["classes"].get(need, 0) == 0:
            raise core.ToolFailure("vacuous replay: class %s never exercised" % need)
    cr = ctx.tlc("CrashReason", "MC_CrashReason_" + ctx.tier, coverage="separate", required_actions=["SetOs", "SetCpu", "SetCode", "SetFlags", "SetParams", "SetAddr", "Finish"],
                 timeout=3000, out_name="crashreason")
    if cr.violated:
        raise core.ToolFailure("design-level invariant %s of CrashReason.tla is violated in the model" % cr.violated)
    osm = ctx.tlc("OsStrings", "MC_OsStrings_" + ctx.tier, coverage="separate",
                  required_actions=["SetPlatform", "SetNumeric", "StartUname", "AddVersion", "AddBuildWord", "AddArch", "AddSuffix", "FreeText", "Pad", "Finish"],
                  timeout=3000, out_name="osstrings")
    if osm.violated:
        raise core.ToolFailure("design-level invariant %s of OsStrings.tla is violated in the model" % osm.violated)
    rep2 = ctx.read_harness_report(ctx.harness("replay_crashreason", [cr.out_path, osm.out_path], out_name="replay_crashreason.out", timeout=3000))
    for need in ("os:windows", "os:linux", "os:android", "os:mac", "os:ios", "os:other", "shape:av_kind", "shape:inpage_kind", "shape:fastfail", "shape:sig_kind",
                 "shape:sig_sicode", "shape:sig_hex", "shape:mac_kind", "shape:mac_general", "shape:unknown", "shape:win_unknown", "os-strings",
                 "osmodel:uname:linux", "osmodel:stored:linux", "osmodel:stored:windows", "osmodel:stored:android", "osmodel:stored:mac",
                 "osmodel:phase0", "osmodel:phase1", "osmodel:phase2", "osmodel:phase4", "osmodel:phase5", "osmodel:phase6", "osmodel:nbuild0", "osmodel:nbuild2"):
        if rep2["classes"].get(need, 0) == 0:
            raise core.ToolFailure("vacuous replay: CrashReason class %s never exercised" % need)
    cov = {
        "states": mc.distinct + cr.distinct + osm.distinct, "transitions": mc.generated + cr.generated + osm.generated,
        "traces_validated_against_impl": rep["evaluations"] + rep2["evaluations"],
        "samples": rep["samples"][:4], "exhaustive": True,
        "evaluations": rep["evaluations"], "distinct_nontrivial": rep["distinct_nontrivial"],
        "rule": "dump descriptions reachable by adding <= MaxThreads threads (ids {1,2} with duplicates, readable / unreadable context, named or not, ip in a "
                "loaded module / one / two unloaded modules / nowhere), an exception record (thread id present / absent / dump-writer; context absent / "
                "unreadable / readable; code x parameter count x sign-extended addresses x access kind), Breakpad info (dump / requesting ids incl. invalid), "
                "5 OS x CPU platforms, misc info with / without pid, /proc status; independent dimensions are varied separately (see Processor.tla)",
        "tlc": {"Processor": mc.as_dict(), "CrashReason": cr.as_dict(), "OsStrings": osm.as_dict()}, "replay_classes": rep["classes"], "crashreason_classes": rep2["classes"],
        "crashreason_rule": "every exception record reachable by choosing OS (6) x CPU (5) x code (11 Windows / 9 Linux / 8 Mac classes) x flags (9 values) x parameter count 0..3 x "
                            "access kind / fast-fail code (5) x NTSTATUS class (3) x sign-extended addresses",
        "osstrings_rule": "every system-info stream reachable by choosing platform (4) x numeric version (0.0.0 / 5.4.3) x a CSD string built along the uname grammar "
                          "'Linux [version] [build words incl. empty ones]* [arch] [Linux/GNU]' stopped after any complete position, or free text, with blank padding where the uname rule does not apply",
    }
    return ctx.finish("model_checking", cov, assumptions=[
        "the documented rules are those transcribed in Processor.tla and CrashReason.tla; number <-> name tables are frozen copies of the platform headers' constants (harness/src/bin/replay_crashreason.rs); EXC_RESOURCE / EXC_GUARD payload formatting is not judged",
        "dumps are written by the frozen vendored writer harness/vendor/vf-synth (exception context located by a two-pass layout)",
        "0..32 threads of the statement are covered up to MaxThreads only"])


def replay(ctx, path):
    with open(path) as f:
        print(json.dumps(json.load(f), indent=1)[:6000])
    return 0
