"""C11 - symbolication returns the record that really covers the address.

Spec: spec/SymLookup.tla - fill_symbol defined declaratively by linear scan (FUNC cover, PUBLIC fallback with
the FUNC cut-off, STACK WIN parameter sizes, line records incl. dropped zero-size ones, inline chains to depth 3
with a multi-range record).  Binding: G - every symbol file TLC builds (record by record) is rendered in three
record orders, parsed by the real parser and queried through SymbolFile::fill_symbol with a recording
FrameSymbolizer at every address of the domain under module bases 0, 2^63 and 2^64-16; equality is the property."""
import json
from . import core


def run(ctx):
    ctx.build()
    mc = ctx.tlc("SymLookup", "MC_SymLookup_" + ctx.tier, coverage="separate",
                 required_actions=["AddFunc", "AddPublic", "AddLine", "AddInline", "AddWin"], timeout=6000)
    if mc.violated:
        raise core.ToolFailure("design-level invariant %s of SymLookup.tla is violated in the model" % mc.violated)
    rep = ctx.read_harness_report(ctx.harness("replay_symlookup", [mc.out_path], out_name="replay_symlookup.out", timeout=3000))
    for need in ("func", "func+line", "func+inlines", "public", "none"):
        if rep["classes"].get(need, 0) == 0:
            raise core.ToolFailure("vacuous replay: class %s never exercised" % need)
    cov = {
        "states": mc.distinct, "transitions": mc.generated,
        "traces_validated_against_impl": rep["evaluations"],
        "samples": rep["samples"][:5],
        "exhaustive": True,
        "evaluations": rep["evaluations"], "distinct_nontrivial": rep["distinct_nontrivial"],
        "rule": "every symbol file reachable by adding <= MaxRecs records from the candidate pools (4 FUNC incl. a zero-size one, 3 PUBLIC incl. one at a "
                "FUNC's address, 4 line records incl. zero-size, 4 INLINE records at depths 0-2 incl. a two-range one, 2 STACK WIN) x 13 addresses x 3 "
                "module bases (non-trivial = distinct file with at least one symbolised address)",
        "tlc": {"SymLookup": mc.as_dict()}, "replay_classes": rep["classes"],
    }
    return ctx.finish("model_checking", cov, assumptions=[
        "documented semantics as transcribed in SymLookup.tla (mod.rs comments on PUBLIC cut-off, inline pairing, STACK WIN parameter sizes)",
        "records of one kind do not overlap in the generated files (overlap policy is C08's subject)",
        "StackFrame.inlines order (reversed by minidump-unwind) is covered by the walker checks"])


def replay(ctx, path):
    with open(path) as f:
        print(json.dumps(json.load(f), indent=1)[:6000])
    return 0
