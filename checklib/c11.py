"""C11 - symbolication returns the record that really covers the address.

Spec: spec/SymLookup.tla - fill_symbol defined declaratively by linear scan (FUNC cover, PUBLIC fallback with
the FUNC cut-off, STACK WIN parameter sizes, line records incl. dropped zero-size ones, inline chains to depth 3
with a multi-range record).  Binding: G - every symbol file TLC builds (record by record) is rendered in three
record orders, parsed by the real parser and queried through SymbolFile::fill_symbol with a recording
FrameSymbolizer at every address of the domain under module bases 0, 2^63 and 2^64-16; equality is the property.
spec/SymParse.tla - the record-level state machine of the parser (top level / inside FUNC / inside STACK CFI INIT, which
lines are sublines, which close the open item, which fail the parse and at which line, MODULE only first, the final
sort and the overlap rule): every line sequence of <= MaxLen tokens of a 28-token alphabet is rendered, parsed by the
real SymbolFile::from_bytes, and the FUNC / line / PUBLIC / FILE / INLINE_ORIGIN tables compared (the tables fill_symbol
reads); STACK tables, URL and error line numbers are compared as drift."""
import json
from . import core


def run(ctx):
    ctx.build()
    mc = ctx.tlc("SymLookup", "MC_SymLookup_" + ctx.tier, coverage="separate",
                 required_actions=["AddFunc", "AddPublic", "AddLine", "AddInline", "AddWin"], timeout=6000)
    if mc.violated:
        raise core.ToolFailure("design-level invariant %s of SymLookup.tla is violated in the model" % mc.violated)
    rep = ctx.read_harness_report(ctx.harness("replay_symlookup", [mc.out_path], out_name="replay_symlookup.out", timeout=3000))
    for need in ("func", "func+line", "func+inlines", "public", "none", "below-base"):
        if rep["classes"].get(need, 0) == 0:
            raise core.ToolFailure("vacuous replay: class %s never exercised" % need)
    sp = ctx.tlc("SymParse", "MC_SymParse_" + ctx.tier, coverage="separate", required_actions=["Feed"], timeout=6000, out_name="symparse")
    if sp.violated:
        raise core.ToolFailure("design-level invariant %s of SymParse.tla is violated in the model" % sp.violated)
    rep2 = ctx.read_harness_report(ctx.harness("replay_symparse", [sp.out_path], out_name="replay_symparse.out", timeout=3000))
    for need in ("model:error", "model:table"):
        if rep2["classes"].get(need, 0) == 0:
            raise core.ToolFailure("vacuous replay: SymParse class %s never exercised" % need)
    if rep2["drift"]:
        ctx.drift.extend([None] * rep2["drift"])
    cov = {
        "states": mc.distinct + sp.distinct, "transitions": mc.generated + sp.generated,
        "traces_validated_against_impl": rep["evaluations"] + rep2["evaluations"],
        "samples": rep["samples"][:5],
        "exhaustive": True,
        "evaluations": rep["evaluations"] + rep2["evaluations"], "distinct_nontrivial": rep["distinct_nontrivial"] + rep2["distinct_nontrivial"],
        "rule": "every symbol file reachable by adding <= MaxRecs records from the candidate pools (4 FUNC incl. a zero-size one, 3 PUBLIC incl. one at a "
                "FUNC's address, 4 line records incl. zero-size, 4 INLINE records at depths 0-2 incl. a two-range one, 2 STACK WIN) x 13 addresses x 3 "
                "module bases (non-trivial = distinct file with at least one symbolised address); SymParse: every sequence of <= MaxLen lines over 28 line tokens "
                "(every record kind, duplicates, overlaps by one byte, zero sizes, malformed INLINE, blank and garbage lines)",
        "tlc": {"SymLookup": mc.as_dict(), "SymParse": sp.as_dict()}, "replay_classes": rep["classes"], "symparse_classes": rep2["classes"],
    }
    return ctx.finish("model_checking", cov, assumptions=[
        "documented semantics as transcribed in SymLookup.tla (mod.rs comments on PUBLIC cut-off, inline pairing, STACK WIN parameter sizes)",
        "records of one kind do not overlap in the generated files (overlap policy is C08's subject)",
        "StackFrame.inlines order (reversed by minidump-unwind) is covered by the walker checks"])


def replay(ctx, path):
    with open(path) as f:
        print(json.dumps(json.load(f), indent=1)[:6000])
    return 0
