fn main() {
    let args: Vec<String> = std::env::args().collect();
    let f = &args[1]; let big = args[2] == "be";
    let b = vharness::rich::template_with_exception(f, big, 3);
    let (n, dir, s) = vharness::rich::layout(&b);
    println!("len={} count={} dir={}", b.len(), n, dir);
    for x in s { println!("{:x?}", x); }
}
