fn main() { println!("ok"); }
