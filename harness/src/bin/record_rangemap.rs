//! C08 binding, impl -> spec: seeded random u64 entry tables (overlapping, nested, duplicated, empty, ending at
//! 2^64-1, equal-valued adjacent) built by every real table constructor; observations for Trace_RangeMap.tla.
use rand::rngs::StdRng;
use rand::{Rng, SeedableRng};
use vharness::rm::{fits, obs_json, observe, Entry, BINDINGS};
use vharness::install_panic_capture;

fn main() {
    install_panic_capture();
    let n: usize = std::env::args().nth(1).map(|s| s.parse().unwrap()).unwrap_or(200);
    let mut rng = StdRng::seed_from_u64(vharness::seed() ^ 0xC08);
    for t in 0..n {
        let small_sizes = t % 2 == 0; // half of the tables fit every binding (u32 sizes)
        let anchors: Vec<u64> = (0..rng.gen_range(1..4)).map(|_| match rng.gen_range(0..6) {
            0 => 0, 1 => u64::MAX, 2 => u64::MAX - rng.gen_range(0..0x3000), 3 => rng.gen_range(0..0x4000),
            4 => (rng.gen::<u32>() as u64) << 12, _ => rng.gen(),
        }).collect();
        let cnt = rng.gen_range(0..9);
        let mut entries = vec![];
        for i in 0..cnt {
            let a = anchors[rng.gen_range(0..anchors.len())];
            let base = match rng.gen_range(0..4) { 0 => a, 1 => a.wrapping_sub(rng.gen_range(0..0x2000)), _ => a.wrapping_add(rng.gen_range(0..0x2000)) };
            let size: u64 = match rng.gen_range(0..10) {
                0 => 0, 1 => 1, 2 => (0u64.wrapping_sub(base)) & if small_sizes { 0xffff_ffff } else { u64::MAX }, // reaches exactly 2^64 when it fits
                3 if !small_sizes => rng.gen(), 4 => 0xffff_ffff, _ => rng.gen_range(1..0x3000),
            };
            let val = if rng.gen_bool(0.3) { 1 + (i as u64 % 2) } else { i as u64 + 1 };
            entries.push(Entry { base, size, val });
            if rng.gen_bool(0.15) { let e = entries.last().unwrap().clone(); entries.push(Entry { val: e.val + 50, ..e }); } // exact duplicate range
        }
        let mut probes = vec![0u64, u64::MAX];
        for e in &entries {
            for d in [0u64, 1] {
                probes.push(e.base.wrapping_sub(d));
                probes.push(e.base.wrapping_add(d));
                probes.push(e.base.wrapping_add(e.size).wrapping_sub(d));
                probes.push(e.base.wrapping_add(e.size).wrapping_sub(1).wrapping_add(d));
            }
        }
        probes.sort(); probes.dedup();
        for b in BINDINGS {
            let ents: Vec<Entry> = if b == "trait" { entries.clone() } else { entries.iter().enumerate().map(|(i, e)| Entry { val: i as u64 + 1, ..e.clone() }).collect() };
            if !fits(b, &ents) { continue; }
            let o = observe(b, &ents, &probes);
            println!("{}", obs_json(b, &ents, &o));
        }
    }
}
