//! C16 binding (spec -> impl).  Every terminal behaviour TLC emits from HttpCache.tla is a download scenario:
//! environment (pre-existing entry, temp dir / cache dir usable, file kind) and one script per symbol URL
//! (status, how many chunks arrive before the connection is cut, which chunk stops the parser, where the
//! caller abandons the request).  Each scenario is played against the real `HttpSymbolSupplier` with one
//! scripted raw-TCP loopback server per URL; afterwards the cache/ and tmp/ trees are read back byte for
//! byte and an offline supplier (no URLs) repeats the lookup.  The specification's terminal state says what
//! all of that must look like.
//!
//! usage: replay_httpcache replay <tlc-output> [concretisations]   |   replay_httpcache hostile
use breakpad_symbols::{FileKind, HttpSymbolSupplier, SimpleModule, SymbolSupplier};
use debugid::{CodeId, DebugId};
use serde_json::{json, Value};
use std::io::{Read, Write};
use std::net::{TcpListener, TcpStream};
use std::path::{Path, PathBuf};
use std::str::FromStr;
use std::sync::atomic::{AtomicBool, Ordering};
use std::sync::{Arc, Mutex};
use std::time::Duration;
use vharness::{for_each_case, install_panic_capture, Report};

#[derive(Clone, Debug)]
struct UrlScript {
    status: u16,
    cut: usize,
    bad_at: usize,
    drop_at: usize,
}
#[derive(Clone, Debug)]
struct Case {
    pre: bool,
    tmp_ok: bool,
    cache_ok: bool,
    move_ok: bool,
    kind: String,
    scripts: Vec<UrlScript>,
    pc: String,
    cache_present: bool,
    cache_by: String,
    cache_url: usize,
    raw: Value,
}
#[derive(Clone, Copy, Debug)]
struct Conc {
    mid: bool,     // chunk boundaries in the middle of a line instead of at a line end
    chunked: bool, // Transfer-Encoding: chunked instead of Content-Length
    via_file: bool, // sym only: ask through SymbolSupplier::locate_file(FileKind::BreakpadSym) instead of locate_symbols
    redirect: bool, // the server first answers 302 with a Location on itself and plays the script on the redirected request
}

const DEBUG_ID: &str = "0123456789ABCDEF0123456789ABCDEF0";
const CODE_ID: &str = "5A5A5A5A1000";

fn module(debug_file: &str, code_file: &str) -> SimpleModule {
    SimpleModule {
        base_address: Some(0x1000),
        size: Some(0x1000),
        code_file: Some(code_file.into()),
        code_identifier: Some(CodeId::from_str(CODE_ID).unwrap()),
        debug_file: Some(debug_file.into()),
        debug_id: Some(DebugId::from_breakpad(DEBUG_ID).unwrap()),
        version: None,
    }
}

/// The N chunks of the body a URL serves.  sym: three lines per chunk, the second one replaced by a line the
/// parser rejects in chunk `bad_at`.  file: opaque bytes, not UTF-8.
fn body_chunks(kind: &str, n: usize, bad_at: usize, mid: bool, tag: usize) -> Vec<Vec<u8>> {
    let mut lines: Vec<Vec<String>> = Vec::new();
    for c in 1..=n {
        let mut l = Vec::new();
        if kind == "sym" {
            if c == 1 {
                l.push(format!("MODULE Linux x86_64 {} lib.so\n", DEBUG_ID));
                // served by a mirror that is itself a cache: the body already carries somebody else's note
                l.push("INFO URL http://upstream.example/from/an/older/cache.sym\n".to_string());
            } else {
                l.push(format!("PUBLIC {:x} 0 pub_{}_{}\n", 0x100 * c + 0x10, c, tag));
            }
            if c == bad_at {
                l.push("FUNC this is not a function record\n".to_string());
            } else {
                l.push(format!("FUNC {:x} 10 0 fn_{}_{}\n", 0x1000 * c, c, tag));
            }
            l.push(format!("PUBLIC {:x} 0 last_{}_{}\n", 0x100 * c + 0x20, c, tag));
        } else {
            l.push(format!("\u{7f}ELF{}\n", tag));
            l.push("\n\n".to_string());
            l.push(format!("chunk {} of {}\n", c, n));
        }
        lines.push(l);
    }
    let mut chunks: Vec<Vec<u8>> = lines.iter().map(|l| l.concat().into_bytes()).collect();
    if kind == "file" {
        for (i, c) in chunks.iter_mut().enumerate() {
            c.extend_from_slice(&[0xff, 0xfe, 0x00, i as u8, b'\r', b'\n']);
        }
    }
    if mid {
        // move the first 5 bytes of every later chunk to the end of the one before it
        for i in 1..chunks.len() {
            let head: Vec<u8> = chunks[i].drain(..5).collect();
            chunks[i - 1].extend_from_slice(&head);
        }
    }
    chunks
}

struct Server {
    port: u16,
    stop: Arc<AtomicBool>,
    log: Arc<Mutex<Vec<String>>>,
    alerts: Arc<Mutex<Vec<String>>>,
    handle: Option<std::thread::JoinHandle<()>>,
}
impl Server {
    fn start(script: UrlScript, chunks: Vec<Vec<u8>>, conc: Conc) -> Server { Server::start_watching(script, chunks, conc, None) }
    /// `watch`: the cache directory; while a body is in flight the server looks at it once and reports anything that was not there before
    fn start_watching(script: UrlScript, chunks: Vec<Vec<u8>>, conc: Conc, watch: Option<PathBuf>) -> Server {
        // thousands of short-lived listeners: the kernel may briefly have no free port while old sockets sit in TIME_WAIT
        let mut listener = None;
        for _ in 0..600 {
            match TcpListener::bind("127.0.0.1:0") {
                Ok(l) => { listener = Some(l); break; }
                Err(_) => std::thread::sleep(Duration::from_millis(100)),
            }
        }
        let listener = listener.expect("bind loopback (no free port for 60 s)");
        listener.set_nonblocking(true).unwrap();
        let port = listener.local_addr().unwrap().port();
        let stop = Arc::new(AtomicBool::new(false));
        let log = Arc::new(Mutex::new(Vec::new()));
        let alerts = Arc::new(Mutex::new(Vec::new()));
        let initial = watch.as_ref().map(|w| (w.clone(), tree(w)));
        let (stop2, log2, alerts2) = (stop.clone(), log.clone(), alerts.clone());
        let handle = std::thread::spawn(move || {
            let mut conns = Vec::new();
            while !stop2.load(Ordering::SeqCst) {
                match listener.accept() {
                    Ok((s, _)) => {
                        let (script, chunks, stop3, log3, alerts3, initial3) = (script.clone(), chunks.clone(), stop2.clone(), log2.clone(), alerts2.clone(), initial.clone());
                        conns.push(std::thread::spawn(move || serve(s, script, chunks, conc, stop3, log3, alerts3, initial3)));
                    }
                    Err(_) => std::thread::sleep(Duration::from_millis(1)),
                }
            }
            for c in conns {
                let _ = c.join();
            }
        });
        Server { port, stop, log, alerts, handle: Some(handle) }
    }
    fn finish(&mut self) -> Vec<String> {
        self.stop.store(true, Ordering::SeqCst);
        if let Some(h) = self.handle.take() {
            let _ = h.join();
        }
        self.log.lock().unwrap().clone()
    }
}

fn stall(stop: &AtomicBool) {
    while !stop.load(Ordering::SeqCst) {
        std::thread::sleep(Duration::from_millis(2));
    }
}

#[allow(clippy::too_many_arguments)]
fn serve(mut s: TcpStream, script: UrlScript, chunks: Vec<Vec<u8>>, conc: Conc, stop: Arc<AtomicBool>, log: Arc<Mutex<Vec<String>>>, alerts: Arc<Mutex<Vec<String>>>,
         watch: Option<(PathBuf, Vec<(String, Vec<u8>)>)>) {
    let _ = s.set_nonblocking(false);
    let _ = s.set_nodelay(true);
    let _ = s.set_read_timeout(Some(Duration::from_secs(5)));
    let mut req = Vec::new();
    let mut b = [0u8; 1024];
    while !req.windows(4).any(|w| w == b"\r\n\r\n") {
        match s.read(&mut b) {
            Ok(0) | Err(_) => return,
            Ok(n) => req.extend_from_slice(&b[..n]),
        }
    }
    let first = String::from_utf8_lossy(&req).lines().next().unwrap_or("").to_string();
    let target = first.split(' ').nth(1).unwrap_or("/").to_string();
    if conc.redirect && !target.starts_with("/moved/") {
        // the requested URL is what the client is told about and what the cache note records; the redirected request is not logged
        log.lock().unwrap().push(first);
        let _ = write!(s, "HTTP/1.1 302 Found\r\nLocation: /moved{}\r\nContent-Length: 0\r\nConnection: close\r\n\r\n", target);
        return;
    }
    if !conc.redirect {
        log.lock().unwrap().push(first);
    }
    let n = chunks.len();
    if script.drop_at == n + 2 {
        stall(&stop); // never answer: the caller gives up while waiting for the response head
        return;
    }
    if script.status != 200 {
        // the error page is a complete, parseable symbol file: only the status line says that it is not the answer
        let body: Vec<u8> = chunks.concat();
        let _ = write!(s, "HTTP/1.1 {} Nope\r\nContent-Length: {}\r\nConnection: close\r\n\r\n", script.status, body.len());
        let _ = s.write_all(&body);
        return;
    }
    let total: usize = chunks.iter().map(|c| c.len()).sum();
    let head = if conc.chunked {
        "HTTP/1.1 200 OK\r\nTransfer-Encoding: chunked\r\nConnection: close\r\n\r\n".to_string()
    } else {
        format!("HTTP/1.1 200 OK\r\nContent-Length: {}\r\nConnection: close\r\n\r\n", total)
    };
    if s.write_all(head.as_bytes()).is_err() {
        return;
    }
    for k in 0..=n {
        // k chunks have been sent
        if script.drop_at == k && k <= script.cut {
            let _ = s.flush();
            stall(&stop);
            return;
        }
        if k == script.cut {
            break;
        }
        let c = &chunks[k];
        let r = if conc.chunked { write!(s, "{:x}\r\n", c.len()).and_then(|_| s.write_all(c)).and_then(|_| s.write_all(b"\r\n")) } else { s.write_all(c) };
        if r.is_err() {
            return;
        }
        let _ = s.flush();
        std::thread::sleep(Duration::from_millis(2));
        // part of the body is out and more is to come: whatever the client is doing with it, the cache must look as it did before
        if k == 0 && script.cut > 1 {
            if let Some((dir, before)) = &watch {
                std::thread::sleep(Duration::from_millis(60));
                let now = tree(dir);
                if now != *before {
                    let extra: Vec<String> = now.iter().filter(|e| !before.contains(e)).map(|(p, c)| format!("{} ({} bytes)", p, c.len())).collect();
                    alerts.lock().unwrap().push(format!("during the download the cache contained: {:?}", extra));
                }
            }
        }
    }
    if script.cut == n && conc.chunked {
        let _ = s.write_all(b"0\r\n\r\n");
    }
    // cut < n: the connection simply closes here, short of the announced length / without the last chunk
    let _ = s.shutdown(std::net::Shutdown::Both);
}

fn tree(root: &Path) -> Vec<(String, Vec<u8>)> {
    fn rec(p: &Path, root: &Path, out: &mut Vec<(String, Vec<u8>)>) {
        if let Ok(rd) = std::fs::read_dir(p) {
            for e in rd.flatten() {
                let path = e.path();
                let ft = match e.file_type() {
                    Ok(t) => t,
                    Err(_) => continue,
                };
                if ft.is_dir() {
                    rec(&path, root, out);
                } else {
                    out.push((path.strip_prefix(root).unwrap().to_string_lossy().into_owned(), std::fs::read(&path).unwrap_or_default()));
                }
            }
        }
    }
    let mut out = Vec::new();
    rec(root, root, &mut out);
    out.sort();
    out
}

fn parse_case(v: &Value) -> Case {
    let env = &v["env"];
    let scripts = v["script"]["a"].as_array().unwrap().iter().map(|s| UrlScript {
        status: s["status"].as_u64().unwrap() as u16,
        cut: s["cut"].as_u64().unwrap() as usize,
        bad_at: s["badAt"].as_u64().unwrap() as usize,
        drop_at: s["dropAt"].as_u64().unwrap() as usize,
    }).collect();
    Case {
        pre: env["pre"].as_bool().unwrap(),
        tmp_ok: env["tmpOk"].as_bool().unwrap(),
        cache_ok: env["cacheOk"].as_bool().unwrap(),
        move_ok: env["moveOk"].as_bool().unwrap_or(true),
        kind: env["kind"].as_str().unwrap().to_string(),
        scripts,
        pc: v["pc"]["a"].as_str().unwrap().to_string(),
        cache_present: v["cache"]["present"].as_bool().unwrap(),
        cache_by: v["cache"]["by"].as_str().unwrap().to_string(),
        cache_url: v["cache"]["url"].as_u64().unwrap() as usize,
        raw: v.clone(),
    }
}

/// Where the temp directory of a scenario lives: next to the cache, or - when the final move must not be able to succeed - on
/// another file system (/dev/shm), so that neither a hard link nor a rename can reach the cache.
fn tmp_dir_for(case: &Case, sandbox: &Path) -> PathBuf {
    if case.move_ok { return sandbox.join("tmp"); }
    use std::hash::{Hash, Hasher};
    let mut h = std::collections::hash_map::DefaultHasher::new();
    sandbox.hash(&mut h);
    PathBuf::from(format!("/dev/shm/verif-c16-{}/{:016x}/tmp", std::process::id(), h.finish()))
}
/// Whether /dev/shm really is a different file system from `work` (a hard link across must fail).
fn cross_device_available(work: &Path) -> bool {
    let d = PathBuf::from(format!("/dev/shm/verif-c16-{}", std::process::id()));
    if std::fs::create_dir_all(&d).is_err() { return false; }
    let src = d.join("probe");
    if std::fs::write(&src, b"x").is_err() { return false; }
    let dst = work.join("probe-link");
    let _ = std::fs::remove_file(&dst);
    let r = std::fs::hard_link(&src, &dst).is_err() && std::fs::rename(&src, &dst).is_err();
    let _ = std::fs::remove_file(&dst);
    let _ = std::fs::remove_file(&src);
    r
}

const PRE_SYM: &str = "MODULE Linux x86_64 0123456789ABCDEF0123456789ABCDEF0 lib.so\nFUNC 7000 10 0 cached_earlier\nINFO URL http://earlier.example/lib.so.sym\n";
const PRE_FILE: &[u8] = b"\x7fELF earlier\xff\n";

struct Observed {
    ok: bool,
    dropped: bool,
    hung: bool,
    url: Option<String>,
    sym_debug: String,
    file_path: Option<PathBuf>,
    requests: Vec<Vec<String>>,
    alerts: Vec<String>,
    ports: Vec<u16>,
    bodies: Vec<Vec<u8>>,
}

async fn play(case: &Case, n: usize, conc: Conc, root: &Path) -> Observed {
    let cache = root.join("cache");
    let tmp = tmp_dir_for(case, root);
    std::fs::create_dir_all(&cache).unwrap();
    let (rel_dir, rel_file) = if case.kind == "sym" { (format!("lib.so/{}", DEBUG_ID), "lib.so.sym") } else { (format!("lib.so/{}", DEBUG_ID), "lib.so") };
    if case.pre {
        std::fs::create_dir_all(cache.join(&rel_dir)).unwrap();
        std::fs::write(cache.join(&rel_dir).join(rel_file), if case.kind == "sym" { PRE_SYM.as_bytes() } else { PRE_FILE }).unwrap();
    } else if !case.cache_ok {
        std::fs::write(cache.join("lib.so"), b"in the way").unwrap(); // the entry's directory cannot be created
    }
    if case.tmp_ok {
        std::fs::create_dir_all(&tmp).unwrap();
    } else {
        if let Some(p) = tmp.parent() { std::fs::create_dir_all(p).unwrap(); }
        std::fs::write(&tmp, b"not a directory").unwrap();
    }
    let mut servers = Vec::new();
    let mut bodies = Vec::new();
    for (i, s) in case.scripts.iter().enumerate() {
        let chunks = body_chunks(&case.kind, n, s.bad_at, conc.mid, i + 1);
        bodies.push(chunks.concat());
        servers.push(Server::start_watching(s.clone(), chunks, conc, Some(cache.clone())));
    }
    let urls: Vec<String> = servers.iter().map(|s| format!("http://127.0.0.1:{}/sub/", s.port)).collect();
    let supplier = HttpSymbolSupplier::new(urls, cache.clone(), tmp.clone(), vec![], Duration::from_secs(20));
    let m = module("lib.so", "lib.so");
    let wait = if case.pc == "dropped" { Duration::from_millis(250) } else { Duration::from_secs(40) };
    let mut obs = Observed { ok: false, dropped: false, hung: false, url: None, sym_debug: String::new(), file_path: None, requests: vec![], alerts: vec![], ports: servers.iter().map(|s| s.port).collect(), bodies };
    if case.kind == "sym" && !conc.via_file {
        match tokio::time::timeout(wait, supplier.locate_symbols(&m)).await {
            Ok(Ok(r)) => {
                obs.ok = true;
                obs.url = r.symbols.url.clone();
                obs.sym_debug = format!("{:?}", sym_key(&r.symbols));
            }
            Ok(Err(_)) => {}
            Err(_) => {
                obs.dropped = case.pc == "dropped";
                obs.hung = !obs.dropped;
            }
        }
    } else {
        match tokio::time::timeout(wait, supplier.locate_file(&m, if case.kind == "sym" { FileKind::BreakpadSym } else { FileKind::Binary })).await {
            Ok(Ok(p)) => {
                obs.ok = true;
                obs.file_path = Some(p);
            }
            Ok(Err(_)) => {}
            Err(_) => {
                obs.dropped = case.pc == "dropped";
                obs.hung = !obs.dropped;
            }
        }
    }
    drop(supplier);
    for s in servers.iter_mut() {
        obs.requests.push(s.finish());
        obs.alerts.extend(s.alerts.lock().unwrap().iter().cloned());
    }
    obs
}

/// What a lookup yields, minus the statistics counters: the symbol table and the URL.
fn sym_key(s: &breakpad_symbols::SymbolFile) -> (String, String, Vec<String>, Vec<(u64, String)>, Option<String>) {
    let mut funcs: Vec<(u64, String)> = s.functions.ranges_values().map(|(r, f)| (r.start, format!("{}+{:x}", f.name, f.size))).collect();
    funcs.sort();
    (s.module_id.clone(), s.debug_file.clone(), s.publics.iter().map(|p| format!("{:x}:{}", p.address, p.name)).collect(), funcs, s.url.clone())
}

fn main() {
    install_panic_capture();
    let args: Vec<String> = std::env::args().collect();
    let rt = tokio::runtime::Builder::new_multi_thread().worker_threads(8).enable_all().build().unwrap();
    let mut rep = Report::new();
    match args.get(1).map(|s| s.as_str()) {
        Some("replay") => {
            let n: usize = args[3].parse().expect("N");
            let nconc: usize = args.get(4).and_then(|s| s.parse().ok()).unwrap_or(1);
            let mut cases = Vec::new();
            for_each_case(&args[2], "CASE", |v| cases.push(parse_case(&v)));
            // the scenario bodies mean what the scripts say: the good body parses, the bad line stops the parser
            for mid in [false, true] {
                for bad in 0..=n {
                    let ok = breakpad_symbols::SymbolFile::from_bytes(&body_chunks("sym", n, bad, mid, 1).concat()).is_ok();
                    if ok != (bad == 0) {
                        eprintln!("TOOL-FAILURE scenario body bad_at={} parses={}", bad, ok);
                        std::process::exit(2);
                    }
                }
            }
            let base = tempfile::Builder::new().prefix("vf-http-").tempdir().unwrap();
            let concs = [Conc { mid: false, chunked: false, via_file: false, redirect: false }, Conc { mid: true, chunked: true, via_file: false, redirect: false }, Conc { mid: true, chunked: false, via_file: false, redirect: false }, Conc { mid: false, chunked: true, via_file: false, redirect: false }];
            let xdev = cross_device_available(base.path());
            let mut jobs = Vec::new();
            for (i, c) in cases.iter().enumerate() {
                if !c.move_ok && !xdev { rep.class("skipped:no-second-file-system-for-a-failing-move"); continue; }
                if !c.move_ok { rep.class("move-cannot-succeed"); }
                for k in 0..nconc {
                    let mut conc = concs[(i + k) % 4];
                    conc.via_file = k % 2 == 1 && c.kind == "sym";
                    conc.redirect = (i / 3 + k) % 4 == 0 && c.scripts.iter().all(|s| s.drop_at == n + 1);
                    // waiting after the last chunk only exists when the end of the body is not yet known
                    if c.scripts.iter().any(|s| s.drop_at == n) {
                        conc.chunked = true;
                    }
                    jobs.push((i, k, conc));
                }
            }
            let results: Vec<(usize, Conc, Vec<(String, Value)>, String)> = rt.block_on(async {
                let sem = Arc::new(tokio::sync::Semaphore::new(12));
                let mut hs = Vec::new();
                for (i, k, conc) in jobs {
                    let case = cases[i].clone();
                    let root = base.path().join(format!("c{}_{}", i, k));
                    let sem = sem.clone();
                    hs.push(tokio::spawn(async move {
                        let _p = sem.acquire().await.unwrap();
                        // A scenario that disagrees with the model is played again from scratch, up to three times, and reported only
                        // if it disagrees every time: the code under test is deterministic for a scripted server, the loopback network
                        // under load (thousands of short-lived listeners, TIME_WAIT, a starved accept thread) is not.
                        let mut last = (vec![], String::new());
                        let mut retried = 0u32;
                        for attempt in 0..3 {
                            let root = root.join(format!("try{}", attempt));
                            let sandbox = root.join("sandbox");
                            std::fs::create_dir_all(&sandbox).unwrap();
                            let obs = play(&case, n, conc, &sandbox).await;
                            last = judge(&case, n, conc, &obs, &root).await;
                            if !case.move_ok { let t = tmp_dir_for(&case, &sandbox); if let Some(p) = t.parent() { let _ = std::fs::remove_dir_all(p); } }
                            let _ = std::fs::remove_dir_all(&root);
                            if last.0.is_empty() { break; }
                            retried += 1;
                            tokio::time::sleep(Duration::from_millis(300)).await;
                        }
                        let _ = std::fs::remove_dir_all(&root);
                        let class = if retried > 0 && last.0.is_empty() { format!("{}|replayed-after-transient-disagreement", last.1) } else { last.1 };
                        (i, conc, last.0, class)
                    }));
                }
                let mut out = Vec::new();
                for h in hs {
                    out.push(h.await.expect("job"));
                }
                out
            });
            for (i, conc, mm, class) in results {
                rep.evaluations += 1;
                let mut parts = class.split('|');
                rep.class(parts.next().unwrap());
                if parts.next().is_some() { rep.class("replayed-after-transient-disagreement"); }
                rep.class(&format!("conc:{}{}", if conc.mid { "mid" } else { "line" }, if conc.chunked { "+chunked" } else { "+length" }));
                rep.nontrivial(&cases[i].raw.to_string());
                if mm.is_empty() && rep.samples.len() < 6 && i % 97 == 0 {
                    rep.sample(json!({"scenario": cases[i].raw, "wire": format!("{:?}", conc), "class": class, "result": "result, request log, cache/ and tmp/ as specified; offline repeat served from the cache"}));
                }
                for (fp, detail) in mm {
                    rep.mismatch(&fp, json!({"case": cases[i].raw, "conc": format!("{:?}", conc), "detail": detail}));
                }
            }
        }
        Some("hostile") => {
            // names straight out of a dump: whatever they are, everything the supplier writes stays inside cache/ and tmp/
            let names = [".\u{0}.", "..", ".", "a/../../x", "\u{0}", "..\u{0}", "dir\\..\\..\\y.pdb", "C:", "c:\\..\\z.pdb", "ok.pdb", "/abs/path/lib.so", "..\u{0}/w", "con", "a\u{0}b.pdb", "\u{0}..", ".\u{0}.\u{0}"];
            let base = tempfile::Builder::new().prefix("vf-http-h-").tempdir().unwrap();
            for (i, name) in names.iter().enumerate() {
                for kind in ["sym", "file"] {
                    let root = base.path().join(format!("h{}_{}", i, kind));
                    let sandbox = root.join("outer").join("sandbox");
                    std::fs::create_dir_all(&sandbox).unwrap();
                    let case = Case { pre: false, tmp_ok: true, cache_ok: true, move_ok: true, kind: kind.to_string(), scripts: vec![UrlScript { status: 200, cut: 2, bad_at: 0, drop_at: 3 }], pc: "ok_cached".into(), cache_present: true, cache_by: "a".into(), cache_url: 1, raw: json!({"hostile": name, "kind": kind}) };
                    let cache = sandbox.join("cache");
                    let tmp = sandbox.join("tmp");
                    std::fs::create_dir_all(&cache).unwrap();
                    std::fs::create_dir_all(&tmp).unwrap();
                    let chunks = body_chunks(kind, 2, 0, false, 1);
                    let body = chunks.concat();
                    let mut server = Server::start(case.scripts[0].clone(), chunks, Conc { mid: false, chunked: false, via_file: false, redirect: false });
                    let supplier = HttpSymbolSupplier::new(vec![format!("http://127.0.0.1:{}/sub/", server.port)], cache.clone(), tmp.clone(), vec![], Duration::from_secs(20));
                    let m = module(name, name);
                    let ok = rt.block_on(async {
                        if kind == "sym" {
                            tokio::time::timeout(Duration::from_secs(15), supplier.locate_symbols(&m)).await.map(|r| r.is_ok()).unwrap_or(false)
                        } else {
                            tokio::time::timeout(Duration::from_secs(15), supplier.locate_file(&m, FileKind::Binary)).await.map(|r| r.is_ok()).unwrap_or(false)
                        }
                    });
                    drop(supplier);
                    let reqs = server.finish();
                    rep.evaluations += 1;
                    rep.class(if ok { "hostile:ok" } else { "hostile:err" });
                    let all = tree(&root);
                    let outside: Vec<&String> = all.iter().map(|(p, _)| p).filter(|p| !p.starts_with("outer/sandbox/cache/") && !p.starts_with("outer/sandbox/tmp/")).collect();
                    if !outside.is_empty() {
                        rep.mismatch("hostile:file-outside-cache", json!({"name": name, "kind": kind, "outside": outside}));
                    }
                    if !tree(&tmp).is_empty() {
                        rep.mismatch("hostile:stray-temp", json!({"name": name, "kind": kind}));
                    }
                    for (p, content) in tree(&cache) {
                        let complete = if kind == "sym" { content.starts_with(&body) && content[body.len()..].starts_with(b"INFO URL http://127.0.0.1:") && content.ends_with(b"\n") } else { content == body };
                        if !complete {
                            rep.mismatch("hostile:incomplete-entry", json!({"name": name, "kind": kind, "path": p, "requests": reqs}));
                        }
                    }
                }
            }
        }
        Some("bodies") => {
            // parse_async is its own copy of the streaming loop and can only be driven over HTTP: realistic and awkward symbol files
            // (lines longer than the initial / the maximal buffer, CRLF, no final newline, blank lines) under several chunkings.
            // The verdict comes from the whole-buffer parser: same Ok / Err, same table, and the cache holds exactly body + note.
            let base = tempfile::Builder::new().prefix("vf-http-b-").tempdir().unwrap();
            let head = format!("MODULE Linux x86_64 {} lib.so\n", DEBUG_ID);
            let long = |n: usize| -> String { std::iter::repeat('x').take(n).collect() };
            let bodies: Vec<(&str, Vec<u8>)> = vec![
                ("plain", format!("{}FUNC 1000 10 0 f1\nPUBLIC 2000 0 p1\n", head).into_bytes()),
                ("crlf", format!("{}FUNC 1000 10 0 f1\r\nPUBLIC 2000 0 p1\r\n", head.trim_end().to_string() + "\r\n").into_bytes()),
                ("no-final-newline", format!("{}FUNC 1000 10 0 f1\nPUBLIC 2000 0 p1", head).into_bytes()),
                ("blank-lines", format!("{}\n\nFUNC 1000 10 0 f1\n\nPUBLIC 2000 0 p1\n\n", head).into_bytes()),
                ("line-200k", format!("{}FUNC 1000 10 0 f1\nPUBLIC 2000 0 {}\nPUBLIC 3000 0 after\n", head, long(200 * 1024)).into_bytes()),
                ("line-200k-func", format!("{}FUNC 1000 10 0 {}\n1000 10 1 0\nPUBLIC 3000 0 after\n", head, long(200 * 1024)).into_bytes()),
                ("line-1m-info", format!("{}INFO {}\nFUNC 1000 10 0 f1\n", head, long(1024 * 1024)).into_bytes()),
                ("line-3m", format!("{}FUNC 1000 10 0 f1\nPUBLIC 2000 0 {}\nPUBLIC 3000 0 after\n", head, long(3 * 1024 * 1024)).into_bytes()),
                ("two-long-lines", format!("{}PUBLIC 2000 0 {}\nPUBLIC 2100 0 {}\nFUNC 1000 10 0 tail\n", head, long(170 * 1024), long(90 * 1024)).into_bytes()),
                ("long-then-garbage", format!("{}PUBLIC 2000 0 {}\nTHIS IS NOT A RECORD\n", head, long(200 * 1024)).into_bytes()),
                // a served file that already says where it once came from: the note of THIS download is still appended, and it is the one reported
                ("foreign-info-url", format!("{}INFO URL http://elsewhere.example/lib.so.sym\nFUNC 1000 10 0 f1\n", head).into_bytes()),
                ("foreign-info-url-last", format!("{}FUNC 1000 10 0 f1\nINFO URL http://elsewhere.example/lib.so.sym\n", head).into_bytes()),
                ("only-module", head.clone().into_bytes()),
                ("empty", vec![]),
            ];
            for (bi, (bname, body)) in bodies.iter().enumerate() {
                for (ci, (pieces, chunked)) in [(1usize, false), (3, true), (64, false), (257, true)].iter().enumerate() {
                    let sandbox = base.path().join(format!("b{}_{}", bi, ci));
                    let cache = sandbox.join("cache");
                    let tmp = sandbox.join("tmp");
                    std::fs::create_dir_all(&cache).unwrap();
                    std::fs::create_dir_all(&tmp).unwrap();
                    let step = (body.len() / pieces).max(1);
                    let mut chunks: Vec<Vec<u8>> = body.chunks(step).map(|c| c.to_vec()).collect();
                    if chunks.is_empty() { chunks.push(vec![]); }
                    let n = chunks.len();
                    let mut server = Server::start(UrlScript { status: 200, cut: n, bad_at: 0, drop_at: n + 1 }, chunks, Conc { mid: false, chunked: *chunked, via_file: false, redirect: false });
                    let supplier = HttpSymbolSupplier::new(vec![format!("http://127.0.0.1:{}/sub/", server.port)], cache.clone(), tmp.clone(), vec![], Duration::from_secs(60));
                    let m = module("lib.so", "lib.so");
                    let got = rt.block_on(async { tokio::time::timeout(Duration::from_secs(60), supplier.locate_symbols(&m)).await });
                    drop(supplier);
                    let reqs = server.finish();
                    rep.evaluations += 1;
                    let whole = breakpad_symbols::SymbolFile::from_bytes(body);
                    rep.class(&format!("bodies:{}:{}", bname, if whole.is_ok() { "ok" } else { "err" }));
                    let detail = |what: &str| json!({"body": bname, "len": body.len(), "pieces": pieces, "chunked": chunked, "what": what});
                    let target = reqs.first().and_then(|l| l.split(' ').nth(1)).unwrap_or("?").to_string();
                    let url = format!("http://127.0.0.1:{}{}", server.port, target);
                    match (&got, &whole) {
                        (Err(_), _) => rep.mismatch("bodies:hang", detail("no answer within 60 s")),
                        (Ok(Ok(r)), Ok(w)) => {
                            let mut a = sym_key(&r.symbols);
                            a.4 = None;
                            let mut b = sym_key(w);
                            b.4 = None;
                            if a != b { rep.mismatch("bodies:table-differs-from-whole-buffer-parse", detail("streamed download parsed to a different symbol table")); }
                            let mut want = body.clone();
                            want.extend_from_slice(format!("INFO URL {}\n", url).as_bytes());
                            let have = tree(&cache);
                            if have.len() != 1 || have[0].1 != want {
                                let hl = have.first().map(|h| h.1.len()).unwrap_or(0);
                                rep.mismatch("bodies:cache-entry-not-body-plus-note", json!({"body": bname, "pieces": pieces, "chunked": chunked, "entry_len": hl, "want_len": want.len()}));
                            } else {
                                let offline = HttpSymbolSupplier::new(vec![], cache.clone(), tmp.clone(), vec![], Duration::from_secs(5));
                                match rt.block_on(offline.locate_symbols(&m)) {
                                    Ok(r2) => {
                                        if sym_key(&r2.symbols) != sym_key(&r.symbols) { rep.mismatch("bodies:offline-differs", detail("cached copy parses to a different table or URL")); }
                                    }
                                    Err(e) => rep.mismatch("bodies:offline-entry-unusable", detail(&format!("{:?}", e))),
                                }
                            }
                        }
                        (Ok(Err(_)), Err(_)) => {
                            if !tree(&cache).is_empty() { rep.mismatch("bodies:entry-after-failed-parse", detail("a body the parser rejects was cached")); }
                        }
                        (Ok(Ok(_)), Err(e)) => rep.mismatch("bodies:streamed-ok-whole-err", detail(&format!("{:?}", e))),
                        (Ok(Err(e)), Ok(_)) => rep.mismatch("bodies:streamed-err-whole-ok", detail(&format!("{:?}", e))),
                    }
                    if !tree(&tmp).is_empty() { rep.mismatch("bodies:stray-temp", detail("temp file left behind")); }
                }
            }
        }
        Some("symfile") => {
            // the third way into the cache: SymbolSupplier::locate_file(module, FileKind::BreakpadSym) fetches a .sym file
            // opaquely (fetch_lookup) into the very path locate_symbols reads symbol files from
            let base = tempfile::Builder::new().prefix("vf-http-s-").tempdir().unwrap();
            for (i, (bad_at, cut)) in [(0usize, 2usize), (1, 2), (2, 2), (0, 1), (0, 0)].iter().enumerate() {
                let sandbox = base.path().join(format!("s{}", i));
                let cache = sandbox.join("cache");
                let tmp = sandbox.join("tmp");
                std::fs::create_dir_all(&cache).unwrap();
                std::fs::create_dir_all(&tmp).unwrap();
                let chunks = body_chunks("sym", 2, *bad_at, false, 1);
                let body = chunks.concat();
                let mut server = Server::start(UrlScript { status: 200, cut: *cut, bad_at: *bad_at, drop_at: 3 }, chunks, Conc { mid: false, chunked: false, via_file: false, redirect: false });
                let supplier = HttpSymbolSupplier::new(vec![format!("http://127.0.0.1:{}/sub/", server.port)], cache.clone(), tmp.clone(), vec![], Duration::from_secs(20));
                let m = module("lib.so", "lib.so");
                let got = rt.block_on(async { tokio::time::timeout(Duration::from_secs(15), supplier.locate_file(&m, FileKind::BreakpadSym)).await });
                let ok = matches!(got, Ok(Ok(_)));
                drop(supplier);
                let reqs = server.finish();
                rep.evaluations += 1;
                rep.class(&format!("symfile:bad{}:cut{}:{}", bad_at, cut, if ok { "ok" } else { "err" }));
                if !tree(&tmp).is_empty() {
                    rep.mismatch("symfile:stray-temp", json!({"bad_at": bad_at, "cut": cut}));
                }
                let target = reqs.first().and_then(|l| l.split(' ').nth(1)).unwrap_or("?").to_string();
                let mut want = body.clone();
                want.extend_from_slice(format!("INFO URL http://127.0.0.1:{}{}\n", server.port, target).as_bytes());
                for (p, content) in tree(&cache) {
                    if *bad_at != 0 || *cut < 2 {
                        rep.mismatch(if *cut < 2 { "symfile:truncated-body-cached" } else { "symfile:unparsed-body-cached" }, json!({"bad_at": bad_at, "cut": cut, "path": p, "len": content.len()}));
                    } else if content != want {
                        rep.mismatch("symfile:entry-without-url-note", json!({"path": p, "len": content.len(), "want_len": want.len()}));
                    }
                }
            }
        }
        _ => {
            eprintln!("usage: replay_httpcache replay <tlc-out> <N> [concretisations] | hostile");
            std::process::exit(2);
        }
    }
    let _ = std::fs::remove_dir_all(format!("/dev/shm/verif-c16-{}", std::process::id()));
    rep.finish();
}

/// Compare what happened with the specification's terminal state.
async fn judge(case: &Case, n: usize, conc: Conc, obs: &Observed, root: &Path) -> (Vec<(String, Value)>, String) {
    let mut mm: Vec<(String, Value)> = Vec::new();
    let sandbox = root.join("sandbox");
    let cache = sandbox.join("cache");
    let tmp = tmp_dir_for(case, &sandbox);
    let class = format!("{}{}:{}", case.kind, if conc.via_file { "-via-locate_file" } else { "" }, case.pc);
    let (rel, pre_bytes): (String, &[u8]) = if case.kind == "sym" { (format!("lib.so/{}/lib.so.sym", DEBUG_ID), PRE_SYM.as_bytes()) } else { (format!("lib.so/{}/lib.so", DEBUG_ID), PRE_FILE) };
    if obs.hung {
        mm.push(("hang".into(), json!({})));
    }
    // result
    // asked for a path, a download that could not be cached has nothing to return
    let want_ok = matches!(case.pc.as_str(), "hit" | "ok_cached" | "ok_lost_race") || (matches!(case.pc.as_str(), "ok_uncached" | "ok_commit_failed") && !conc.via_file);
    let want_drop = case.pc == "dropped";
    if obs.dropped != want_drop || (!want_drop && obs.ok != want_ok) {
        mm.push(("result".into(), json!({"observed_ok": obs.ok, "observed_dropped": obs.dropped, "model": case.pc})));
    }
    // request log: a hit asks nobody; otherwise URLs are asked in order up to the one the model stopped at
    let idx = case.raw["idx"]["a"].as_u64().unwrap() as usize;
    for (i, r) in obs.requests.iter().enumerate() {
        let want = if case.pc == "hit" { 0 } else if i < idx { 1 } else { 0 };
        if r.len() != want {
            mm.push(("requests".into(), json!({"url": i + 1, "seen": r, "model_idx": idx})));
        }
    }
    // while a body was in flight the cache held nothing it did not hold before
    if !obs.alerts.is_empty() {
        mm.push(("partial-file-in-cache-during-download".into(), json!({"seen": obs.alerts})));
    }
    // tmp/: nothing may remain
    if case.tmp_ok {
        let t = tree(&tmp);
        if !t.is_empty() {
            mm.push(("stray-temp".into(), json!({"files": t.iter().map(|(p, c)| format!("{} ({} bytes)", p, c.len())).collect::<Vec<_>>()})));
        }
    } else if std::fs::read(&tmp).ok().as_deref() != Some(b"not a directory") {
        mm.push(("tmp-blocker-changed".into(), json!({})));
    }
    // nothing outside cache/ and tmp/
    for (p, _) in tree(root) {
        if !p.starts_with("sandbox/cache/") && !p.starts_with("sandbox/tmp/") && p != "sandbox/tmp" {
            mm.push(("file-outside-cache".into(), json!({"path": p})));
        }
    }
    // cache/: exactly what the model says
    let mut want: Vec<(String, Vec<u8>)> = Vec::new();
    let mut want_url: Option<String> = None;
    if case.cache_present {
        if case.cache_by == "pre" {
            want.push((rel.clone(), pre_bytes.to_vec()));
            want_url = Some("http://earlier.example/lib.so.sym".into());
        } else {
            let u = case.cache_url - 1;
            let mut content = obs.bodies[u].clone();
            if case.kind == "sym" {
                let target = obs.requests[u].first().and_then(|l| l.split(' ').nth(1)).unwrap_or("?").to_string();
                let url = format!("http://127.0.0.1:{}{}", obs.ports[u], target);
                content.extend_from_slice(format!("INFO URL {}\n", url).as_bytes());
                want_url = Some(url);
            }
            want.push((rel.clone(), content));
        }
    } else if !case.pre && !case.cache_ok {
        want.push(("lib.so".into(), b"in the way".to_vec()));
    }
    let have = tree(&cache);
    if have != want {
        let show = |t: &Vec<(String, Vec<u8>)>| t.iter().map(|(p, c)| json!({"path": p, "len": c.len(), "text": String::from_utf8_lossy(&c[..c.len().min(400)])})).collect::<Vec<_>>();
        let fp = if have.len() > want.len() { "cache-entry-unexpected" } else if have.len() < want.len() { "cache-entry-missing" } else { "cache-entry-content" };
        mm.push((fp.into(), json!({"have": show(&have), "want": show(&want)})));
    }
    // URL reported by the download itself
    if case.kind == "sym" && !conc.via_file && obs.ok && case.pc != "hit" {
        let u = idx - 1;
        let target = obs.requests.get(u).and_then(|r| r.first()).and_then(|l| l.split(' ').nth(1)).unwrap_or("?").to_string();
        let url = format!("http://127.0.0.1:{}{}", obs.ports[u], target);
        if obs.url.as_deref() != Some(url.as_str()) {
            mm.push(("download-url".into(), json!({"reported": obs.url, "requested": url})));
        }
    }
    if case.kind == "sym" && !conc.via_file && obs.ok && case.pc == "hit" && obs.url != want_url {
        mm.push(("hit-url".into(), json!({"reported": obs.url, "want": want_url})));
    }
    // offline second lookup: served from the cache alone
    let tmp2 = sandbox.join("tmp");
    let offline = HttpSymbolSupplier::new(vec![], cache.clone(), tmp2, vec![], Duration::from_secs(5));
    let m = module("lib.so", "lib.so");
    let entry_there = have.iter().any(|(p, _)| *p == rel);
    if case.kind == "sym" {
        match offline.locate_symbols(&m).await {
            Ok(r) => {
                if !entry_there {
                    mm.push(("offline-hit-without-entry".into(), json!({})));
                } else if obs.ok && !conc.via_file && format!("{:?}", sym_key(&r.symbols)) != obs.sym_debug {
                    mm.push(("offline-differs".into(), json!({"first": obs.sym_debug, "second": format!("{:?}", sym_key(&r.symbols))})));
                } else if r.symbols.url != want_url && want_url.is_some() {
                    mm.push(("offline-url".into(), json!({"second": r.symbols.url, "want": want_url})));
                }
            }
            Err(e) => {
                if entry_there {
                    mm.push(("offline-entry-unusable".into(), json!({"error": format!("{:?}", e)})));
                }
            }
        }
    } else {
        match offline.locate_file(&m, FileKind::Binary).await {
            Ok(p) => {
                if !entry_there {
                    mm.push(("offline-hit-without-entry".into(), json!({})));
                } else if obs.ok && obs.file_path.as_ref() != Some(&p) {
                    mm.push(("offline-differs".into(), json!({"first": obs.file_path, "second": p})));
                }
            }
            Err(_) => {
                if entry_there {
                    mm.push(("offline-entry-unusable".into(), json!({})));
                }
            }
        }
    }
    let _ = n;
    (mm, class)
}
