//! C19 binding, spec -> impl: every case of BitFlip.tla becomes a minidump (frozen writer): exception record,
//! memory-info regions with protections, and for the instruction-based scenarios an exception context whose rip
//! points at `mov rax,[rbx]` with rbx the examined value.  The real process_minidump's possible_bit_flips are
//! compared (as a set of addresses) with the specification's; every confidence must lie in [0, 1].
use minidump::Minidump;
use minidump_processor::process_minidump;
use minidump_unwind::{string_symbol_supplier, Symbolizer};
use serde_json::{json, Value};
use std::collections::{BTreeSet, HashMap};
use vharness::dumpgen::*;
use vharness::walk::block_on;
use vharness::{for_each_case, guarded, install_panic_capture, Report};

fn real_addr(a: &Value) -> u64 {
    let mut v = a["lo"].as_u64().unwrap();
    for b in a["hi"].as_array().unwrap() { v |= 1u64 << b.as_u64().unwrap(); }
    v
}

fn main() {
    install_panic_capture();
    let path = std::env::args().nth(1).unwrap();
    let mut rep = Report::new();
    let mut ncase = 0usize;
    for_each_case(&path, "CASE", |c| {
        ncase += 1;
        // every other case has a poison pattern (mozjemalloc's 0xe5) in a register the crashing instruction does not use: it lowers the
        // confidence of every candidate and must leave it inside [0, 1]
        let poison: Vec<(usize, u64)> = if ncase % 2 == 1 { vec![(240usize, 0xe5e5_e5e5_e5e5_e5e5)] } else { vec![] };
        let scen = c["scen"].as_str().unwrap();
        let cpu = c["cpu"].as_str().unwrap();
        let op = c["op"].as_str().unwrap();
        let examined = real_addr(&c["addr"]);
        let mut spec = DumpSpec { os: if scen == "addr" || scen == "reg" { "windows".into() } else { "linux".into() }, cpu: cpu.into(), ..DumpSpec::default() };
        spec.threads.push(ThreadSpec { id: 1, ctx_ok: true, name: None, ip: 0x7000_0000, sp: 0x10000, stack_base: 0x10000, stack: vec![0u8; 64] });
        for r in c["regions"].as_array().unwrap() {
            let prot = match r["p"].as_str().unwrap() { "noaccess" => 0x01, "ro" => 0x02, "rw" => 0x04, _ => 0x20 };
            let (base, size) = if r["k"] == "low" { let b = r["b"].as_u64().unwrap(); (b, r["e"].as_u64().unwrap() - b + 1) } else { (u64::MAX - 4095, 4096) };
            spec.memory_info.push(RegionSpec { base, size, protection: prot, state: 0x1000 });
        }
        let mut info = [0u64; 15];
        let exc = if scen == "addr" {
            match op {
                "other" => ExcSpec { tid: 1, code: 0xC000_001D, address: examined, nparams: 0, ..ExcSpec::default() },
                _ => { info[0] = match op { "read" => 0, "write" => 1, _ => 8 }; info[1] = examined;
                       ExcSpec { tid: 1, code: 0xC000_0005, address: 0x7000_0000, nparams: 2, info, ..ExcSpec::default() } }
            }
        } else if scen == "reg" {
            // Windows access violation of a known kind with the instruction in the dump: mov al,[rbx+0x10] (read) or mov [rbx+0x10],al (write);
            // the crash address is rbx + 16 and rbx itself is examined under the same access kind
            let opc = if op == "read" { 0x8a } else { 0x88 };
            spec.extra_memory.push((0x7000_0000, vec![opc, 0x43, 0x10, 0x90, 0x90, 0x90, 0x90, 0x90, 0x90, 0x90, 0x90, 0x90, 0x90, 0x90, 0x90, 0x90]));
            info[0] = if op == "read" { 0 } else { 1 };
            info[1] = examined + 16;
            ExcSpec { tid: 1, has_ctx: true, ctx_ok: true, ctx_ip: 0x7000_0000, ctx_sp: 0x10000, code: 0xC000_0005, flags: 0, address: 0x7000_0000, nparams: 2, info, ctx_patch: { let mut p = vec![(144usize, examined)]; p.extend(poison.iter().cloned()); p } }
        } else {
            // Linux SIGSEGV / SI_KERNEL at address 0: a general-protection fault; the instruction at rip is `mov rax, [rbx]`
            spec.extra_memory.push((0x7000_0000, vec![0x48, 0x8b, 0x03, 0x90, 0x90, 0x90, 0x90, 0x90, 0x90, 0x90, 0x90, 0x90, 0x90, 0x90, 0x90, 0x90]));
            ExcSpec { tid: 1, has_ctx: true, ctx_ok: true, ctx_ip: 0x7000_0000, ctx_sp: 0x10000, code: 11, flags: 0x80, address: 0, nparams: 0, info, ctx_patch: {
                // rbx = the examined value; every other general-purpose register holds a pointer into the first low region, so the
                // "nearby registers" heuristic of the confidence is saturated
                let mut p = vec![(144usize, examined)];
                for off in [120usize, 128, 136, 160, 168, 176, 184, 192, 200, 208, 216, 224, 232, 240] { p.push((off, 0x10010)); }
                p.extend(poison.iter().cloned());
                p } }
        };
        spec.exception = Some(exc);
        let bytes = build(&spec);
        rep.evaluations += 1;
        rep.class(&format!("scenario:{}", scen));
        let res = guarded(|| {
            let dump = Minidump::read(&bytes[..]).map_err(|e| format!("read: {:?}", e))?;
            let provider = Symbolizer::new(string_symbol_supplier(HashMap::new()));
            block_on(Box::pin(process_minidump(&dump, &provider))).map_err(|e| format!("process: {:?}", e))
        });
        let state = match res {
            Ok(Ok(s)) => s,
            Ok(Err(e)) => { rep.mismatch("bitflip:error", json!({"case": c, "error": e})); return; }
            Err(p) => { rep.mismatch(&format!("bitflip:panic:{}", p), json!({"case": c})); return; }
        };
        let info = match &state.exception_info { Some(i) => i, None => { rep.mismatch("bitflip:no-exception-info", json!({"case": c})); return; } };
        let got: BTreeSet<u64> = info.possible_bit_flips.iter().map(|f| f.address.0).collect();
        let want: BTreeSet<u64> = c["flips"].as_array().unwrap().iter().map(real_addr).collect();
        let bad_conf: Vec<f32> = info.possible_bit_flips.iter().filter_map(|f| f.confidence).filter(|c| !(0.0..=1.0).contains(c)).collect();
        if !want.is_empty() { rep.class("has-flips"); rep.nontrivial(&c.to_string()); }
        // the scenario must have been recognised the way the specification assumes (otherwise the case is vacuous)
        if scen == "gpf" && !matches!(info.adjusted_address, Some(minidump_processor::AdjustedAddress::NonCanonical(_))) {
            rep.mismatch("bitflip:scenario-not-recognised", json!({"case": c, "adjusted": format!("{:?}", info.adjusted_address), "reason": info.reason.to_string()})); return;
        }
        if scen == "reg" && !info.possible_bit_flips.iter().any(|f| f.source_register.is_some()) && !want.is_empty()
            && c["flips"].as_array().unwrap().iter().map(real_addr).any(|a| (a ^ examined).count_ones() == 1) {
            rep.mismatch("bitflip:scenario-not-recognised", json!({"case": c, "what": "no register-derived candidate although the specification has one"})); return;
        }
        if scen == "null" && !matches!(info.adjusted_address, Some(minidump_processor::AdjustedAddress::NullPointerWithOffset(_))) {
            rep.mismatch("bitflip:scenario-not-recognised", json!({"case": c, "adjusted": format!("{:?}", info.adjusted_address)})); return;
        }
        if got != want {
            let extra: Vec<String> = got.difference(&want).map(|a| format!("{:#x}", a)).collect();
            let missing: Vec<String> = want.difference(&got).map(|a| format!("{:#x}", a)).collect();
            let kind = if !extra.is_empty() { "bitflip:unexpected-candidate" } else { "bitflip:missing-candidate" };
            rep.mismatch(&format!("{}:{}", kind, scen), json!({"scenario": scen, "cpu": cpu, "op": op, "examined": format!("{:#x}", examined), "regions": c["regions"], "unexpected": extra, "missing": missing}));
        } else if !bad_conf.is_empty() {
            rep.mismatch("bitflip:confidence-out-of-range", json!({"examined": format!("{:#x}", examined), "confidences": bad_conf}));
        } else if !want.is_empty() {
            rep.sample(json!({"scenario": scen, "cpu": cpu, "op": op, "examined": format!("{:#x}", examined), "flips": want.iter().map(|a| format!("{:#x}", a)).collect::<Vec<_>>()}));
        }
    });
    rep.finish();
}
