//! C07 binding, spec -> impl: every case emitted by TLC from WinEval.tla (frame-data program
//! strings) and WinFpo.tla (FPO records) is rendered as a STACK WIN line, parsed by the real
//! parser and unwound by the real SymbolFile::walk_frame against a mock FrameWalker that obeys
//! the FrameWalker contract the way minidump-unwind's CfiStackWalker does (caller registers start
//! out as the forwarded callee-saved set; clear removes by exact name; 32-bit registers reject
//! values above u32::MAX).
use breakpad_symbols::{FrameWalker, SimpleModule, SymbolFile};
use serde_json::{json, Value};
use std::collections::{BTreeMap, BTreeSet};
use vharness::{for_each_case, from_limbs, guarded, install_panic_capture, Report};

struct Mock {
    instruction: u64,
    has_gc: bool,
    gc: u32,
    callee: BTreeMap<&'static str, u64>,
    mem: fn(u64) -> Option<u64>,
    caller_vals: BTreeMap<String, u64>,
    caller_valid: BTreeSet<String>,
}
const X86_REGS: [&str; 9] = ["eip", "esp", "ebp", "ebx", "esi", "edi", "eax", "ecx", "edx"];
impl FrameWalker for Mock {
    fn get_instruction(&self) -> u64 { self.instruction }
    fn has_grand_callee(&self) -> bool { self.has_gc }
    fn get_grand_callee_parameter_size(&self) -> u32 { self.gc }
    fn get_register_at_address(&self, a: u64) -> Option<u64> { (self.mem)(a) }
    fn get_callee_register(&self, name: &str) -> Option<u64> { self.callee.get(name).copied() }
    fn set_caller_register(&mut self, name: &str, val: u64) -> Option<()> {
        if !X86_REGS.contains(&name) || val > u32::MAX as u64 {
            return None;
        }
        self.caller_vals.insert(name.to_string(), val);
        self.caller_valid.insert(name.to_string());
        Some(())
    }
    fn clear_caller_register(&mut self, name: &str) { self.caller_valid.remove(name); }
    fn set_cfa(&mut self, v: u64) -> Option<()> { self.set_caller_register("esp", v) }
    fn set_ra(&mut self, v: u64) -> Option<()> { self.set_caller_register("eip", v) }
}

fn mem_eval(a: u64) -> Option<u64> {
    match a {
        4096 => Some(0x40001234),
        4108 => Some(0x40003333),
        4112 => Some(4128),
        4116 => Some(0x40002222),
        4120 => Some(0x40004444),
        4 => Some(0x40005555),
        _ => None,
    }
}
fn mem_fpo(a: u64) -> Option<u64> {
    if ((4096..=4196).contains(&a) || a <= 16) && a % 4 == 0 { Some(0x40000000 + a) } else { None }
}

struct Inst { esp: u32, ebp: u32, ebx: Option<u32>, has_gc: bool, gc: u32, params: u32, saved: u32, locals: u32 }
fn inst(name: &str) -> Inst {
    let n = Inst { esp: 4096, ebp: 4112, ebx: Some(7), has_gc: false, gc: 0, params: 16, saved: 4, locals: 8 };
    match name {
        "normal" => n,
        "noebx" => Inst { ebx: None, ..n },
        "grand" => Inst { has_gc: true, gc: 12, ..n },
        "espwrap" => Inst { esp: 0xfffffff0, locals: 32, ..n },
        "bigloc" => Inst { locals: 0xffffffff, ..n },
        "ebpwrap" => Inst { ebp: 0xfffffffe, ..n },
        "lowesp" => Inst { esp: 4, params: 0, saved: 0, locals: 0, ..n },
        _ => panic!("unknown instance {}", name),
    }
}
fn spell(t: &str) -> &str {
    match t { "l4" => "4", "lm1" => "-1", "l8" => "8", "l0" => "0", "l3" => "3", "lmin" => "-2147483648", "lbig" => "4294967296", "=l4" => "=4", o => o }
}
fn val(name: &str) -> u32 {
    match name { "h7" => 0x7fffffff, "h8" => 0x80000000, "ff" => 0xffffffff, "top8" => 0xfffffff8, "nogc" => 0,
                 v => v.strip_prefix('v').unwrap().parse().unwrap() }
}

/// Run one unwind; returns the observed outcome as JSON {ok, regs:{name:val}, valid:[..]} / {panic}
fn observe(sym: &str, mut w: Mock) -> Value {
    match guarded(|| {
        let symf = match SymbolFile::from_bytes(sym.as_bytes()) {
            Ok(s) => s,
            Err(e) => return json!({"parse_error": format!("{:?}", e)}),
        };
        let module = SimpleModule { base_address: Some(0), size: Some(0x100000), ..SimpleModule::default() };
        match symf.walk_frame(&module, &mut w) {
            None => json!({"ok": false}),
            Some(()) => {
                let regs: BTreeMap<String, u64> = w.caller_valid.iter().map(|r| (r.clone(), *w.caller_vals.get(r).unwrap_or(&0xdead_0000_0000))).collect();
                json!({"ok": true, "regs": regs})
            }
        }
    }) {
        Ok(v) => v,
        Err(p) => json!({"panic": p}),
    }
}

fn classify(exp: &Value, got: &Value, kind: &str, fwd: &BTreeMap<String, u64>) -> String {
    if let Some(p) = got.get("panic") {
        return format!("{}-panic:{}", kind, p.as_str().unwrap_or(""));
    }
    if exp["ok"] == json!(true) && got["ok"] == json!(true) {
        let e = exp["regs"].as_object().unwrap();
        let g = got["regs"].as_object().unwrap();
        let extra: Vec<&String> = g.keys().filter(|k| !e.contains_key(*k)).collect();
        let same_on_expected = e.iter().all(|(k, v)| g.get(k) == Some(v));
        // the known defect: registers forwarded by default (with the callee's values) survive the record
        let extras_are_forwarded = extra.iter().all(|k| fwd.get(*k).map(|v| json!(v)) == g.get(*k).cloned());
        if same_on_expected && !extra.is_empty() && extras_are_forwarded {
            return format!("{}-unset-register-still-valid", kind);
        }
    }
    format!("{}-result", kind)
}

fn main() {
    install_panic_capture();
    let args: Vec<String> = std::env::args().collect();
    let (mode, path) = (args[1].as_str(), args[2].as_str());
    let mut rep = Report::new();
    // callee-saved registers forwarded by default, all known in the callee here
    let forwarded = ["ebp", "ebx", "esi", "edi"];
    match mode {
        "eval" => for_each_case(path, "CASE", |c| {
            let prog: Vec<&str> = c["prog"].as_array().unwrap().iter().map(|t| spell(t.as_str().unwrap())).collect();
            if prog.is_empty() {
                return;
            }
            let iname = c["inst"].as_str().unwrap();
            let i = inst(iname);
            let sym = format!("MODULE windows x86 000 m\nSTACK WIN 4 1000 100 0 0 {:x} {:x} {:x} 0 1 {}\n", i.params, i.saved, i.locals, prog.join(" "));
            let mut callee: BTreeMap<&'static str, u64> = BTreeMap::new();
            callee.insert("esp", i.esp as u64);
            callee.insert("ebp", i.ebp as u64);
            callee.insert("eip", 0x1010);
            callee.insert("esi", 0x51);
            callee.insert("edi", 0xd1);
            if let Some(b) = i.ebx { callee.insert("ebx", b as u64); }
            let mut w = Mock { instruction: 0x1010, has_gc: i.has_gc, gc: i.gc, callee, mem: mem_eval, caller_vals: BTreeMap::new(), caller_valid: BTreeSet::new() };
            for r in forwarded { if let Some(v) = w.callee.get(r).copied() { w.caller_vals.insert(r.to_string(), v); w.caller_valid.insert(r.to_string()); } }
            let exp = if c["res"]["ok"].as_bool().unwrap() {
                let regs: BTreeMap<String, u64> = c["res"]["regs"].as_object().map(|o| o.iter().map(|(k, v)| (k[1..].to_string(), from_limbs(v).unwrap())).collect()).unwrap_or_default();
                rep.class("eval_ok");
                rep.nontrivial(&(iname.to_string(), prog.join(" ")));
                json!({"ok": true, "regs": regs})
            } else {
                rep.class("eval_fails");
                json!({"ok": false})
            };
            rep.class(&format!("inst:{}", iname));
            let fwd: BTreeMap<String, u64> = w.caller_vals.clone();
            // the same unwind through a FrameWalker that forwards nothing by default: what the record itself sets, nothing else
            let clean = Mock { instruction: 0x1010, has_gc: w.has_gc, gc: w.gc, callee: w.callee.clone(), mem: mem_eval, caller_vals: BTreeMap::new(), caller_valid: BTreeSet::new() };
            let got = observe(&sym, w);
            rep.evaluations += 1;
            if got != exp {
                rep.mismatch(&classify(&exp, &got, "win-framedata", &fwd), json!({"symbols": sym, "instance": iname, "expected": exp, "observed": got}));
            } else if exp["ok"] == json!(true) && prog.len() >= 3 {
                rep.sample(json!({"symbols": sym, "instance": iname, "expected": exp}));
            }
            let got_clean = observe(&sym, clean);
            rep.evaluations += 1;
            rep.class("clean-walker");
            if got_clean != exp {
                rep.mismatch(&classify(&exp, &got_clean, "win-framedata-cleanwalker", &BTreeMap::new()), json!({"symbols": sym, "instance": iname, "expected": exp, "observed": got_clean}));
            }
            // the same frame-data record with an FPO record covering the same address: frame data is preferred, and a failing
            // program is not rescued by the FPO record
            let sym2 = format!("{}STACK WIN 0 1000 100 0 0 0 8 0 0 0 1\n", sym);
            let both = Mock { instruction: 0x1010, has_gc: i.has_gc, gc: i.gc, callee: { let mut cm: BTreeMap<&'static str, u64> = BTreeMap::new(); cm.insert("esp", i.esp as u64); cm.insert("ebp", i.ebp as u64); cm.insert("eip", 0x1010); cm.insert("esi", 0x51); cm.insert("edi", 0xd1); if let Some(b) = i.ebx { cm.insert("ebx", b as u64); } cm },
                              mem: mem_eval, caller_vals: BTreeMap::new(), caller_valid: BTreeSet::new() };
            let got_both = observe(&sym2, both);
            rep.evaluations += 1;
            rep.class("framedata+fpo");
            if got_both != exp {
                rep.mismatch(&classify(&exp, &got_both, "win-framedata-with-fpo-record", &BTreeMap::new()), json!({"symbols": sym2, "instance": iname, "expected": exp, "observed": got_both}));
            }
        }),
        "fpo" => for_each_case(path, "CASE", |c| {
            let cfg = &c["cfg"];
            let g = |k: &str| cfg[k].as_str().unwrap();
            let b = |k: &str| cfg[k].as_bool().unwrap();
            let (esp, saved, locals) = (val(g("esp")), val(g("saved")), val(g("locals")));
            let has_gc = g("gc") != "nogc";
            let gc = val(g("gc"));
            let sym = format!("MODULE windows x86 000 m\nSTACK WIN 0 1000 100 0 0 0 {:x} {:x} 0 0 {}\n", saved, locals, if b("allocBp") { 1 } else { 0 });
            let mut callee: BTreeMap<&'static str, u64> = BTreeMap::new();
            callee.insert("esp", esp as u64);
            callee.insert("eip", from_limbs(&c["eip"]).unwrap());
            callee.insert("esi", 0x51);
            callee.insert("edi", 0xd1);
            if b("ebpKnown") { callee.insert("ebp", 4160); }
            if b("ebxKnown") { callee.insert("ebx", 7); }
            let mut w = Mock { instruction: 0x1010, has_gc, gc, callee, mem: mem_fpo, caller_vals: BTreeMap::new(), caller_valid: BTreeSet::new() };
            for r in forwarded { if let Some(v) = w.callee.get(r).copied() { w.caller_vals.insert(r.to_string(), v); w.caller_valid.insert(r.to_string()); } }
            let exp = if c["out"]["ok"].as_bool().unwrap() {
                let regs: BTreeMap<String, u64> = c["out"]["regs"].as_object().unwrap().iter().map(|(k, v)| (k.clone(), from_limbs(v).unwrap())).collect();
                rep.class(if b("allocBp") { "fpo_ok_bp" } else { "fpo_ok_passthrough" });
                if b("leftover") && !has_gc { rep.class("fpo_ok_leftover_skip"); }
                rep.nontrivial(&cfg.to_string());
                json!({"ok": true, "regs": regs})
            } else {
                rep.class("fpo_fails");
                json!({"ok": false})
            };
            let fwd: BTreeMap<String, u64> = w.caller_vals.clone();
            let clean = Mock { instruction: 0x1010, has_gc: w.has_gc, gc: w.gc, callee: w.callee.clone(), mem: mem_fpo, caller_vals: BTreeMap::new(), caller_valid: BTreeSet::new() };
            let got = observe(&sym, w);
            rep.evaluations += 1;
            if got != exp {
                rep.mismatch(&classify(&exp, &got, "win-fpo", &fwd), json!({"symbols": sym, "cfg": cfg, "expected": exp, "observed": got}));
            } else if exp["ok"] == json!(true) {
                rep.sample(json!({"symbols": sym, "cfg": cfg, "expected": exp}));
            }
            let got_clean = observe(&sym, clean);
            rep.evaluations += 1;
            rep.class("clean-walker");
            if got_clean != exp {
                rep.mismatch(&classify(&exp, &got_clean, "win-fpo-cleanwalker", &BTreeMap::new()), json!({"symbols": sym, "cfg": cfg, "expected": exp, "observed": got_clean}));
            }
        }),
        _ => panic!("mode"),
    }
    rep.finish();
}
