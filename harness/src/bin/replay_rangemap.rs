//! C08 binding, spec -> impl: every entry sequence enumerated by TLC from RangeMap.tla is built into each
//! kind of real table; listing and look-ups are compared with the specification's table.  Cases that differ
//! are written as observation records for Trace_RangeMap.tla, which decides (with the C08 predicates on the
//! real output) whether the difference is a violation or only drift.
use serde_json::{json, Value};
use std::io::Write;
use vharness::rm::{fits, obs_json, observe, Entry, Obs, BINDINGS};
use vharness::{for_each_case, install_panic_capture, Report};

fn main() {
    install_panic_capture();
    let args: Vec<String> = std::env::args().collect();
    let path = &args[1];
    let maxv: u64 = args[2].parse().unwrap();
    let mut pending = std::io::BufWriter::new(std::fs::File::create(&args[3]).unwrap());
    let only: Option<Vec<String>> = args.get(4).map(|s| s.split(',').map(|x| x.to_string()).collect());
    let real = |a: u64| if a + 2 <= maxv { a } else { u64::MAX - (maxv - a) };
    let probes: Vec<u64> = (0..=maxv).map(real).collect();
    let mut rep = Report::new();
    let mut npending = 0u64;
    for_each_case(path, "CASE", |c| {
        let input = c["input"].as_array().unwrap();
        let seq = |k: &str| -> Vec<(u64, u64, u64)> {
            c[k].as_array().unwrap().iter().map(|x| (real(x["s"].as_u64().unwrap()), real(x["e"].as_u64().unwrap()), x["v"].as_u64().unwrap())).collect()
        };
        let (given, byidx, win, unls) = (seq("given"), seq("byidx"), seq("win"), seq("unlsorted"));
        let lookup = |tbl: &[(u64, u64, u64)], a: u64| -> Vec<u64> { tbl.iter().filter(|t| t.0 <= a && a <= t.1).map(|t| t.2).collect() };
        for b in BINDINGS {
            if let Some(o) = &only { if !o.iter().any(|x| x == b) { continue; } }
            let entries: Vec<Entry> = input.iter().enumerate().map(|(i, e)| Entry {
                base: real(e["b"].as_u64().unwrap()), size: e["s"].as_u64().unwrap(),
                val: if b == "trait" { e["v"].as_u64().unwrap() } else { i as u64 + 1 },
            }).collect();
            if !fits(b, &entries) { continue; }
            let o = observe(b, &entries, &probes);
            rep.evaluations += 1;
            rep.class(b);
            let table: &[(u64, u64, u64)] = match b { "trait" => &given, "win_fd" | "win_fpo" => &win, "unloaded" => &unls, _ => &byidx };
            let mut exp = Obs { listing: table.to_vec(), multi: b == "unloaded", ..Obs::default() };
            for (i, &a) in probes.iter().enumerate() {
                let hits = if b == "unloaded" {
                    c["unl"][i.to_string()].as_array().unwrap().iter().map(|v| v.as_u64().unwrap()).collect()
                } else { lookup(table, a) };
                exp.probes.push((a, hits));
            }
            let got_listing: Vec<(u64, u64, u64)> = if o.listing_bs {
                o.listing.iter().map(|&(base, size, v)| (base, base.wrapping_add(size).wrapping_sub(1), v)).collect()
            } else { o.listing.clone() };
            let same = o.panic.is_none() && got_listing == exp.listing && o.probes == exp.probes;
            if table.len() >= 2 { rep.nontrivial(&(b, c["input"].to_string())); }
            if !same {
                npending += 1;
                rep.class(&format!("differs:{}", b));
                let mut rec = obs_json(b, &entries, &o);
                rec["model_listing"] = json!(exp.listing.iter().map(|t| json!([t.0.to_string(), t.1.to_string(), t.2])).collect::<Vec<Value>>());
                writeln!(pending, "{}", rec).unwrap();
            } else if table.len() >= 2 && rep.samples.len() < 6 && b != "trait" {
                rep.sample(json!({"binding": b, "entries": entries.iter().map(|e| json!([format!("{:#x}", e.base), e.size, e.val])).collect::<Vec<Value>>(),
                                  "table": got_listing.iter().map(|t| json!([format!("{:#x}", t.0), format!("{:#x}", t.1), t.2])).collect::<Vec<Value>>()}));
            }
        }
    });
    pending.flush().unwrap();
    rep.classes.insert("pending_for_monitors".into(), npending);
    rep.finish();
}
