//! C12 binding.
//! G (spec -> impl): every complete behaviour TLC emits from SymbolCache.tla is a sequence of `poll t` / `open t`
//!   steps; a hand-written executor polls exactly the named task of the real `Symbolizer` (mock supplier whose
//!   `locate_symbols` awaits a harness-controlled gate) and after EVERY step compares pending_stats and the number
//!   of observations per task with the specification state; at the end the observed results, supplier call counts
//!   and counters.
//! V (impl -> spec): the same scripts under a seeded random *strict* executor (polls only tasks whose waker fired;
//!   ending with unfinished tasks and no wake-up pending is a lost wake-up / deadlock) and under a multi-thread tokio
//!   runtime; one summary record per run for Trace_SymbolCache.tla.
use async_trait::async_trait;
use breakpad_symbols::{FileError, FileKind, FrameSymbolizer, LocateSymbolsResult, Module, SimpleFrame, SimpleModule, SymbolError, SymbolFile, SymbolSupplier, Symbolizer};
use debugid::{CodeId, DebugId};
use rand::rngs::StdRng;
use rand::{Rng, SeedableRng};
use serde_json::{json, Value};
use std::collections::{BTreeMap, HashMap};
use std::future::Future;
use std::path::PathBuf;
use std::pin::Pin;
use std::str::FromStr;
use std::sync::atomic::{AtomicBool, AtomicUsize, Ordering};
use std::sync::{Arc, Mutex};
use std::task::{Context, Poll, Wake, Waker};
use vharness::{for_each_case, guarded, install_panic_capture, Report};

struct Shared {
    cur: Mutex<String>,
    gates: Mutex<HashMap<String, Arc<AtomicUsize>>>, // task -> gate of the supplier call it is running
    gate_of_key: Mutex<HashMap<String, Arc<AtomicUsize>>>,
    calls: Mutex<BTreeMap<String, u64>>,
    susp: HashMap<String, usize>,
    ans: HashMap<String, String>,
    auto_open: AtomicBool, // V mode: gates open by themselves after being polled
}
struct Gate(Arc<AtomicUsize>, bool);
impl Future for Gate {
    type Output = ();
    fn poll(self: Pin<&mut Self>, cx: &mut Context<'_>) -> Poll<()> {
        if self.0.load(Ordering::SeqCst) == 0 {
            Poll::Ready(())
        } else {
            if self.1 {
                // V mode: each pending poll uses up one suspension and asks to be polled again
                self.0.fetch_sub(1, Ordering::SeqCst);
                cx.waker().wake_by_ref();
            }
            Poll::Pending
        }
    }
}
struct Mock(Arc<Shared>);

/// The module of a key.  Two identity mappings (VERIF_IDMAP):
///   "ids"  (default): k2 and k3 differ from k1 in exactly one identifier (age of the debug id / code id), same file names;
///   "dirs": no identifiers at all; the keys are three different libraries that share a leaf name and differ only in
///           the directory of their code file.
fn dirs_mapping() -> bool {
    std::env::var("VERIF_IDMAP").map(|v| v == "dirs").unwrap_or(false)
}
fn module_of(key: &str) -> SimpleModule {
    if dirs_mapping() {
        let dir = match key { "k1" => "/system/lib64", "k2" => "/vendor/lib64", _ => "/opt/x" };
        return SimpleModule { base_address: Some(0x1000), size: Some(0x1000), code_file: Some(format!("{}/lib.so", dir)), code_identifier: None, debug_file: None, debug_id: None, version: None };
    }
    let guid = "0123456789ABCDEF0123456789ABCDEF";
    let (age, code_id) = match key { "k1" => ("0", "5a5a5a5a1000"), "k2" => ("1", "5a5a5a5a1000"), _ => ("0", "5a5a5a5a2000") };
    SimpleModule { base_address: Some(0x1000), size: Some(0x1000), code_file: Some("lib.so".into()), code_identifier: Some(CodeId::from_str(code_id).unwrap()),
                   debug_file: Some("lib.pdb".into()), debug_id: Some(DebugId::from_breakpad(&format!("{}{}", guid, age)).unwrap()), version: None }
}
fn key_of(module: &(dyn Module + Sync)) -> String {
    if dirs_mapping() {
        let f = module.code_file().to_string();
        return if f.starts_with("/system") { "k1".into() } else if f.starts_with("/vendor") { "k2".into() } else { "k3".into() };
    }
    let age = module.debug_identifier().map(|d| d.appendix()).unwrap_or(0);
    let cid = module.code_identifier().map(|c| c.to_string()).unwrap_or_default();
    if age == 1 { "k2".into() } else if cid.ends_with("2000") { "k3".into() } else { "k1".into() }
}

#[async_trait]
impl SymbolSupplier for Mock {
    async fn locate_symbols(&self, module: &(dyn Module + Sync)) -> Result<LocateSymbolsResult, SymbolError> {
        let k = key_of(module);
        *self.0.calls.lock().unwrap().entry(k.clone()).or_insert(0) += 1;
        let g = Arc::new(AtomicUsize::new(*self.0.susp.get(&k).unwrap_or(&0)));
        let cur = self.0.cur.lock().unwrap().clone();
        self.0.gates.lock().unwrap().insert(cur, g.clone());
        self.0.gate_of_key.lock().unwrap().insert(k.clone(), g.clone());
        Gate(g, self.0.auto_open.load(Ordering::SeqCst)).await;
        match self.0.ans[&k].as_str() {
            "Ok" => Ok(LocateSymbolsResult {
                symbols: SymbolFile::from_bytes(format!("MODULE Linux x86 000 m\nFUNC 10 30 0 f_{}\n", k).as_bytes()).unwrap(),
                extra_debug_info: None,
            }),
            "NotFound" => Err(SymbolError::NotFound),
            "ParseErr" => Err(SymbolError::ParseError("scripted", 1)),
            _ => Err(SymbolError::LoadError(std::io::Error::other("scripted"))),
        }
    }
    async fn locate_file(&self, _m: &(dyn Module + Sync), _k: FileKind) -> Result<PathBuf, FileError> {
        Err(FileError::NotFound)
    }
}

struct Flag(AtomicBool);
impl Wake for Flag {
    fn wake(self: Arc<Self>) { self.0.store(true, Ordering::SeqCst); }
    fn wake_by_ref(self: &Arc<Self>) { self.0.store(true, Ordering::SeqCst); }
}

type Seen = Arc<Mutex<BTreeMap<String, Vec<(String, String)>>>>;

/// One task: its script of keys; each lookup goes through Symbolizer::fill_symbol and records what it observed.
fn task_future<'a>(sym: &'a Symbolizer, name: String, script: Vec<String>, seen: Seen) -> Pin<Box<dyn Future<Output = ()> + Send + 'a>> {
    Box::pin(async move {
        for k in script {
            let module = module_of(&k);
            let mut frame = SimpleFrame::with_instruction(0x1010 + 0x10);
            let r = sym.fill_symbol(&module, &mut frame).await;
            // what this requester observed: the outcome class, and for Ok the function of *its* module's symbols
            let obs = match r {
                Ok(()) => match &frame.function { Some(f) => format!("Ok:{}", f), None => "Ok:?".into() },
                Err(_) => "Err".into(),
            };
            let _ = frame.get_instruction();
            seen.lock().unwrap().entry(name.clone()).or_default().push((k.clone(), obs));
        }
    })
}

fn expected_obs(k: &str, ans: &str) -> String {
    if ans == "Ok" { format!("Ok:f_{}", k) } else { "Err".into() }
}

struct Cfg { scripts: BTreeMap<String, Vec<String>>, susp: HashMap<String, usize>, ans: HashMap<String, String> }
fn parse_cfg(c: &Value) -> Cfg {
    let scripts = c["script"].as_object().unwrap().iter().map(|(t, s)| (t.clone(), s.as_array().unwrap().iter().map(|k| k.as_str().unwrap().to_string()).collect())).collect();
    let susp = c["susp"].as_object().unwrap().iter().map(|(k, v)| (k.clone(), v.as_u64().unwrap() as usize)).collect();
    let ans = c["ans"].as_object().unwrap().iter().map(|(k, v)| (k.clone(), v.as_str().unwrap().to_string())).collect();
    Cfg { scripts, susp, ans }
}

fn replay_behaviour(c: &Value, rep: &mut Report) {
    let cfg = parse_cfg(&c["cfg"]);
    let shared = Arc::new(Shared { cur: Mutex::new(String::new()), gates: Mutex::default(), gate_of_key: Mutex::default(), calls: Mutex::default(),
                                   susp: cfg.susp.clone(), ans: cfg.ans.clone(), auto_open: AtomicBool::new(false) });
    let sym = Symbolizer::new(Mock(shared.clone()));
    let seen: Seen = Arc::new(Mutex::new(BTreeMap::new()));
    let mut futs: BTreeMap<String, Option<Pin<Box<dyn Future<Output = ()> + Send + '_>>>> = BTreeMap::new();
    for (t, s) in &cfg.scripts {
        futs.insert(t.clone(), if s.is_empty() { None } else { Some(task_future(&sym, t.clone(), s.clone(), seen.clone())) });
    }
    let flag = Arc::new(Flag(AtomicBool::new(false)));
    let waker = Waker::from(flag.clone());
    let mut cx = Context::from_waker(&waker);
    let mut fail: Option<(String, Value)> = None;
    for (i, st) in c["hist"].as_array().unwrap().iter().enumerate() {
        let t = st["t"].as_str().unwrap().to_string();
        if st["a"] == "poll" {
            *shared.cur.lock().unwrap() = t.clone();
            if let Some(slot) = futs.get_mut(&t) {
                if let Some(f) = slot.as_mut() {
                    match guarded(|| f.as_mut().poll(&mut cx)) {
                        Ok(Poll::Ready(())) => { *slot = None; }
                        Ok(Poll::Pending) => {}
                        Err(p) => { fail = Some(("symcache:panic".into(), json!({"step": i, "panic": p}))); break; }
                    }
                }
            }
        } else {
            match shared.gates.lock().unwrap().get(&t) {
                Some(g) if g.load(Ordering::SeqCst) > 0 => { g.fetch_sub(1, Ordering::SeqCst); }
                _ => { fail = Some(("symcache:gate".into(), json!({"step": i, "what": "the model opens a supplier gate the real task is not waiting on"}))); break; }
            }
        }
        let ps = sym.pending_stats();
        let nseen: BTreeMap<String, usize> = cfg.scripts.keys().map(|t| (t.clone(), seen.lock().unwrap().get(t).map(|v| v.len()).unwrap_or(0))).collect();
        let exp_nseen: BTreeMap<String, usize> = st["nseen"].as_object().unwrap().iter().map(|(k, v)| (k.clone(), v.as_u64().unwrap() as usize)).collect();
        if ps.symbols_requested != st["req"].as_u64().unwrap() || ps.symbols_processed != st["proc"].as_u64().unwrap() || nseen != exp_nseen {
            let calls = shared.calls.lock().unwrap().clone();
            let kind = if calls.values().any(|&n| n > 1) { "symcache:supplier-asked-twice" } else if ps.symbols_requested != st["req"].as_u64().unwrap() || ps.symbols_processed != st["proc"].as_u64().unwrap() { "symcache:counters" } else { "symcache:progress" };
            fail = Some((kind.into(), json!({"step": i, "action": st, "observed": {"requested": ps.symbols_requested, "processed": ps.symbols_processed, "nseen": nseen, "calls": calls}})));
            break;
        }
    }
    if fail.is_none() {
        // final state
        let calls = shared.calls.lock().unwrap().clone();
        let exp_calls: BTreeMap<String, u64> = c["calls"].as_object().unwrap().iter().filter(|(_, v)| v.as_u64().unwrap() > 0).map(|(k, v)| (k.clone(), v.as_u64().unwrap())).collect();
        let got_seen = seen.lock().unwrap().clone();
        let mut exp_seen: BTreeMap<String, Vec<(String, String)>> = BTreeMap::new();
        for (t, v) in c["seen"].as_object().unwrap() {
            let l: Vec<(String, String)> = v.as_array().unwrap().iter().map(|p| { let k = p[0].as_str().unwrap(); (k.to_string(), expected_obs(k, p[1].as_str().unwrap())) }).collect();
            if !l.is_empty() { exp_seen.insert(t.clone(), l); }
        }
        let ps = sym.pending_stats();
        if calls.values().any(|&n| n > 1) { fail = Some(("symcache:supplier-asked-twice".into(), json!({"calls": calls}))); }
        else if calls != exp_calls { fail = Some(("symcache:calls".into(), json!({"expected": exp_calls, "observed": calls}))); }
        else if got_seen != exp_seen { fail = Some(("symcache:outcome".into(), json!({"expected": exp_seen, "observed": got_seen}))); }
        else if ps.symbols_requested != c["requested"].as_u64().unwrap() || ps.symbols_processed != c["processed"].as_u64().unwrap() { fail = Some(("symcache:counters".into(), json!({"requested": ps.symbols_requested, "processed": ps.symbols_processed}))); }
        else if futs.values().any(|f| f.is_some()) { fail = Some(("symcache:not-finished".into(), json!({"what": "model says all tasks are done, a real task is still pending"}))); }
        else if sym.stats().len() != 1 && !calls.is_empty() { /* stats are keyed by file name: all keys share lib.so */ }
    }
    rep.evaluations += 1;
    rep.class(&format!("steps:{}", c["hist"].as_array().unwrap().len()));
    rep.nontrivial(&c["hist"].to_string());
    match fail {
        Some((fp, d)) => rep.mismatch(&fp, json!({"cfg": c["cfg"], "hist": c["hist"], "detail": d})),
        None => if rep.samples.len() < 4 { rep.sample(json!({"cfg": c["cfg"], "hist": c["hist"].as_array().unwrap().iter().map(|s| format!("{} {}", s["a"].as_str().unwrap(), s["t"].as_str().unwrap())).collect::<Vec<_>>(), "seen": c["seen"]})); },
    }
}

/// V mode: strict random executor (only woken tasks are polled) and multi-thread tokio; one summary record per run.
fn run_v(cfgs: &[Value], runs: usize) {
    let mut rng = StdRng::seed_from_u64(vharness::seed() ^ 0xC12);
    for r in 0..runs {
        let cv = &cfgs[r % cfgs.len()];
        let cfg = parse_cfg(cv);
        let shared = Arc::new(Shared { cur: Mutex::new(String::new()), gates: Mutex::default(), gate_of_key: Mutex::default(), calls: Mutex::default(),
                                       susp: cfg.susp.clone(), ans: cfg.ans.clone(), auto_open: AtomicBool::new(true) });
        let sym = Arc::new(Symbolizer::new(Mock(shared.clone())));
        let seen: Seen = Arc::new(Mutex::new(BTreeMap::new()));
        let mode = if r % 3 == 2 { "tokio" } else { "strict" };
        let mut finished = true;
        let mut polls = 0u64;
        if mode == "tokio" {
            let rt = tokio::runtime::Builder::new_multi_thread().worker_threads(4).enable_all().build().unwrap();
            let sym2 = sym.clone();
            let scripts = cfg.scripts.clone();
            let seen2 = seen.clone();
            let res = rt.block_on(async move {
                let mut hs = vec![];
                for (t, s) in scripts {
                    let (sym3, seen3) = (sym2.clone(), seen2.clone());
                    hs.push(tokio::spawn(async move {
                        // tasks of one run share one Symbolizer through an Arc
                        let fut = task_future(&sym3, t, s, seen3);
                        fut.await
                    }));
                }
                let mut ok = true;
                for h in hs { ok &= tokio::time::timeout(std::time::Duration::from_secs(10), h).await.map(|r| r.is_ok()).unwrap_or(false); }
                ok
            });
            finished = res;
        } else {
            let names: Vec<String> = cfg.scripts.keys().cloned().collect();
            let flags: Vec<Arc<Flag>> = names.iter().map(|_| Arc::new(Flag(AtomicBool::new(true)))).collect();
            let mut futs: Vec<Option<Pin<Box<dyn Future<Output = ()> + Send + '_>>>> = names.iter().map(|t| {
                let s = cfg.scripts[t].clone();
                if s.is_empty() { None } else { Some(task_future(&sym, t.clone(), s, seen.clone())) }
            }).collect();
            loop {
                let runnable: Vec<usize> = (0..names.len()).filter(|&i| futs[i].is_some() && flags[i].0.load(Ordering::SeqCst)).collect();
                if runnable.is_empty() { break; }
                let i = runnable[rng.gen_range(0..runnable.len())];
                flags[i].0.store(false, Ordering::SeqCst);
                *shared.cur.lock().unwrap() = names[i].clone();
                let waker = Waker::from(flags[i].clone());
                let mut cx = Context::from_waker(&waker);
                polls += 1;
                if let Poll::Ready(()) = futs[i].as_mut().unwrap().as_mut().poll(&mut cx) { futs[i] = None; }
                if polls > 10_000 { break; }
            }
            finished = futs.iter().all(|f| f.is_none());
        }
        let calls = shared.calls.lock().unwrap().clone();
        let ps = sym.pending_stats();
        let got_seen = seen.lock().unwrap().clone();
        let seen_json: BTreeMap<String, Vec<Value>> = cfg.scripts.keys().map(|t| (t.clone(), got_seen.get(t).cloned().unwrap_or_default().into_iter().map(|(k, o)| json!({"k": k, "o": o})).collect())).collect();
        let exp_json: BTreeMap<String, Value> = cfg.ans.iter().map(|(k, a)| (k.clone(), json!(expected_obs(k, a)))).collect();
        let callsj: BTreeMap<String, u64> = ["k1", "k2", "k3"].iter().map(|k| (k.to_string(), *calls.get(*k).unwrap_or(&0))).collect();
        println!("{}", json!({"mode": mode, "script": cv["script"], "finished": if finished { 1 } else { 0 }, "calls": callsj, "seen": seen_json, "expected": exp_json,
                              "requested": ps.symbols_requested, "processed": ps.symbols_processed, "polls": polls}));
    }
}

fn main() {
    install_panic_capture();
    let args: Vec<String> = std::env::args().collect();
    let path = &args[2];
    if args[1] == "replay" {
        let mut rep = Report::new();
        for_each_case(path, "BEH", |c| replay_behaviour(&c, &mut rep));
        rep.finish();
    } else {
        let mut cfgs: Vec<Value> = vec![];
        let mut seen = std::collections::HashSet::new();
        for_each_case(path, "BEH", |c| { let s = c["cfg"].to_string(); if seen.insert(s) { cfgs.push(c["cfg"].clone()); } });
        run_v(&cfgs, args[3].parse().unwrap());
    }
}
