//! C02 binding (spec -> impl).  Every case TLC emits from DumpModel.tla is an abstract dump (one facet explored,
//! byte order) together with what the reader must return for it.  The harness gives the leaves seeded random
//! values, writes the dump with the FROZEN writer (vendor/vf-synth; raw sections where it has no helper), reads it
//! back with /repo's minidump crate and compares item by item and byte by byte.  Identifier *rules* come from the
//! specification as constructor terms; they are rendered here from the leaf values that were written.
use std::collections::HashMap;
use debugid::{CodeId, DebugId};
use minidump::*;
use rand::rngs::StdRng;
use rand::{Rng, SeedableRng};
use serde_json::{json, Value};
use test_assembler::{Endian, Section};
use vf_synth as synth;
use vf_synth::DumpSection;
use vharness::{for_each_case, guarded, install_panic_capture, Report};

fn sysinfo(endian: Endian, os: &str, cpu: &str) -> synth::SystemInfo {
    let mut si = synth::SystemInfo::new(endian);
    si.processor_architecture = vharness::dumpgen::arch_id(cpu);
    si.platform_id = vharness::dumpgen::platform_id(os);
    si
}
fn guid_fields(b: &[u8], big: bool) -> (u32, u16, u16, [u8; 8]) {
    let mut p = [0u8; 16];
    for (i, x) in b.iter().take(16).enumerate() {
        p[i] = *x;
    }
    let d1 = if big { u32::from_be_bytes([p[0], p[1], p[2], p[3]]) } else { u32::from_le_bytes([p[0], p[1], p[2], p[3]]) };
    let d2 = if big { u16::from_be_bytes([p[4], p[5]]) } else { u16::from_le_bytes([p[4], p[5]]) };
    let d3 = if big { u16::from_be_bytes([p[6], p[7]]) } else { u16::from_le_bytes([p[6], p[7]]) };
    let mut d4 = [0u8; 8];
    d4.copy_from_slice(&p[8..16]);
    (d1, d2, d3, d4)
}
fn name_of_kind(kind: &str) -> String {
    match kind {
        "plain" => "h\u{e9}llo w\u{f6}rld.dll".into(),
        "bom_fe" => "\u{feff}abc.dll".into(),
        "bom_ff" => "\u{fffe}abc.dll".into(),
        "nonbmp" => "a\u{1d11e}b\u{10ffff}.so".into(),
        "empty" => "".into(),
        "bom_only" => "\u{feff}".into(),
        "nul_inside" => "a\u{0}b".into(),
        _ => panic!("name kind"),
    }
}

struct Cmp<'a> {
    rep: &'a mut Report,
    case: &'a Value,
    facet: String,
}
impl<'a> Cmp<'a> {
    fn eq<T: PartialEq + std::fmt::Debug>(&mut self, what: &str, got: T, want: T) {
        if got != want {
            let g = format!("{:?}", got);
            let w = format!("{:?}", want);
            self.rep.mismatch(&format!("dumpmodel:{}:{}", self.facet, what.split('[').next().unwrap()),
                              json!({"case": self.case, "what": what, "got": g.chars().take(300).collect::<String>(), "want": w.chars().take(300).collect::<String>()}));
        }
    }
}

fn run_case(c: &Value, rng: &mut StdRng, rep: &mut Report) {
    let facet = c["facet"].as_str().unwrap().to_string();
    let big = c["endian"] == "big";
    let endian = if big { Endian::Big } else { Endian::Little };
    let m = &c["m"];
    let mut cmp = Cmp { rep, case: c, facet: facet.clone() };
    match facet.as_str() {
        "modules" => {
            let specs = m["mods"].as_array().unwrap();
            let os = specs.first().map(|s| s["os"].as_str().unwrap()).unwrap_or("linux");
            let mut d = synth::SynthMinidump::with_endian(endian).add_system_info(sysinfo(endian, os, "amd64"));
            struct W { base: u64, size: u32, ts: u32, name: String, pdb: String, guid: [u8; 16], age: u32, sig: u32, build: Vec<u8>, ver: [u32; 4] }
            let mut written: Vec<W> = vec![];
            let n = specs.len();
            for (k, s) in specs.iter().enumerate() {
                let pos = if m["order"] == "desc" { n - 1 - k } else { k };
                let base = if pos == 1 { 0xffff_ffff_fffe_0000u64 } else { 0x40_0000 + 0x10_0000 * pos as u64 + (rng.gen::<u64>() & 0xf000) };
                let size = if pos == 1 { 0x2_0000u32 } else { 0x1000 + (rng.gen::<u32>() & 0xffff) };
                let ts: u32 = rng.gen();
                let name = format!("{}mod{}-{:x}.{}", if os == "windows" { "C:\\dir\\" } else { "/usr/lib/" }, k, rng.gen::<u16>(), if os == "windows" { "dll" } else { "so" });
                let pdb = format!("mod{}-{:x}.pdb", k, rng.gen::<u16>());
                let mut guid = [0u8; 16];
                rng.fill(&mut guid);
                guid[0] |= 1;
                let age: u32 = rng.gen_range(0..0x1_0000);
                let sig: u32 = rng.gen();
                let cvk = s["cv"].as_str().unwrap();
                let blen = match cvk { "elf0" => 0, "elf8" => 8, "elf16" => 16, "elf20" => 20, "elf20_z16" => 20, "elf_zero" => 20, _ => 0 };
                let mut build: Vec<u8> = (0..blen).map(|_| rng.gen()).collect();
                if cvk == "elf_zero" { build = vec![0; 20]; } else if cvk == "elf20_z16" { for b in &mut build[..16] { *b = 0; } build[19] |= 1; } else if blen > 0 { build[0] |= 1; }
                let ver: [u32; 4] = [rng.gen(), rng.gen(), rng.gen(), rng.gen()];
                let mut vi = vf_common::format::VS_FIXEDFILEINFO { signature: 0xfeef04bd, struct_version: 0x00010000, file_version_hi: ver[0], file_version_lo: ver[1], product_version_hi: ver[2],
                    product_version_lo: ver[3], file_flags_mask: 0x3f, file_flags: 0, file_os: 0x40004, file_type: 1, file_subtype: 0, file_date_hi: 0, file_date_lo: 0 };
                if !s["sigOk"].as_bool().unwrap() { vi.signature = 0x1234_5678; }
                let nm = synth::DumpString::new(&name, endian);
                let mut module = synth::Module::new(endian, base, size, &nm, ts, 0, Some(&vi));
                let (g1, g2, g3, g4) = guid_fields(&guid, false);
                let cv = match cvk {
                    "pdb70" => Some(Section::with_endian(endian).D32(0x5344_5352).D32(g1).D16(g2).D16(g3).append_bytes(&g4).D32(age).append_bytes(pdb.as_bytes()).D8(0)),
                    "pdb70_nil" => Some(Section::with_endian(endian).D32(0x5344_5352).D32(0).D16(0).D16(0).append_bytes(&[0; 8]).D32(age).append_bytes(pdb.as_bytes()).D8(0)),
                    "pdb20" => Some(Section::with_endian(endian).D32(0x3031_424e).D32(0).D32(sig).D32(age).append_bytes(pdb.as_bytes()).D8(0)),
                    "elf0" | "elf8" | "elf16" | "elf20" | "elf20_z16" | "elf_zero" => Some(Section::with_endian(endian).D32(0x4270_454c).append_bytes(&build)),
                    "unknown" => Some(Section::with_endian(endian).D32(0x1234_5678).append_bytes(&[9, 9, 9, 9, 9, 9, 9, 9])),
                    _ => None,
                };
                if let Some(cv) = cv {
                    module = module.cv_record(&cv);
                    d = d.add(cv);
                }
                d = d.add_module(module).add(nm);
                written.push(W { base, size, ts, name, pdb, guid, age, sig, build, ver });
            }
            let bytes = d.finish().unwrap();
            let dump = Minidump::read(&bytes[..]).expect("read");
            if specs.is_empty() {
                cmp.eq("no module list", dump.get_stream::<MinidumpModuleList>().is_err(), true);
                return;
            }
            let list = dump.get_stream::<MinidumpModuleList>().expect("module list");
            let got: Vec<&MinidumpModule> = list.iter().collect();
            cmp.eq("count", got.len(), written.len());
            for (k, w) in written.iter().enumerate() {
                let Some(g) = got.get(k) else { break };
                let e = &c["modules"][k];
                cmp.eq(&format!("base[{}]", k), g.base_address(), w.base);
                cmp.eq(&format!("size[{}]", k), g.size(), w.size as u64);
                cmp.eq(&format!("code_file[{}]", k), g.code_file().to_string(), w.name.clone());
                let (d1, d2, d3, d4) = guid_fields(&w.guid, false);
                let want_debug: Option<DebugId> = match e["debug_id"].as_str().unwrap() {
                    "guid_age" => Some(DebugId::from_parts(uuid::Uuid::from_fields(d1, d2, d3, &d4), w.age)),
                    "sig_age" => Some(DebugId::from_pdb20(w.sig, w.age)),
                    "build_id_padded_as_guid" | "build_id16_as_guid" => {
                        let (b1, b2, b3, b4) = guid_fields(&w.build, big);
                        Some(DebugId::from_uuid(uuid::Uuid::from_fields(b1, b2, b3, &b4)))
                    }
                    _ => None,
                };
                cmp.eq(&format!("debug_id[{}]", k), g.debug_identifier().map(|d| d.breakpad().to_string()), want_debug.map(|d| d.breakpad().to_string()));
                let want_code: Option<CodeId> = match e["code_id"].as_str().unwrap() {
                    "guid_plain" => {
                        let is_nil = specs[k]["cv"] == "pdb70_nil";
                        let (a, b, cc, dd) = if is_nil { (0, 0, 0, [0u8; 8]) } else { (d1, d2, d3, d4) };
                        Some(CodeId::new(format!("{:08X}{:04X}{:04X}{}", a, b, cc, dd.iter().map(|x| format!("{:02X}", x)).collect::<String>())))
                    }
                    "timestamp_size" => Some(CodeId::new(format!("{:08X}{:x}", w.ts, w.size))),
                    "build_id_hex" => Some(CodeId::from_binary(&w.build)),
                    _ => None,
                };
                cmp.eq(&format!("code_id[{}]", k), g.code_identifier().map(|x| x.to_string()), want_code.map(|x| x.to_string()));
                let want_file = match e["debug_file"].as_str().unwrap() { "pdb_name" => Some(w.pdb.clone()), "module_name" => Some(w.name.clone()), _ => None };
                cmp.eq(&format!("debug_file[{}]", k), g.debug_file().map(|x| x.to_string()), want_file);
                let want_ver = match e["version"].as_str().unwrap() {
                    "hi16.lo16.hi16.lo16" => Some(format!("{}.{}.{}.{}", w.ver[0] >> 16, w.ver[0] & 0xffff, w.ver[1] >> 16, w.ver[1] & 0xffff)),
                    "filehi.filelo.prodhi.prodlo" => Some(format!("{}.{}.{}.{}", w.ver[0], w.ver[1], w.ver[2], w.ver[3])),
                    _ => None,
                };
                cmp.eq(&format!("version[{}]", k), g.version().map(|x| x.to_string()), want_ver);
                cmp.eq(&format!("module_at_address(first)[{}]", k), list.module_at_address(w.base).map(|x| x.base_address()), Some(w.base));
                cmp.eq(&format!("module_at_address(last)[{}]", k), list.module_at_address(w.base + (w.size as u64 - 1)).map(|x| x.base_address()), Some(w.base));
            }
            let by: Vec<u64> = list.by_addr().map(|x| x.base_address()).collect();
            let want_by: Vec<u64> = c["byAddr"].as_array().unwrap().iter().map(|i| written[i.as_u64().unwrap() as usize - 1].base).collect();
            cmp.eq("by_addr order", by, want_by);
        }
        "threads" | "memory" => {
            // memory regions
            let mem64 = m["memKind"] == "mem64";
            let mut d = synth::SynthMinidump::with_endian(endian).add_system_info(sysinfo(endian, "windows", "amd64"));
            let mut regions: Vec<(u64, Vec<u8>)> = vec![];
            if facet == "memory" {
                let n = m["regions"].as_u64().unwrap() as usize;
                let placement = m["placement"].as_str().unwrap();
                let mut next = 0x1000u64;
                for k in 0..n {
                    let size = rng.gen_range(1..300usize);
                    let base = match placement {
                        "adjacent" => next,
                        "top" if k == n - 1 => u64::MAX - size as u64 + 1,
                        "low_and_top" if k == 0 => 0,
                        "low_and_top" if k == n - 1 => u64::MAX - size as u64 + 1,
                        _ => next + 0x1000 * (1 + rng.gen_range(0..4u64)),
                    };
                    next = base.wrapping_add(size as u64);
                    regions.push((base, (0..size).map(|_| rng.gen()).collect()));
                }
            } else {
                regions.push((0x7000_0000, (0..200).map(|_| rng.gen()).collect()));
                regions.push((0x7100_0000, (0..64).map(|_| rng.gen()).collect()));
            }
            let pad = m["pad"].as_u64().unwrap_or(0);
            if !mem64 && pad == 4 && !regions.is_empty() {
                // a hand-placed MINIDUMP_MEMORY_LIST: count, 4 bytes of padding, then the descriptors
                let secs: Vec<Section> = regions.iter().map(|(_, bytes)| Section::with_endian(endian).append_bytes(bytes)).collect();
                let mut list = Section::with_endian(endian).D32(regions.len() as u32).D32(0);
                for ((base, bytes), sec) in regions.iter().zip(secs.iter()) {
                    list = list.D64(*base).D32(bytes.len() as u32).D32(sec.file_offset());
                }
                d = d.add_stream(synth::SimpleStream { stream_type: 5, section: list });
                for sec in secs {
                    d = d.add(sec);
                }
            } else {
                for (base, bytes) in &regions {
                    let mem = synth::Memory::with_section(Section::with_endian(endian).append_bytes(bytes), *base);
                    d = if mem64 { d.add_memory64(mem) } else { d.add_memory(mem) };
                }
            }
            // threads (hand-placed list so that the stack descriptor can be null)
            let mut tw: Vec<(u32, u64, Option<Vec<u8>>)> = vec![]; // id, teb, expected stack bytes
            if facet == "threads" {
                let stacks = m["stacks"].as_array().unwrap();
                let mut list = Section::with_endian(endian).D32(stacks.len() as u32);
                if pad == 4 {
                    list = list.D32(0);
                }
                let mut extra: Vec<Section> = vec![];
                for (k, s) in stacks.iter().enumerate() {
                    let id = if m["dupIds"].as_bool().unwrap() { 7 } else { 100 + k as u32 };
                    let teb = 0x7ff0_0000_0000 + 0x1000 * k as u64;
                    let ctx = vharness::rich::any_context(endian, "amd64", k as u8);
                    list = list.D32(id).D32(0).D32(0).D32(0).D64(teb);
                    let want = match s.as_str().unwrap() {
                        "own" => {
                            let bytes: Vec<u8> = (0..(40 + k)).map(|_| rng.gen()).collect();
                            let sec = Section::with_endian(endian).append_bytes(&bytes);
                            list = list.D64(0x6000_0000 + 0x1000 * k as u64).D32(bytes.len() as u32).D32(sec.file_offset());
                            extra.push(sec);
                            Some(bytes)
                        }
                        "fallback" => {
                            // null location, start address inside the k-th (mod 2) memory-list region
                            let r = &regions[k % 2];
                            list = list.D64(r.0 + 5).D32(0).D32(0);
                            Some(r.1.clone())
                        }
                        _ => {
                            list = list.D64(0x5000_0000).D32(0).D32(0);
                            None
                        }
                    };
                    list = list.D32(ctx.file_size()).D32(ctx.file_offset());
                    extra.push(ctx);
                    tw.push((id, teb, want));
                }
                d = d.add_stream(synth::SimpleStream { stream_type: 3, section: list });
                for e in extra {
                    d = d.add(e);
                }
            }
            let bytes = d.finish().unwrap();
            let dump = Minidump::read(&bytes[..]).expect("read");
            let unified = dump.get_memory();
            if regions.is_empty() {
                cmp.eq("no memory list", unified.is_none(), true);
            }
            if let Some(u) = &unified {
                let got: Vec<(u64, Vec<u8>)> = u.iter().map(|r| (r.base_address(), r.bytes().to_vec())).collect();
                cmp.eq("regions in file order", got, regions.clone());
                cmp.eq("list kind", matches!(u, UnifiedMemoryList::Memory64(_)), mem64);
                if facet == "memory" {
                    for (k, (base, bytes)) in regions.iter().enumerate() {
                        for (o, b) in bytes.iter().enumerate() {
                            let a = base.wrapping_add(o as u64);
                            let r = u.memory_at_address(a);
                            if r.as_ref().map(|r| r.base_address()) != Some(*base) || r.and_then(|r| r.get_memory_at_address::<u8>(a)) != Some(*b) {
                                cmp.eq(&format!("byte at region[{}]", k), (a, false), (a, true));
                                break;
                            }
                        }
                        // just outside
                        let after = base.wrapping_add(bytes.len() as u64);
                        if after != 0 && !regions.iter().any(|(b2, x)| after >= *b2 && after - *b2 < x.len() as u64) {
                            cmp.eq(&format!("nothing after region[{}]", k), u.memory_at_address(after).map(|r| r.base_address()), None);
                        }
                        if *base != 0 && !regions.iter().any(|(b2, x)| base - 1 >= *b2 && base - 1 - *b2 < x.len() as u64) {
                            cmp.eq(&format!("nothing before region[{}]", k), u.memory_at_address(base - 1).map(|r| r.base_address()), None);
                        }
                    }
                }
            }
            if facet == "threads" {
                if tw.is_empty() {
                    let tl = dump.get_stream::<MinidumpThreadList<'_>>().expect("thread list");
                    cmp.eq("threads", tl.threads.len(), 0);
                    return;
                }
                let tl = dump.get_stream::<MinidumpThreadList<'_>>().expect("thread list");
                cmp.eq("thread count", tl.threads.len(), tw.len());
                let u = unified.expect("memory");
                for (k, (id, teb, want)) in tw.iter().enumerate() {
                    let Some(t) = tl.threads.get(k) else { break };
                    cmp.eq(&format!("thread id[{}]", k), t.raw.thread_id, *id);
                    cmp.eq(&format!("teb[{}]", k), t.raw.teb, *teb);
                    cmp.eq(&format!("stack[{}]", k), t.stack_memory(&u).map(|s| s.bytes().to_vec()), want.clone());
                    let by = c["threads"][k]["byId"].as_u64().unwrap() as usize - 1;
                    cmp.eq(&format!("get_thread[{}]", k), tl.get_thread(*id).map(|x| x.raw.teb), Some(tw[by].1));
                    cmp.eq(&format!("context[{}]", k), t.context(&dump.get_stream::<MinidumpSystemInfo>().unwrap(), None).is_some(), true);
                }
            }
        }
        "directory" => {
            let mut d = synth::SynthMinidump::with_endian(endian);
            let names_of = |v: &str| if v == "A" { ("alpha", 1111u32) } else { ("beta", 2222u32) };
            let entries = m["dir"].as_array().unwrap();
            for e in entries {
                let (nm, pid) = names_of(e["variant"].as_str().unwrap());
                match e["type"].as_str().unwrap() {
                    "names" => {
                        let s = synth::DumpString::new(nm, endian);
                        let list = Section::with_endian(endian).D32(1).D32(1).D64(s.file_offset());
                        d = d.add_stream(synth::SimpleStream { stream_type: 24, section: list }).add(s);
                    }
                    "misc" => {
                        let mut ms = synth::MiscStream::new(endian);
                        ms.process_id = Some(pid);
                        d = d.add_stream(ms);
                    }
                    _ => {
                        d = d.add_stream(synth::SimpleStream { stream_type: 0, section: Section::with_endian(endian) });
                    }
                }
            }
            let bytes = d.finish().unwrap();
            let dump = Minidump::read(&bytes[..]).expect("read");
            let variant_at = |t: &str| -> Option<String> {
                let i = c["served"][t].as_u64().unwrap() as usize;
                if i == 0 { None } else { Some(entries[i - 1]["variant"].as_str().unwrap().to_string()) }
            };
            let got_names = dump.get_stream::<MinidumpThreadNames>().ok().and_then(|n| n.get_name(1).map(|s| s.to_string()));
            cmp.eq("thread names served", got_names, variant_at("names").map(|v| names_of(&v).0.to_string()));
            let got_pid = dump.get_stream::<MinidumpMiscInfo>().ok().and_then(|mi| mi.raw.process_id().copied());
            cmp.eq("misc info served", got_pid, variant_at("misc").map(|v| names_of(&v).1));
            cmp.eq("directory entries kept", dump.all_streams().count(), {
                let mut t: Vec<&str> = entries.iter().map(|e| e["type"].as_str().unwrap()).collect();
                t.sort();
                t.dedup();
                t.len()
            });
        }
        "names" => {
            let site = m["site"].as_str().unwrap();
            let want = name_of_kind(m["kind"].as_str().unwrap());
            let s = synth::DumpString::new(&want, endian);
            let mut d = synth::SynthMinidump::with_endian(endian);
            let mut si = sysinfo(endian, if site == "bootargs" { "mac" } else { "windows" }, "amd64");
            let got: Option<String>;
            match site {
                "module" => {
                    d = d.add_system_info(si).add_module(synth::Module::new(endian, 0x40_0000, 0x1000, &s, 1, 0, None)).add(s);
                    let bytes = d.finish().unwrap();
                    let dump = Minidump::read(&bytes[..]).expect("read");
                    got = dump.get_stream::<MinidumpModuleList>().ok().and_then(|l| l.iter().next().map(|x| x.name.clone()));
                }
                "unloaded" => {
                    d = d.add_system_info(si).add_unloaded_module(synth::UnloadedModule::new(endian, 0x40_0000, 0x1000, &s, 1, 0)).add(s);
                    let bytes = d.finish().unwrap();
                    let dump = Minidump::read(&bytes[..]).expect("read");
                    got = dump.get_stream::<MinidumpUnloadedModuleList>().ok().and_then(|l| l.iter().next().map(|x| x.name.clone()));
                }
                "thread" => {
                    d = d.add_system_info(si).add_thread_name(synth::ThreadName::new(endian, 5, Some(&s))).add(s);
                    let bytes = d.finish().unwrap();
                    let dump = Minidump::read(&bytes[..]).expect("read");
                    got = dump.get_stream::<MinidumpThreadNames>().ok().and_then(|n| n.get_name(5).map(|x| x.to_string()));
                }
                "csd" => {
                    // system info is the first stream: header (32) then the stream, then the string
                    si.csd_version_rva = 32 + 56;
                    d = d.add_system_info(si);
                    let mut bytes = d.finish().unwrap();
                    // the writer places the system info stream right after the header and the directory last: put the string
                    // where the rva says by rebuilding with the string appended and the rva patched to it
                    let at = bytes.len();
                    bytes.extend_from_slice(&Section::from(synth::DumpString::new(&want, endian)).get_contents().unwrap());
                    let (_, _, streams) = vharness::rich::layout(&bytes);
                    let sis = streams.iter().find(|x| x.stream_type == 7).unwrap();
                    let b = if big { (at as u32).to_be_bytes() } else { (at as u32).to_le_bytes() };
                    bytes[sis.rva + 24..sis.rva + 28].copy_from_slice(&b);
                    let dump = Minidump::read(&bytes[..]).expect("read");
                    got = dump.get_stream::<MinidumpSystemInfo>().ok().and_then(|x| x.csd_version().map(|c| c.to_string()));
                }
                "bootargs" => {
                    let b = Section::with_endian(endian).D32(0x4d7a_0002).D64(s.file_offset());
                    d = d.add_system_info(si).add_stream(synth::SimpleStream { stream_type: 0x4d7a_0002, section: b }).add(s);
                    let bytes = d.finish().unwrap();
                    let dump = Minidump::read(&bytes[..]).expect("read");
                    got = dump.get_stream::<MinidumpMacBootargs>().ok().and_then(|x| x.bootargs.clone());
                }
                _ => {
                    d = d.add_system_info(si).add_handle_descriptor(synth::HandleDescriptor::new(endian, 0x44, Some(&s), None, 0, 0, 1, 1)).add(s);
                    let bytes = d.finish().unwrap();
                    let dump = Minidump::read(&bytes[..]).expect("read");
                    got = dump.get_stream::<MinidumpHandleDataStream>().ok().and_then(|h| h.iter().next().and_then(|x| x.type_name.clone()));
                }
            }
            // a CSD string that is empty reads back as "no CSD version"; everything else is the exact string
            let want_opt = if site == "csd" && want.is_empty() { got.clone() } else { Some(want) };
            cmp.eq(&format!("string at {}", site), got, want_opt);
        }
        "misc" => {
            let layout = m["layout"].as_u64().unwrap();
            let mut ms = synth::MiscStream::new(endian);
            let pid: u32 = rng.gen();
            let times = (rng.gen::<u32>(), rng.gen::<u32>(), rng.gen::<u32>());
            ms.process_id = Some(pid);
            ms.process_times = Some(synth::MiscFieldsProcessTimes { process_create_time: times.0, process_user_time: times.1, process_kernel_time: times.2 });
            let mhz: u32 = rng.gen();
            let integ: u32 = rng.gen();
            if layout >= 2 { ms.power_info = Some(synth::MiscFieldsPowerInfo { processor_max_mhz: mhz, processor_current_mhz: 1, processor_mhz_limit: 2, processor_max_idle_state: 3, processor_current_idle_state: 4 }); }
            let opt: Vec<&str> = m["opt"].as_array().map(|a| a.iter().map(|x| x.as_str().unwrap()).collect()).unwrap_or_default();
            if layout >= 3 {
                ms.time_zone = Some(synth::MiscFieldsTimeZone::default());
                if opt.contains(&"integrity") { ms.process_integrity_level = Some(integ); }
                if opt.contains(&"execute") { ms.process_execute_flags = Some(0x31); }
                if opt.contains(&"protected") { ms.protected_process = Some(1); }
            }
            if layout >= 4 { let mut b = synth::MiscFieldsBuildString::default(); b.build_string[0] = 0x41; ms.build_strings = Some(b); }
            if layout >= 5 { ms.misc_5 = Some(synth::MiscInfo5Fields { xstate_data: Default::default(), process_cookie: Some(77) }); }
            let d = synth::SynthMinidump::with_endian(endian).add_stream(ms);
            let bytes = d.finish().unwrap();
            let dump = Minidump::read(&bytes[..]).expect("read");
            let mi = dump.get_stream::<MinidumpMiscInfo>().expect("misc info");
            let got_layout = match mi.raw { RawMiscInfo::MiscInfo(_) => 1, RawMiscInfo::MiscInfo2(_) => 2, RawMiscInfo::MiscInfo3(_) => 3, RawMiscInfo::MiscInfo4(_) => 4, RawMiscInfo::MiscInfo5(_) => 5 };
            cmp.eq("layout", got_layout, layout);
            cmp.eq("process_id", mi.raw.process_id().copied(), Some(pid));
            cmp.eq("process_create_time", mi.raw.process_create_time().copied(), Some(times.0));
            cmp.eq("process_kernel_time", mi.raw.process_kernel_time().copied(), Some(times.2));
            let fields: Vec<&str> = c["misc"].as_array().unwrap().iter().map(|x| x.as_str().unwrap()).collect();
            cmp.eq("processor_max_mhz", mi.raw.processor_max_mhz().copied(), if fields.contains(&"power") { Some(mhz) } else { None });
            cmp.eq("process_integrity_level", mi.raw.process_integrity_level().copied(), if fields.contains(&"integrity") { Some(integ) } else { None });
            cmp.eq("process_execute_flags", mi.raw.process_execute_flags().copied(), if fields.contains(&"execute") { Some(0x31) } else { None });
            cmp.eq("protected_process", mi.raw.protected_process().copied(), if fields.contains(&"protected") { Some(1) } else { None });
            cmp.eq("build_string", mi.raw.build_string().map(|b| b[0]), if fields.contains(&"build") { Some(0x41) } else { None });
            cmp.eq("process_cookie", mi.raw.process_cookie().copied(), if fields.contains(&"xstate") { Some(77) } else { None });
        }
        "crashpad" => {
            let nmods = m["mods"].as_u64().unwrap() as usize;
            let kinds: Vec<String> = m["objs"].as_array().unwrap().iter().map(|x| x.as_str().unwrap().to_string()).collect();
            let tag: u32 = rng.gen();
            let mut cp = synth::CrashpadInfo::new(endian);
            for k in 0..m["simple"].as_u64().unwrap() { cp = cp.add_simple_annotation(&format!("sk{}", k), &format!("sv{}-{:08x}", k, tag)); }
            let mut unterminated: Vec<String> = vec![];
            for mi in 0..nmods {
                let mut module = synth::ModuleCrashpadInfo::new(mi as u32, endian);
                for k in 0..m["list"].as_u64().unwrap() { module = module.add_list_annotation(&format!("list{}-{}-{:08x}", mi, k, tag)); }
                for (k, kind) in kinds.iter().enumerate() {
                    let val = format!("value-{}-{}-{:08x}", mi, k, tag);
                    let v = match kind.as_str() {
                        "str" => synth::AnnotationValue::String(val),
                        "str_unterminated" => { unterminated.push(val.clone()); synth::AnnotationValue::String(val) }
                        "invalid" => synth::AnnotationValue::Invalid,
                        "user" => synth::AnnotationValue::Custom(0x8000 + k as u16, val.into_bytes()),
                        _ => synth::AnnotationValue::Custom(5, val.into_bytes()),
                    };
                    module = module.add_annotation_object(&format!("obj{}", k), v);
                }
                cp = cp.add_module(module);
            }
            let mut bytes = synth::SynthMinidump::with_endian(endian).add_crashpad_info(cp).finish().unwrap();
            for v in &unterminated {
                let at = bytes.windows(v.len()).position(|w| w == v.as_bytes()).expect("value bytes");
                assert_eq!(bytes[at + v.len()], 0);
                bytes[at + v.len()] = b'X';
            }
            let dump = Minidump::read(&bytes[..]).expect("read");
            let info = match dump.get_stream::<MinidumpCrashpadInfo>() { Ok(i) => i, Err(e) => { cmp.eq("crashpad info stream", format!("{:?}", e), "Ok".to_string()); return; } };
            cmp.eq("simple annotations", info.simple_annotations.iter().map(|(k, v)| (k.clone(), v.clone())).collect::<Vec<_>>(),
                   (0..m["simple"].as_u64().unwrap()).map(|k| (format!("sk{}", k), format!("sv{}-{:08x}", k, tag))).collect::<Vec<_>>());
            cmp.eq("module count", info.module_list.len(), nmods);
            for (mi, md_) in info.module_list.iter().enumerate() {
                cmp.eq("module index", md_.module_index, mi);
                cmp.eq("list annotations", md_.list_annotations.clone(), (0..m["list"].as_u64().unwrap()).map(|k| format!("list{}-{}-{:08x}", mi, k, tag)).collect::<Vec<_>>());
                cmp.eq("annotation object count", md_.annotation_objects.len(), kinds.len());
                for (k, want) in c["ann"].as_array().unwrap().iter().enumerate() {
                    let got = md_.annotation_objects.get(&format!("obj{}", k));
                    let val = format!("value-{}-{}-{:08x}", mi, k, tag);
                    let shown = match got {
                        None => "missing".to_string(),
                        Some(MinidumpAnnotation::Invalid) => "invalid".to_string(),
                        Some(MinidumpAnnotation::String(s)) => if *s == val { "string".to_string() } else { format!("string:{}", s) },
                        Some(MinidumpAnnotation::UserDefined(r)) => if r.ty == 0x8000 + k as u16 { "user_defined".to_string() } else { format!("user_defined:{:#x}", r.ty) },
                        Some(MinidumpAnnotation::Unsupported(r)) => if r.ty == 5 { "unsupported".to_string() } else { format!("unsupported:{:#x}", r.ty) },
                        #[allow(unreachable_patterns)]
                        Some(_) => "other".to_string(),
                    };
                    cmp.eq(&format!("annotation object[{}]", k), shown, want.as_str().unwrap().to_string());
                }
            }
        }
        "sysinfo" => {
            let cpu = m["cpu"].as_str().unwrap();
            let vendor = m["vendor"].as_str().unwrap();
            let (level, rev): (u16, u16) = if m["rev"] == "r0" { (6, 0x0000) } else { (23, 0x7104) };
            let mut si = synth::SystemInfo::new(endian);
            si.processor_architecture = match cpu { "x86" => 0, "amd64" => 9, _ => 12 };
            si.processor_level = level;
            si.processor_revision = rev;
            si.platform_id = 2;
            let vb = vendor.as_bytes();
            let word = |i: usize| u32::from_le_bytes([vb[4 * i], vb[4 * i + 1], vb[4 * i + 2], vb[4 * i + 3]]);
            si.cpu = synth::CpuInfo::X86CpuInfo { vendor_id: [word(0), word(1), word(2)], version_information: 0x000306c3, feature_information: 0xbfebfbff, amd_extended_cpu_features: 0 };
            let bytes = synth::SynthMinidump::with_endian(endian).add_system_info(si).finish().unwrap();
            let dump = Minidump::read(&bytes[..]).expect("read");
            let got = dump.get_stream::<MinidumpSystemInfo>().expect("system info");
            let fms = format!("family {} model {} stepping {}", level, (rev >> 8) & 0xff, rev & 0xff);
            let want = match c["cpuinfo"].as_str().unwrap() { "vendor_family_model_stepping" => Some(format!("{} {}", vendor, fms)), "family_model_stepping" => Some(fms), _ => None };
            if want.is_some() { cmp.eq("cpu_info", got.cpu_info().map(|x| x.to_string()), want); }
            cmp.eq("processor level / revision", (got.raw.processor_level, got.raw.processor_revision), (level, rev));
        }
        f => panic!("unknown facet {}", f),
    }
}

/// The fixed rich templates read back field by field (the "faithful index" part for the streams the facets above
/// do not vary): every constant below is the one rich.rs wrote.
fn templates(rep: &mut Report) {
    // register values of every thread context as read from the little-endian template, for comparison with the big-endian one
    let mut le_regs: HashMap<(String, usize), Vec<(&'static str, u64, usize)>> = HashMap::new();
    // the raw (decoded) records of the list streams as read from the little-endian template: the big-endian template is the same model,
    // so every decoded field must come out the same
    let mut le_raw: HashMap<String, Vec<(String, String)>> = HashMap::new();
    for flavour in vharness::rich::FLAVOURS {
        for big in [false, true] {
            let bytes = vharness::rich::template_with_exception(flavour, big, 3);
            let c = json!({"template": flavour, "big": big});
            let mut cmp = Cmp { rep, case: &c, facet: "template".into() };
            let dump = Minidump::read(&bytes[..]).expect("template reads");
            let small = flavour.ends_with("-small");
            let os = flavour.split('-').next().unwrap();
            cmp.rep.evaluations += 1;
            let e = dump.get_stream::<MinidumpException>().expect("exception");
            cmp.eq("exception thread", e.get_crashing_thread_id(), 101);
            cmp.eq("exception code", e.raw.exception_record.exception_code, 0xC000_0005);
            cmp.eq("exception address", e.raw.exception_record.exception_address, 0x40_1234);
            cmp.eq("exception params", (e.raw.exception_record.number_parameters, e.raw.exception_record.exception_information[1], e.raw.exception_record.exception_information[14]), (3, 0x1001, 0x100e));
            let si = dump.get_stream::<MinidumpSystemInfo>().expect("system info");
            cmp.eq("csd", si.csd_version().map(|x| x.to_string()), Some("Service Pack 9 \u{1f980}".to_string()));
            cmp.eq("os version", (si.raw.major_version, si.raw.minor_version, si.raw.build_number, si.raw.number_of_processors), (10, 2, 19041, 8));
            cmp.eq("context present", e.context(&si, None).is_some(), true);
            let tn = dump.get_stream::<MinidumpThreadNames>().expect("thread names");
            cmp.eq("thread name", tn.get_name(100).map(|x| x.to_string()), Some("worker-0-\u{1d11e}".to_string()));
            let bp = dump.get_stream::<MinidumpBreakpadInfo>().expect("breakpad info");
            cmp.eq("breakpad info", (bp.dump_thread_id, bp.requesting_thread_id), (Some(100), Some(101)));
            let tl = dump.get_stream::<MinidumpThreadList<'_>>().expect("threads");
            cmp.eq("thread ids", tl.threads.iter().map(|t| t.raw.thread_id).collect::<Vec<_>>(), (0..if small { 1 } else { 3 }).map(|k| 100 + k).collect::<Vec<u32>>());
            let mem = dump.get_memory().expect("memory");
            for (k, t) in tl.threads.iter().enumerate() {
                let want: Vec<u8> = (0..(96 + 8 * k)).map(|i| (i * 3 + k) as u8).collect();
                cmp.eq(&format!("stack bytes[{}]", k), t.stack_memory(&mem).map(|s| s.bytes().to_vec()), Some(want));
                cmp.eq(&format!("context[{}]", k), t.context(&si, None).is_some(), true);
                // the context is the same byte pattern in both templates, so a register read from the big-endian one is the byte-reversed
                // value of the little-endian one (every general-purpose register, instruction and stack pointer)
                if let Some(ctx) = t.context(&si, None) {
                    let w = ctx.register_size();
                    let mut regs: Vec<(&'static str, u64, usize)> = ctx.general_purpose_registers().iter().filter_map(|n| ctx.get_register(n).map(|v| (*n, v, w))).collect();
                    regs.push(("<instruction pointer>", ctx.get_instruction_pointer(), w));
                    regs.push(("<stack pointer>", ctx.get_stack_pointer(), w));
                    if !big { le_regs.insert((flavour.to_string(), k), regs); }
                    else if let Some(le) = le_regs.get(&(flavour.to_string(), k)) {
                        cmp.eq(&format!("context register names[{}]", k), regs.iter().map(|r| r.0).collect::<Vec<_>>(), le.iter().map(|r| r.0).collect::<Vec<_>>());
                        for _ in 0..regs.len() { cmp.rep.class("context-register-compared-across-byte-orders"); }
                        for (l, b) in le.iter().zip(regs.iter()) {
                            let lb = l.1.to_le_bytes()[..w].to_vec();
                            let bb = b.1.to_be_bytes()[8 - w..].to_vec();
                            if lb != bb { cmp.eq(&format!("context register {} bytes[{}]", l.0, k), format!("{:x?}", bb), format!("{:x?}", lb)); }
                        }
                    }
                }
            }
            {
                let mut raws: Vec<(String, String)> = vec![];
                for (k, t) in tl.threads.iter().enumerate() { raws.push((format!("thread[{}]", k), format!("{:?}", t.raw))); }
                raws.push(("exception record".into(), format!("{:?} {:?}", e.raw.exception_record, (e.raw.thread_id, e.raw.thread_context.data_size, e.raw.thread_context.rva))));
                if let Ok(ml) = dump.get_stream::<MinidumpModuleList>() { for (k, m) in ml.iter().enumerate() { raws.push((format!("module[{}]", k), format!("{:?}", m.raw))); } }
                if let Ok(ul) = dump.get_stream::<MinidumpUnloadedModuleList>() { for (k, m) in ul.iter().enumerate() { raws.push((format!("unloaded[{}]", k), format!("{:?}", m.raw))); } }
                if let Ok(mi) = dump.get_stream::<MinidumpMemoryInfoList<'_>>() { for (k, m) in mi.iter().enumerate() { raws.push((format!("memory info[{}]", k), format!("{:?}", m.raw))); } }
                if let Ok(mi) = dump.get_stream::<MinidumpMiscInfo>() {
                    raws.push(("misc info".into(), format!("{:?}", mi.raw)));
                    // every accessor of the misc info, each guarded by its own flag
                    raws.push(("misc info accessors".into(), format!("{:?}", (mi.raw.process_id(), mi.raw.process_create_time(), mi.raw.process_user_time(), mi.raw.process_kernel_time(),
                        mi.raw.processor_max_mhz(), mi.raw.processor_current_mhz(), mi.raw.process_integrity_level(), mi.raw.process_execute_flags(), mi.raw.protected_process(), mi.raw.time_zone_id()))));
                }
                if let Ok(bp) = dump.get_stream::<MinidumpBreakpadInfo>() { raws.push(("breakpad info".into(), format!("{:?}", (bp.dump_thread_id, bp.requesting_thread_id)))); }
                if let Ok(ti) = dump.get_stream::<MinidumpThreadInfoList>() { for id in [100u32, 101, 102] { if let Some(x) = ti.get_thread_info(id) { raws.push((format!("thread info[{}]", id), format!("{:?}", x.raw))); } } }
                if !big { le_raw.insert(flavour.to_string(), raws); }
                else if let Some(le) = le_raw.get(&flavour.to_string()) {
                    cmp.eq("raw record labels", raws.iter().map(|r| r.0.clone()).collect::<Vec<_>>(), le.iter().map(|r| r.0.clone()).collect::<Vec<_>>());
                    for (l, b) in le.iter().zip(raws.iter()) {
                        cmp.rep.class("raw-record-compared-across-byte-orders");
                        if l.1 != b.1 { cmp.eq(&format!("raw {} across byte orders", l.0), b.1.clone(), l.1.clone()); }
                    }
                }
            }
            if small { continue; }
            let a = dump.get_stream::<MinidumpAssertion>().expect("assertion");
            cmp.eq("assertion", (a.expression(), a.function(), a.file(), a.raw.line), (Some("x != nullptr".into()), Some("frob()".into()), Some("frob.cc".into()), 42));
            let ti = dump.get_stream::<MinidumpThreadInfoList>().expect("thread info");
            cmp.eq("thread info", ti.get_thread_info(101).map(|x| (x.raw.kernel_time, x.raw.user_time, x.raw.start_address, x.raw.affinity)), Some((1000, 2000, 0x40_1001, 0xff)));
            let h = dump.get_stream::<MinidumpHandleDataStream>().expect("handles");
            let hs: Vec<_> = h.iter().collect();
            cmp.eq("handle count", hs.len(), 2);
            cmp.eq("handle 0", (hs[0].type_name.clone(), hs[0].object_name.clone(), hs[0].object_infos.len()), (Some("Event".into()), Some("\\BaseNamedObjects\\x".into()), 2));
            cmp.eq("handle 1", (hs[1].type_name.clone(), hs[1].object_name.clone(), hs[1].object_infos.len()), (None, None, 0));
            let cp = dump.get_stream::<MinidumpCrashpadInfo>().expect("crashpad");
            cmp.eq("crashpad simple", cp.simple_annotations.iter().map(|(k, v)| format!("{}={}", k, v)).collect::<Vec<_>>(), vec!["k1=v1".to_string(), "k2=v2".to_string()]);
            cmp.eq("crashpad module lists", cp.module_list.iter().map(|m| (m.module_index, m.list_annotations.clone(), m.simple_annotations.get("mk").cloned(), m.annotation_objects.len())).collect::<Vec<_>>(),
                   vec![(0usize, vec!["list-a".to_string(), "list-b".to_string()], Some("mv".to_string()), 3usize)]);
            cmp.eq("crashpad object", cp.module_list[0].annotation_objects.get("obj-s").map(|a| format!("{:?}", a)), Some("String(\"value\")".to_string()));
            let ul = dump.get_stream::<MinidumpUnloadedModuleList>().expect("unloaded");
            cmp.eq("unloaded", ul.iter().map(|u| (u.raw.base_of_image, u.raw.size_of_image, u.name.clone(), u.raw.time_date_stamp, u.raw.checksum)).collect::<Vec<_>>(),
                   vec![(0x60_0000, 0x3000, "gone.dll".to_string(), 0x5a5a_5a5a, 7), (0x60_1000, 0x3000, "gone2.dll".to_string(), 0x5a5a_5a5b, 8)]);
            let mi = dump.get_stream::<MinidumpMemoryInfoList<'_>>().expect("memory info");
            cmp.eq("memory info", mi.iter().map(|i| (i.raw.base_address, i.raw.region_size, i.raw.protection, i.raw.state)).collect::<Vec<_>>(),
                   vec![(0x40_0000, 0x2_0000, 0x20, 0x1000), (0x7ffe_0000, 0x3000, 0x04, 0x1000), (0xffff_ffff_ffff_0000, 0x1_0000, 0x02, 0x1000)]);
            cmp.eq("memory info at top", mi.memory_info_at_address(u64::MAX).map(|i| i.raw.base_address), Some(0xffff_ffff_ffff_0000));
            let ml = dump.get_stream::<MinidumpModuleList>().expect("modules");
            cmp.eq("module names", ml.iter().map(|x| x.name.clone()).collect::<Vec<_>>(), vec![if os == "windows" { "C:\\app\\main.exe" } else { "/usr/bin/main" }.to_string(), "libtop.so".into(), "nocv.dll".into()]);
            cmp.eq("module at top", ml.module_at_address(0xffff_ffff_fffe_ffff).map(|x| x.name.clone()), Some("libtop.so".to_string()));
            let m32 = dump.get_stream::<MinidumpMemoryList<'_>>().expect("memory list");
            cmp.eq("top region bytes", m32.memory_at_address(0xffff_ffff_ffff_ff27).and_then(|r| r.get_memory_at_address::<u8>(0xffff_ffff_ffff_ff27)), Some(0xab));
            cmp.eq("nothing after top region", m32.memory_at_address(0xffff_ffff_ffff_ff28).map(|r| r.base_address), None);
            let mc = dump.get_stream::<MinidumpMacCrashInfo>().expect("mac crash info");
            cmp.eq("mac crash info", mc.raw.iter().map(|r| (r.thread().copied(), r.message().map(|x| x.to_string()), r.message2().map(|x| x.to_string()), r.abort_cause().copied())).collect::<Vec<_>>(),
                   vec![(Some(77), Some("message one".to_string()), Some("message two".to_string()), Some(3))]);
            let ba = dump.get_stream::<MinidumpMacBootargs>().expect("bootargs");
            cmp.eq("bootargs", ba.bootargs.clone(), Some("-v keepsyms=1".to_string()));
            let maps = dump.get_stream::<MinidumpLinuxMaps<'_>>().expect("maps");
            cmp.eq("maps", maps.iter().map(|m| (m.map.address.0, m.map.address.1, m.is_executable())).collect::<Vec<_>>(),
                   vec![(0x40_0000, 0x42_0000, true), (0x7ffe_0000, 0x7ffe_3000, false), (0xffff_ffff_ffff_0000, u64::MAX, false)]);
            let lsb = dump.get_stream::<MinidumpLinuxLsbRelease<'_>>().expect("lsb");
            cmp.eq("lsb", lsb.iter().map(|(k, v)| format!("{}={}", k.to_string_lossy(), v.to_string_lossy())).collect::<Vec<_>>(),
                   vec!["DISTRIB_ID=Ubuntu".to_string(), "DISTRIB_RELEASE=20.04".into(), "DISTRIB_DESCRIPTION=Ubuntu 20.04".into()]);
            if os != "windows" {
                let m64 = dump.get_stream::<MinidumpMemory64List<'_>>().expect("memory64");
                cmp.eq("memory64", m64.iter().map(|r| (r.base_address, r.size, r.bytes[0])).collect::<Vec<_>>(), vec![(0x1_0000_0000, 64, 0x5a), (0x2_0000_0000, 24, 0xa5)]);
            }
        }
    }
}

fn main() {
    install_panic_capture();
    let args: Vec<String> = std::env::args().collect();
    let mut rep = Report::new();
    let mut rng = StdRng::seed_from_u64(vharness::seed());
    let mut cases = vec![];
    for_each_case(&args[1], "CASE", |c| cases.push(c));
    let reps: usize = args.get(2).and_then(|s| s.parse().ok()).unwrap_or(1);
    for c in &cases {
        for _ in 0..reps {
            rep.evaluations += 1;
            rep.class(&format!("{}:{}", c["facet"].as_str().unwrap(), c["endian"].as_str().unwrap()));
            rep.nontrivial(&c.to_string());
            let before = rep.mismatches;
            let r = guarded(|| run_case(c, &mut rng, &mut rep));
            if let Err(msg) = r {
                rep.mismatch(&format!("dumpmodel:{}:panic", c["facet"].as_str().unwrap()), json!({"case": c, "panic": msg}));
            }
            // one agreeing case per facet as a sample of what was compared
            if rep.mismatches == before && !rep.samples.iter().any(|x| x["facet"] == c["facet"]) {
                rep.sample(json!({"facet": c["facet"], "endian": c["endian"], "model": c["m"], "result": "read back equal to the model"}));
            }
        }
    }
    let r = guarded(|| templates(&mut rep));
    if let Err(msg) = r {
        rep.mismatch("dumpmodel:template:panic", json!({"panic": msg}));
    }
    rep.class("templates");
    rep.finish();
}
