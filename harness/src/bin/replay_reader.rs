//! C01 binding.  A case is a byte string derived from a valid template dump (field substitution, truncation, several
//! simultaneous field values chosen by DumpReader.tla, raw hand-made files, random bytes).  Cases run in worker
//! processes: a counting allocator refuses any request that would take the case above the bound the property allows
//! (8 MiB + 256 L + L^2), panics are caught, the parent watches the clock.  One record per case goes to the parent,
//! which aggregates them for Trace_DumpReader.tla.
//!
//! usage: replay_reader run <cases.ndjson> <out.ndjson> [workers]      (parent)
//!        replay_reader worker <cases.ndjson> <first-index>            (child)
//!        replay_reader gen <sweep|trunc|rand|model <tlc-out>> <out-cases.ndjson>
use serde_json::{json, Value};
use std::alloc::{GlobalAlloc, Layout, System};
use std::io::{BufRead, BufReader, Write};
use std::sync::atomic::{AtomicUsize, Ordering};
use vharness::rich;

struct Counting;
static CUR: AtomicUsize = AtomicUsize::new(0);
static PEAK: AtomicUsize = AtomicUsize::new(0);
static CAP: AtomicUsize = AtomicUsize::new(usize::MAX);
static REFUSED: AtomicUsize = AtomicUsize::new(0);
unsafe impl GlobalAlloc for Counting {
    unsafe fn alloc(&self, l: Layout) -> *mut u8 {
        let cur = CUR.load(Ordering::Relaxed);
        if l.size() > CAP.load(Ordering::Relaxed).saturating_sub(cur) {
            REFUSED.store(l.size(), Ordering::SeqCst);
            return std::ptr::null_mut();
        }
        let p = System.alloc(l);
        if !p.is_null() {
            let n = CUR.fetch_add(l.size(), Ordering::Relaxed) + l.size();
            PEAK.fetch_max(n, Ordering::Relaxed);
        }
        p
    }
    unsafe fn dealloc(&self, p: *mut u8, l: Layout) {
        System.dealloc(p, l);
        CUR.fetch_sub(l.size(), Ordering::Relaxed);
    }
    unsafe fn realloc(&self, p: *mut u8, l: Layout, new: usize) -> *mut u8 {
        let cur = CUR.load(Ordering::Relaxed);
        if new > l.size() && new - l.size() > CAP.load(Ordering::Relaxed).saturating_sub(cur) {
            REFUSED.store(new, Ordering::SeqCst);
            return std::ptr::null_mut();
        }
        let q = System.realloc(p, l, new);
        if !q.is_null() {
            if new >= l.size() {
                let n = CUR.fetch_add(new - l.size(), Ordering::Relaxed) + (new - l.size());
                PEAK.fetch_max(n, Ordering::Relaxed);
            } else {
                CUR.fetch_sub(l.size() - new, Ordering::Relaxed);
            }
        }
        q
    }
}
#[global_allocator]
static A: Counting = Counting;

fn allowed(len: usize) -> usize {
    (8usize << 20).saturating_add(256usize.saturating_mul(len)).saturating_add(len.saturating_mul(len))
}

// ------------------------------------------------------------------------------------------------ case -> bytes
fn templates() -> Vec<(String, Vec<u8>)> {
    let mut v = vec![];
    for f in rich::FLAVOURS {
        for big in [false, true] {
            v.push((format!("{}{}", f, if big { "-be" } else { "" }), rich::template_with_exception(f, big, 3)));
        }
    }
    v
}

fn put(bytes: &mut [u8], off: usize, width: usize, v: u64, big: bool) {
    if off + width > bytes.len() {
        return;
    }
    let b = if big { v.to_be_bytes()[8 - width..].to_vec() } else { v.to_le_bytes()[..width].to_vec() };
    bytes[off..off + width].copy_from_slice(&b);
}

fn case_bytes(c: &Value, tpl: &[(String, Vec<u8>)]) -> Vec<u8> {
    match c["k"].as_str().unwrap() {
        "subst" | "multi" => {
            let t = &tpl[c["t"].as_u64().unwrap() as usize].1;
            let big = &t[0..4] == b"PMDM";
            let mut b = t.clone();
            for p in c["p"].as_array().unwrap() {
                put(&mut b, p[0].as_u64().unwrap() as usize, p[1].as_u64().unwrap() as usize, p[2].as_u64().unwrap(), big);
            }
            if let Some(n) = c["trunc"].as_u64() {
                b.truncate(n as usize);
            }
            b
        }
        "trunc" => {
            // the file is cut at `len`; with "keepdir" the directory (which the writer puts last) is re-attached behind the
            // cut, so that every stream whose data straddles the cut is reached
            let t = &tpl[c["t"].as_u64().unwrap() as usize].1;
            let big = &t[0..4] == b"PMDM";
            let len = (c["len"].as_u64().unwrap() as usize).min(t.len());
            let mut b = t[..len].to_vec();
            if c["keepdir"].as_bool().unwrap_or(false) && len >= 32 {
                let (count, dir, _) = rich::layout(t);
                let at = b.len();
                b.extend_from_slice(&t[dir..dir + 12 * count]);
                put(&mut b, 12, 4, at as u64, big);
            }
            b
        }
        "text" => {
            // replace the contents of one stream: the new contents go to the end of the file, the directory entry follows
            let t = &tpl[c["t"].as_u64().unwrap() as usize].1;
            let big = &t[0..4] == b"PMDM";
            let (_, _, streams) = rich::layout(t);
            let ty = c["ty"].as_u64().unwrap() as u32;
            let h = c["hex"].as_str().unwrap();
            let content: Vec<u8> = (0..h.len() / 2).map(|i| u8::from_str_radix(&h[2 * i..2 * i + 2], 16).unwrap()).collect();
            let mut b = t.clone();
            if let Some(s) = streams.iter().find(|s| s.stream_type == ty) {
                let at = b.len();
                b.extend_from_slice(&content);
                put(&mut b, s.dir_entry_at + 4, 4, content.len() as u64, big);
                put(&mut b, s.dir_entry_at + 8, 4, at as u64, big);
            }
            b
        }
        "rand" => {
            use rand::{Rng, SeedableRng};
            let mut r = rand::rngs::StdRng::seed_from_u64(c["seed"].as_u64().unwrap());
            let len = c["len"].as_u64().unwrap() as usize;
            let mut b: Vec<u8> = (0..len).map(|_| r.gen()).collect();
            if c["hdr"].as_bool().unwrap_or(false) && len >= 32 {
                // a plausible header and directory so that the bytes behind it are reached
                let n = r.gen_range(1..6u32);
                b[0..4].copy_from_slice(b"MDMP");
                b[4..8].copy_from_slice(&0xa793u32.to_le_bytes());
                b[8..12].copy_from_slice(&n.to_le_bytes());
                b[12..16].copy_from_slice(&32u32.to_le_bytes());
                let types = [3u32, 4, 5, 6, 7, 9, 12, 14, 15, 16, 17, 24, 0x4767_0001, 0x4767_0002, 0x4767_0003, 0x4767_0004, 0x4767_0005, 0x4767_0007, 0x4767_0008, 0x4767_0009, 0x4350_0001, 0x4d7a_0001, 0x4d7a_0002, 0x4767_0006];
                for i in 0..n as usize {
                    let at = 32 + 12 * i;
                    if at + 12 > len {
                        break;
                    }
                    let ty = types[r.gen_range(0..types.len())];
                    let rva = r.gen_range(0..len as u32);
                    let size = r.gen_range(0..(len as u32 - rva + 2));
                    b[at..at + 4].copy_from_slice(&ty.to_le_bytes());
                    b[at + 4..at + 8].copy_from_slice(&size.to_le_bytes());
                    b[at + 8..at + 12].copy_from_slice(&rva.to_le_bytes());
                }
            }
            b
        }
        "raw" => {
            let h = c["hex"].as_str().unwrap();
            (0..h.len() / 2).map(|i| u8::from_str_radix(&h[2 * i..2 * i + 2], 16).unwrap()).collect()
        }
        k => panic!("unknown case kind {}", k),
    }
}

// ------------------------------------------------------------------------------------------------ worker
fn worker(cases: &str, first: usize) {
    vharness::install_panic_capture();
    let tpl = templates();
    let f = std::fs::File::open(cases).expect("cases");
    let out = std::io::stdout();
    for (i, line) in BufReader::new(f).lines().enumerate() {
        if i < first {
            continue;
        }
        let c: Value = serde_json::from_str(&line.unwrap()).expect("case json");
        let bytes = case_bytes(&c, &tpl);
        {
            let mut o = out.lock();
            writeln!(o, "B {} {}", i, bytes.len()).unwrap();
            o.flush().unwrap();
        }
        let base = CUR.load(Ordering::SeqCst);
        PEAK.store(base, Ordering::SeqCst);
        CAP.store(base.saturating_add(allowed(bytes.len())), Ordering::SeqCst);
        let t0 = std::time::Instant::now();
        let r = vharness::guarded(|| vharness::reader::drive(&bytes));
        let ms = t0.elapsed().as_millis() as u64;
        CAP.store(usize::MAX, Ordering::SeqCst);
        let peak = PEAK.load(Ordering::SeqCst).saturating_sub(base);
        let rec = match r {
            Ok(o) => json!({"i": i, "len": bytes.len(), "outcome": if o.opened { "ok" } else { "err" }, "peak": peak, "ms": ms, "streams_ok": o.streams_ok, "msg": "", "errs": o.errs, "meta": c["meta"]}),
            Err(m) => json!({"i": i, "len": bytes.len(), "outcome": "panic", "peak": peak, "ms": ms, "streams_ok": 0, "msg": m, "meta": c["meta"]}),
        };
        let mut o = out.lock();
        writeln!(o, "E {}", rec).unwrap();
        o.flush().unwrap();
    }
}

// ------------------------------------------------------------------------------------------------ parent
fn run(cases: &str, out_path: &str, nworkers: usize) {
    let total = BufReader::new(std::fs::File::open(cases).unwrap()).lines().count();
    let exe = std::env::current_exe().unwrap();
    // split the index space into contiguous slices, one per worker
    let per = (total + nworkers - 1) / nworkers.max(1);
    let mut handles = vec![];
    for w in 0..nworkers {
        let (lo, hi) = (w * per, ((w + 1) * per).min(total));
        if lo >= hi {
            continue;
        }
        let (exe, cases) = (exe.clone(), cases.to_string());
        handles.push(std::thread::spawn(move || {
            let mut recs: Vec<Value> = vec![];
            let mut next = lo;
            while next < hi {
                let errf = tempfile::NamedTempFile::new().unwrap();
                let mut child = std::process::Command::new(&exe).args(["worker", &cases, &next.to_string()]).stdout(std::process::Stdio::piped())
                    .stderr(errf.reopen().unwrap()).env("RUST_BACKTRACE", "0").spawn().expect("spawn worker");
                let stdout = child.stdout.take().unwrap();
                let (tx, rx) = std::sync::mpsc::channel::<String>();
                let rd = std::thread::spawn(move || {
                    for l in BufReader::new(stdout).lines().flatten() {
                        if tx.send(l).is_err() {
                            break;
                        }
                    }
                });
                let mut current: Option<(usize, usize)> = None;
                let mut died = None;
                loop {
                    match rx.recv_timeout(std::time::Duration::from_secs(30)) {
                        Ok(l) => {
                            if let Some(r) = l.strip_prefix("B ") {
                                let mut it = r.split(' ');
                                current = Some((it.next().unwrap().parse().unwrap(), it.next().unwrap().parse().unwrap()));
                            } else if let Some(r) = l.strip_prefix("E ") {
                                let v: Value = serde_json::from_str(r).unwrap();
                                next = v["i"].as_u64().unwrap() as usize + 1;
                                recs.push(v);
                                current = None;
                                if next >= hi {
                                    let _ = child.kill();
                                    break;
                                }
                            }
                        }
                        Err(std::sync::mpsc::RecvTimeoutError::Timeout) => {
                            let _ = child.kill();
                            died = Some("hang");
                            break;
                        }
                        Err(std::sync::mpsc::RecvTimeoutError::Disconnected) => {
                            died = Some("abort");
                            break;
                        }
                    }
                }
                let _ = child.wait();
                let _ = rd.join();
                if let Some(how) = died {
                    match current {
                        Some((i, len)) => {
                            let err = std::fs::read_to_string(errf.path()).unwrap_or_default();
                            let msg: String = err.lines().rev().find(|l| !l.trim().is_empty()).unwrap_or("").chars().take(160).collect();
                            recs.push(json!({"i": i, "len": len, "outcome": how, "peak": 0, "ms": 0, "streams_ok": 0, "msg": msg}));
                            next = i + 1;
                        }
                        None => {
                            if next >= hi {
                                break;
                            }
                            // died between cases: not attributable to an input
                            eprintln!("TOOL-FAILURE worker died outside a case at index {}", next);
                            std::process::exit(2);
                        }
                    }
                }
            }
            recs
        }));
    }
    let mut all: Vec<Value> = vec![];
    for h in handles {
        all.extend(h.join().unwrap());
    }
    all.sort_by_key(|v| v["i"].as_u64().unwrap());
    let mut f = std::io::BufWriter::new(std::fs::File::create(out_path).unwrap());
    for r in &all {
        writeln!(f, "{}", r).unwrap();
    }
    let mut by: std::collections::BTreeMap<String, u64> = Default::default();
    for r in &all {
        *by.entry(r["outcome"].as_str().unwrap().to_string()).or_insert(0) += 1;
    }
    println!("SUMMARY {}", json!({"cases": total, "records": all.len(), "outcomes": by}));
}


// ------------------------------------------------------------------------------------------------ the tool's --dump printer
fn cli_run(cases: &str, out_path: &str, binary: &str, work: &str, nthreads: usize) {
    let tpl = std::sync::Arc::new(templates());
    let lines: Vec<String> = BufReader::new(std::fs::File::open(cases).unwrap()).lines().flatten().collect();
    let lines = std::sync::Arc::new(lines);
    std::fs::create_dir_all(work).unwrap();
    let next = std::sync::Arc::new(std::sync::atomic::AtomicUsize::new(0));
    let mut handles = vec![];
    for w in 0..nthreads {
        let (tpl, lines, next, binary, work) = (tpl.clone(), lines.clone(), next.clone(), binary.to_string(), work.to_string());
        handles.push(std::thread::spawn(move || {
            let mut recs: Vec<Value> = vec![];
            loop {
                let i = next.fetch_add(1, Ordering::SeqCst);
                if i >= lines.len() { break; }
                let c: Value = serde_json::from_str(&lines[i]).expect("case json");
                let bytes = case_bytes(&c, &tpl);
                let path = format!("{}/cli{}.dmp", work, w);
                std::fs::write(&path, &bytes).unwrap();
                for brief in [false, true] {
                    let mut cmd = std::process::Command::new(&binary);
                    cmd.arg("--dump").arg("--no-color");
                    if brief { cmd.arg("--brief"); }
                    let mut child = cmd.arg(&path).env("RUST_BACKTRACE", "0").stdout(std::process::Stdio::null()).stderr(std::process::Stdio::piped()).spawn().expect("spawn minidump-stackwalk");
                    let t0 = std::time::Instant::now();
                    let status = loop {
                        match child.try_wait().unwrap() {
                            Some(st) => break Some(st),
                            None if t0.elapsed().as_secs() >= 30 => { let _ = child.kill(); let _ = child.wait(); break None; }
                            None => std::thread::sleep(std::time::Duration::from_millis(2)),
                        }
                    };
                    let mut err = String::new();
                    if let Some(mut e) = child.stderr.take() { use std::io::Read; let _ = e.read_to_string(&mut err); }
                    let outcome = match status.map(|s| s.code()) { None => "hang", Some(Some(0)) => "ok", Some(Some(1)) => "err", Some(Some(101)) => "panic", Some(Some(_)) => "abort", Some(None) => "abort" };
                    let msg: String = if matches!(outcome, "ok" | "err") { String::new() } else { err.lines().find(|l| l.contains("anic")).or(err.lines().last()).unwrap_or("").chars().take(160).collect() };
                    recs.push(json!({"i": i, "len": bytes.len(), "outcome": outcome, "peak": 0, "ms": t0.elapsed().as_millis() as u64, "streams_ok": 0, "msg": msg, "brief": brief}));
                    if outcome != "ok" && outcome != "err" { break; }
                }
            }
            recs
        }));
    }
    let mut all: Vec<Value> = vec![];
    for h in handles { all.extend(h.join().unwrap()); }
    all.sort_by_key(|v| (v["i"].as_u64().unwrap(), v["brief"].as_bool().unwrap()));
    // one record per case: the worst of the two invocations
    let mut per: std::collections::BTreeMap<u64, Value> = Default::default();
    for r in all {
        let i = r["i"].as_u64().unwrap();
        let bad = |v: &Value| !matches!(v["outcome"].as_str().unwrap(), "ok" | "err");
        match per.get(&i) { Some(old) if bad(old) || !bad(&r) => {} _ => { per.insert(i, r); } }
    }
    let mut f = std::io::BufWriter::new(std::fs::File::create(out_path).unwrap());
    let mut by: std::collections::BTreeMap<String, u64> = Default::default();
    for r in per.values() {
        writeln!(f, "{}", r).unwrap();
        *by.entry(r["outcome"].as_str().unwrap().to_string()).or_insert(0) += 1;
    }
    println!("SUMMARY {}", json!({"cases": lines.len(), "records": per.len(), "outcomes": by}));
}

// ------------------------------------------------------------------------------------------------ generators
fn boundary(len: usize) -> Vec<u64> {
    let l = len as u64;
    vec![0, 1, l - 1, l, l + 1, 1 << 31, (1 << 32) - 1]
}

fn gen(kind: &str, arg: Option<&str>, out: &str) {
    let tpl = templates();
    let mut f = std::io::BufWriter::new(std::fs::File::create(out).unwrap());
    let thorough = vharness::thorough();
    match kind {
        "sweep" => {
            // every 32-bit word of the header, the directory and every stream (and of what the streams point to: the whole
            // file for the small templates) replaced by each boundary value
            for (t, (name, bytes)) in tpl.iter().enumerate() {
                let (_, dir, streams) = rich::layout(bytes);
                let mut offs: Vec<usize> = (0..32).step_by(4).collect();
                offs.extend((dir..dir + 12 * streams.len()).step_by(4));
                // words are taken relative to each stream's start (streams are not aligned in the file) ...
                for s in &streams {
                    offs.extend((s.rva..(s.rva + s.size.min(if thorough { 8192 } else { 256 })).min(bytes.len() - 3)).step_by(4));
                }
                // ... and, for what the streams point to (strings, contexts, CodeView records, nested lists), at every
                // alignment over the whole file for some templates
                let whole = name.contains("small") || thorough || name == "windows-x86" || name == "linux-amd64-be" || name == "mac-arm64";
                if whole {
                    let step = if name.contains("small") || thorough { 1 } else { 2 };
                    offs.extend((32..bytes.len() - 3).step_by(step));
                }
                offs.sort();
                offs.dedup();
                for off in offs {
                    for v in boundary(bytes.len()) {
                        writeln!(f, "{}", json!({"k": "subst", "t": t, "p": [[off, 4, v]]})).unwrap();
                    }
                    // 16-bit fields (architecture, counts in CodeView / misc records) and 64-bit ones
                    for v in [0u64, 0xffff, 0x8000] {
                        writeln!(f, "{}", json!({"k": "subst", "t": t, "p": [[off, 2, v]]})).unwrap();
                    }
                    if off % 8 == 0 {
                        for v in [u64::MAX, u64::MAX - 1, 1u64 << 63, (bytes.len() as u64) << 32] {
                            writeln!(f, "{}", json!({"k": "subst", "t": t, "p": [[off, 8, v]]})).unwrap();
                        }
                    }
                }
            }
        }
        "clidump" => {
            // cases for the command-line tool's own raw-dump printer (minidump-stackwalk --dump, main.rs print_minidump_dump):
            // every template as it is, every directory entry with its size / location replaced by boundary values (which yields
            // empty, truncated and misplaced streams of every type), and every template truncated at a few places
            for (t, (_, bytes)) in tpl.iter().enumerate() {
                writeln!(f, "{}", json!({"k": "subst", "t": t, "p": []})).unwrap();
                let (_, _, streams) = rich::layout(bytes);
                for s in &streams {
                    for (field, width) in [(4usize, 4usize), (8, 4)] {
                        for v in boundary(bytes.len()) {
                            writeln!(f, "{}", json!({"k": "subst", "t": t, "p": [[s.dir_entry_at + field, width, v]]})).unwrap();
                        }
                    }
                    // an empty stream that is still inside the file
                    writeln!(f, "{}", json!({"k": "subst", "t": t, "p": [[s.dir_entry_at + 4, 4, 0], [s.dir_entry_at + 8, 4, 32]]})).unwrap();
                }
                for len in [bytes.len() / 2, bytes.len() - 1] {
                    writeln!(f, "{}", json!({"k": "trunc", "t": t, "len": len, "keepdir": true})).unwrap();
                }
            }
        }
        "trunc" => {
            for (t, (_, bytes)) in tpl.iter().enumerate() {
                let step = if thorough { 1 } else { 3 };
                for len in (0..bytes.len()).step_by(step) {
                    writeln!(f, "{}", json!({"k": "trunc", "t": t, "len": len, "keepdir": len >= 32})).unwrap();
                }
                for len in (0..bytes.len()).step_by(64).chain(bytes.len() - 40..bytes.len()) {
                    writeln!(f, "{}", json!({"k": "trunc", "t": t, "len": len, "keepdir": false})).unwrap();
                }
            }
        }
        "text" => {
            let hex = |b: &[u8]| b.iter().map(|x| format!("{:02x}", x)).collect::<String>();
            let mut texts: Vec<Vec<u8>> = vec![];
            for k in ["", "k", "\"", "\"k\"", "\"k", "k\"", "Max open files"] {
                for sep in [":", "=", "\t: ", "", " "] {
                    for v in ["", "v", "\"", "\"\"", "\"v", "v\"", "\"v\"", " \" "] {
                        for end in ["\n", "\0", "", "\n\n", "\r\n"] {
                            texts.push(format!("{}{}{}{}", k, sep, v, end).into_bytes());
                            texts.push(format!("a=b\n{}{}{}{}c:d\n", k, sep, v, end).into_bytes());
                        }
                    }
                }
            }
            for m in ["0-0 ", "0-0", "-", "1000-2000", "ffffffffffffffff-0 r-xp 0 0:0 0", "10000000000000000-1 r-xp 0 0:0 0", "1000-2000 r 0 0:0 0", "2000-1000 rwxp 00000000 00:00 0 x",
                      "1000-2000 rwxp zz 00:00 0", "1000-2000 rwxp 0 00 0", "1000-2000 rwxp 0 0:0 99999999999999999999999", "1000-2000 rwxp 0 0:0 0 \u{0}name", "1000-2000 rwxp 0 0:0 0  /with  spaces (deleted)",
                      "0-ffffffffffffffff rwxp 0 0:0 0", "fffffffffffff000-ffffffffffffffff ---p 0 0:0 0", "Limit Soft Hard Units\nMax cpu time\n", "Limit\n\nMax\n", "Max a b c d e f g h\n",
                      "[", "[{\"a\":", "null", "[1,2", "{\"x\": \"\\ud800\"}", "\u{feff}[]"] {
                texts.push(m.as_bytes().to_vec());
                texts.push(format!("{}\n", m).into_bytes());
            }
            texts.push(vec![0xff, 0xfe, b'=', 0xff, b'\n']);
            texts.push(vec![b'"']);
            texts.push(vec![b'"', b'=', b'"']);
            texts.push(vec![b'a'; 70000]);
            texts.push(std::iter::repeat(b"k=v\n".iter().copied()).take(20000).flatten().collect());
            texts.push(vec![]);
            let types = [0x4767_0003u32, 0x4767_0004, 0x4767_0005, 0x4767_0006, 0x4767_0007, 0x4767_0009, 0x4d7a_0003, 0x4d7a_0004];
            let t_le = tpl.iter().position(|(n, _)| n == "linux-amd64").unwrap();
            let t_be = tpl.iter().position(|(n, _)| n == "linux-amd64-be").unwrap();
            for (i, text) in texts.iter().enumerate() {
                for ty in types {
                    writeln!(f, "{}", json!({"k": "text", "t": if i % 5 == 0 { t_be } else { t_le }, "ty": ty, "hex": hex(text)})).unwrap();
                }
            }
        }
        "rand" => {
            let n = if thorough { 60000 } else { 6000 };
            let seed = vharness::seed();
            for i in 0..n {
                let len = [0usize, 1, 31, 32, 33, 44, 60, 112, 256, 1024, 4096][i % 11] + (i % 7);
                writeln!(f, "{}", json!({"k": "rand", "seed": seed * 1_000_003 + i as u64, "len": len, "hdr": i % 3 != 0})).unwrap();
            }
        }
        "model" => {
            let mut n = 0;
            vharness::for_each_case(arg.expect("tlc output"), "CASE", |c| {
                for case in vharness::readercases::instantiate(&c, &tpl) {
                    writeln!(f, "{}", case).unwrap();
                    n += 1;
                }
            });
            eprintln!("model cases: {}", n);
        }
        _ => panic!("unknown generator"),
    }
}

fn main() {
    let args: Vec<String> = std::env::args().collect();
    match args.get(1).map(|s| s.as_str()) {
        Some("worker") => worker(&args[2], args[3].parse().unwrap()),
        Some("cli") => cli_run(&args[2], &args[3], &args[4], &args[5], args.get(6).and_then(|s| s.parse().ok()).unwrap_or(12)),
        Some("run") => run(&args[2], &args[3], args.get(4).and_then(|s| s.parse().ok()).unwrap_or(12)),
        Some("gen") => {
            if args[2] == "model" {
                gen("model", Some(&args[3]), &args[4])
            } else {
                gen(&args[2], None, &args[3])
            }
        }
        _ => {
            eprintln!("usage: replay_reader run|worker|gen ...");
            std::process::exit(2);
        }
    }
}
