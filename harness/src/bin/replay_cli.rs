//! C20 binding, spec -> impl: every option combination x input class of Cli.tla is run on the built
//! minidump-stackwalk binary; exit status, stdout, stderr, --output-file and --cyborg sinks are compared with the
//! specification's outcome, where each report token is obtained IN-PROCESS from the library with the same options
//! on the same bytes (not from a stored snapshot).
use minidump::*;
use minidump_processor::{process_minidump_with_options, ProcessorOptions};
use minidump_unwind::{http_symbol_supplier, simple_symbol_supplier, MultiSymbolProvider, Symbolizer};
use serde_json::{json, Value};
use std::collections::HashMap;
use std::io::Write;
use std::path::{Path, PathBuf};
use std::process::Command;
use std::sync::Mutex;
use vharness::corpus::corpus;
use vharness::dumpgen::{build, DumpSpec};
use vharness::walk::block_on;
use vharness::{for_each_case, guarded, install_panic_capture, Report};

/// The CLI's documented raw-dump order (a frozen transcription of print_minidump_dump; each piece is the library's print).
fn dump_token(bytes: &[u8], brief: bool) -> Option<Vec<u8>> {
    let dump = Minidump::read(bytes).ok()?;
    let mut out: Vec<u8> = vec![];
    let output = &mut out;
    dump.print(output).ok()?;
    let system_info = dump.get_stream::<MinidumpSystemInfo>().ok();
    let mut memory_list = dump.get_stream::<MinidumpMemoryList<'_>>().ok();
    let mut memory64_list = dump.get_stream::<MinidumpMemory64List<'_>>().ok();
    let misc_info = dump.get_stream::<MinidumpMiscInfo>().ok();
    let unified_memory = memory64_list.take().map(UnifiedMemoryList::Memory64).or_else(|| memory_list.take().map(UnifiedMemoryList::Memory));
    if let Ok(thread_list) = dump.get_stream::<MinidumpThreadList<'_>>() { thread_list.print(output, unified_memory.as_ref(), system_info.as_ref(), misc_info.as_ref(), brief).ok()?; }
    if let Ok(l) = dump.get_stream::<MinidumpModuleList>() { l.print(output).ok()?; }
    if let Ok(l) = dump.get_stream::<MinidumpUnloadedModuleList>() { l.print(output).ok()?; }
    if let Ok(h) = dump.get_stream::<MinidumpHandleDataStream>() { h.print(output).ok()?; }
    if let Some(m) = unified_memory { m.print(output, brief).ok()?; }
    if let Some(m) = memory_list { m.print(output, brief).ok()?; }
    if let Some(m) = memory64_list { m.print(output, brief).ok()?; }
    if let Ok(m) = dump.get_stream::<MinidumpMemoryInfoList<'_>>() { m.print(output).ok()?; }
    if let Ok(e) = dump.get_stream::<MinidumpException>() { e.print(output, system_info.as_ref(), misc_info.as_ref()).ok()?; }
    if let Ok(a) = dump.get_stream::<MinidumpAssertion>() { a.print(output).ok()?; }
    if let Some(s) = system_info { s.print(output).ok()?; }
    if let Some(m) = misc_info { m.print(output).ok()?; }
    if let Ok(t) = dump.get_stream::<MinidumpThreadNames>() { t.print(output).ok()?; }
    if let Ok(b) = dump.get_stream::<MinidumpBreakpadInfo>() { b.print(output).ok()?; }
    match dump.get_stream::<MinidumpCrashpadInfo>() {
        Ok(c) => c.print(output).ok()?,
        Err(Error::StreamNotFound) => (),
        Err(_) => write!(output, "MinidumpCrashpadInfo cannot print invalid data").ok()?,
    }
    if let Ok(m) = dump.get_stream::<MinidumpMacCrashInfo>() { m.print(output).ok()?; }
    if let Ok(m) = dump.get_stream::<MinidumpMacBootargs>() { m.print(output).ok()?; }
    use minidump_common::format::MINIDUMP_STREAM_TYPE as T;
    for (stream, name) in [(T::LinuxCmdLine, "LinuxCmdLine"), (T::LinuxEnviron, "LinuxEnviron"), (T::LinuxLsbRelease, "LinuxLsbRelease"), (T::LinuxProcStatus, "LinuxProcStatus"),
                           (T::LinuxCpuInfo, "LinuxCpuInfo"), (T::LinuxMaps, "LinuxMaps"), (T::MozLinuxLimits, "MozLinuxLimits"), (T::MozSoftErrors, "MozSoftErrors")] {
        if let Ok(contents) = dump.get_raw_stream(stream as u32) {
            writeln!(output, "Stream {name}:").ok()?;
            let s = contents.split(|&v| v == 0).map(String::from_utf8_lossy).collect::<Vec<_>>().join("\\0\n");
            write!(output, "{s}\n\n").ok()?;
        }
    }
    Some(out)
}

/// The library's reports for these bytes, options and symbol paths (None = processing fails).
const DEAD_URL: &str = "http://127.0.0.1:9/";
fn library_tokens(bytes: &[u8], features: &str, symbol_paths: &[PathBuf], rfa: bool, http: Option<&(PathBuf, PathBuf)>) -> Option<HashMap<&'static str, Vec<u8>>> {
    let dump = Minidump::read(bytes).ok()?;
    let mut provider = MultiSymbolProvider::new();
    if let Some((cache, tmp)) = http {
        provider.add(Box::new(Symbolizer::new(http_symbol_supplier(symbol_paths.to_vec(), vec![DEAD_URL.to_string()], cache.clone(), tmp.clone(), std::time::Duration::from_secs(1000)))));
    } else if !symbol_paths.is_empty() { provider.add(Box::new(Symbolizer::new(simple_symbol_supplier(symbol_paths.to_vec())))); }
    let mut options = match features { "stable-all" => ProcessorOptions::stable_all(), "unstable-all" => ProcessorOptions::unstable_all(), _ => ProcessorOptions::stable_basic() };
    options.recover_function_args = rfa;
    let state = if http.is_some() {
        // the HTTP client needs a tokio reactor
        tokio::runtime::Builder::new_current_thread().enable_all().build().ok()?.block_on(process_minidump_with_options(&dump, &provider, options)).ok()?
    } else { block_on(Box::pin(process_minidump_with_options(&dump, &provider, options))).ok()? };
    let mut m = HashMap::new();
    let (mut a, mut b, mut c, mut d) = (vec![], vec![], vec![], vec![]);
    state.print(&mut a).ok()?; state.print_brief(&mut b).ok()?; state.print_json(&mut c, false).ok()?; state.print_json(&mut d, true).ok()?;
    m.insert("text", a); m.insert("text_brief", b); m.insert("json", c); m.insert("json_pretty", d);
    Some(m)
}

fn main() {
    install_panic_capture();
    let args: Vec<String> = std::env::args().collect();
    let (path, bin) = (&args[1], &args[2]);
    let work = PathBuf::from(&args[3]);
    std::fs::create_dir_all(&work).unwrap();
    // ---- input files
    let mut valid: Vec<(PathBuf, Vec<u8>)> = vec![];
    for name in ["test.dmp", "linux-mini.dmp", "simple-crashpad.dmp"] {
        let p = PathBuf::from("/repo/testdata").join(name);
        if let Ok(b) = std::fs::read(&p) { if !b.is_empty() { valid.push((p, b)); } }
    }
    for (i, it) in corpus(vharness::seed(), 40).into_iter().enumerate() {
        if it.corrupted || i % 5 != 0 { continue; }
        if Minidump::read(&it.dump[..]).is_err() { continue; }
        let p = work.join(format!("gen{}.dmp", i));
        std::fs::write(&p, &it.dump).unwrap();
        valid.push((p, it.dump));
    }
    // dumps with every stream type (both a MemoryList and a Memory64List among them), one of them big-endian
    for (n, flavour, big) in [("rich-linux.dmp", "linux-amd64", false), ("rich-mac-be.dmp", "mac-arm64", true), ("rich-win.dmp", "windows-x86", false)] {
        let bytes = vharness::rich::template_with_exception(flavour, big, 3);
        let p = work.join(n);
        std::fs::write(&p, &bytes).unwrap();
        valid.push((p, bytes));
    }
    // a dump whose CrashpadInfo stream is present but unreadable (version 0): the raw-dump printer says so, everything else goes on
    {
        let mut b = vharness::rich::template("linux-amd64", false);
        let (_, _, streams) = vharness::rich::layout(&b);
        if let Some(s) = streams.iter().find(|s| s.stream_type == 0x4350_0001) {
            for x in &mut b[s.rva..s.rva + 4] { *x = 0; }
            let p = work.join("rich-badcrashpad.dmp");
            std::fs::write(&p, &b).unwrap();
            valid.push((p, b));
        }
    }
    // a thread whose stack size is not a multiple of the pointer width, and a big-endian dump
    for (n, spec) in [("oddstack.dmp", DumpSpec { threads: vec![vharness::dumpgen::ThreadSpec { id: 7, ctx_ok: true, name: Some("odd".into()), ip: 0x400100, sp: 0x10000, stack_base: 0x10000, stack: vec![0xabu8; 0x1002] }],
                                                    modules: vec![vharness::dumpgen::ModuleSpec { base: 0x400000, size: 0x1000, name: "m1".into() }], ..DumpSpec::default() }),
                      ("bigendian.dmp", DumpSpec { big_endian: true, cpu: "amd64".into(), os: "linux".into(),
                                                     threads: vec![vharness::dumpgen::ThreadSpec { id: 1, ctx_ok: true, name: None, ip: 0x400100, sp: 0x10000, stack_base: 0x10000, stack: vec![1u8; 61] }], ..DumpSpec::default() })] {
        let b = build(&spec);
        let p = work.join(n);
        std::fs::write(&p, &b).unwrap();
        valid.push((p, b));
    }
    let unproc_bytes = build(&DumpSpec { has_thread_list: false, ..DumpSpec::default() });
    let unproc = work.join("nothreads.dmp"); std::fs::write(&unproc, &unproc_bytes).unwrap();
    let notadump = work.join("notadump.txt"); std::fs::write(&notadump, b"MODULE Linux x86 000 this is not a minidump\n").unwrap();
    let empty = work.join("empty.dmp"); std::fs::write(&empty, b"").unwrap();
    let missing = work.join("does-not-exist.dmp");
    let directory = work.join("adir"); std::fs::create_dir_all(&directory).unwrap();
    // the repository's symbol tree, with parameter lists added to bare function names so that --recover-function-args has something to recover
    let symdir = work.join("symbols");
    {
        let src = PathBuf::from("/repo/testdata/symbols/test_app.pdb/5A9832E5287241C1838ED98914E9B7FF1/test_app.sym");
        let dst = symdir.join("test_app.pdb/5A9832E5287241C1838ED98914E9B7FF1");
        std::fs::create_dir_all(&dst).unwrap();
        let text = String::from_utf8_lossy(&std::fs::read(&src).unwrap()).into_owned();
        let mut out = String::new();
        for line in text.lines() {
            if line.starts_with("FUNC ") && !line.contains('(') && line.split(' ').count() == 5 { out.push_str(line); out.push_str("(int, char**)\n"); }
            else { out.push_str(line); out.push('\n'); }
        }
        std::fs::write(dst.join("test_app.sym"), out).unwrap();
    }
    let emptysyms = work.join("nosyms"); std::fs::create_dir_all(&emptysyms).unwrap();
    // --symbols-url cases: an unreachable server, the symbol file already in the cache; once with explicit --symbols-cache / --symbols-tmp,
    // once with the documented defaults (<temp dir>/rust-minidump-cache and <temp dir>)
    let httptmp = work.join("httptmp"); std::fs::create_dir_all(&httptmp).unwrap();
    let tmproot = work.join("tmproot");
    {
        let dst = tmproot.join("rust-minidump-cache/test_app.pdb/5A9832E5287241C1838ED98914E9B7FF1");
        std::fs::create_dir_all(&dst).unwrap();
        std::fs::copy(symdir.join("test_app.pdb/5A9832E5287241C1838ED98914E9B7FF1/test_app.sym"), dst.join("test_app.sym")).unwrap();
    }

    let mut cases: Vec<Value> = vec![];
    for_each_case(path, "CASE", |c| cases.push(c));
    let rep = Mutex::new(Report::new());
    let token_cache: Mutex<HashMap<String, Option<HashMap<&'static str, Vec<u8>>>>> = Mutex::new(HashMap::new());
    let next = std::sync::atomic::AtomicUsize::new(0);
    std::thread::scope(|sc| {
        for _w in 0..12 {
            sc.spawn(|| loop {
                let i = next.fetch_add(1, std::sync::atomic::Ordering::SeqCst);
                if i >= cases.len() { break; }
                let c = &cases[i];
                let nvariants = if c["input"] == "valid" && c["symbols"] == "none" && c["out"]["exit"] == "zero" { valid.len() } else { 1 };
                for variant in 0..nvariants {
                let dir = work.join(format!("run{}_{}", i, variant));
                std::fs::create_dir_all(&dir).unwrap();
                let inp = c["input"].as_str().unwrap();
                // symbol-path cases use the corpus dump that has symbols on disk
                let vi = if c["symbols"] != "none" { 0 } else if nvariants > 1 { variant } else { i % valid.len() };
                let (dump_path, dump_bytes): (PathBuf, Vec<u8>) = match inp {
                    "valid" => valid[vi].clone(), "unprocessable" => (unproc.clone(), unproc_bytes.clone()), "notadump" => (notadump.clone(), vec![]),
                    "empty" => (empty.clone(), vec![]), "missing" => (missing.clone(), vec![]), _ => (directory.clone(), vec![]),
                };
                let mut cmd = Command::new(bin);
                let modes: Vec<&str> = c["modes"].as_array().unwrap().iter().map(|m| m.as_str().unwrap()).collect();
                let sink = c["sink"].as_str().unwrap_or("ok");
                let logf = c["logf"].as_str().unwrap_or("none");
                let cy = if sink == "cyborg_bad" { dir.join("no-such-dir/cyborg.json") } else { dir.join("cyborg.json") };
                let of = if sink == "outfile_bad" { dir.join("no-such-dir/out.txt") } else if sink == "outfile_full" { PathBuf::from("/dev/full") } else { dir.join("out.txt") };
                let lf = if logf == "bad" { dir.join("no-such-dir/log.txt") } else { dir.join("log.txt") };
                if logf != "none" { cmd.arg("--log-file").arg(&lf); }
                for m in &modes { match *m { "cyborg" => { cmd.arg("--cyborg").arg(&cy); } other => { cmd.arg(format!("--{}", other)); } } }
                if c["brief"].as_bool().unwrap() { cmd.arg("--brief"); }
                if c["pretty"].as_bool().unwrap() { cmd.arg("--pretty"); }
                if c["outfile"].as_bool().unwrap() { cmd.arg("--output-file").arg(&of); }
                let features = c["features"].as_str().unwrap();
                if features != "stable-basic" { cmd.arg(format!("--features={}", features)); }
                let rfa = c["rfa"].as_bool().unwrap_or(false);
                if rfa { cmd.arg("--recover-function-args"); }
                let mut sym_paths: Vec<PathBuf> = vec![];
                match c["symbols"].as_str().unwrap() {
                    "flag" => { cmd.arg("--symbols-path").arg(&symdir); sym_paths.push(symdir.clone()); }
                    "both" => { cmd.arg("--symbols-path").arg(&emptysyms); sym_paths.push(emptysyms.clone()); }
                    "http_cache" => { cmd.arg("--symbols-url").arg(DEAD_URL).arg("--symbols-cache").arg(&symdir).arg("--symbols-tmp").arg(&httptmp); }
                    "http_default" => { cmd.arg("--symbols-url").arg(DEAD_URL).env("TMPDIR", &tmproot); }
                    _ => {}
                }
                let http: Option<(PathBuf, PathBuf)> = match c["symbols"].as_str().unwrap() { "http_cache" => Some((symdir.clone(), httptmp.clone())), "http_default" => Some((tmproot.join("rust-minidump-cache"), tmproot.clone())), _ => None };
                cmd.arg(&dump_path);
                if matches!(c["symbols"].as_str().unwrap(), "positional" | "both") { cmd.arg(&symdir); sym_paths.push(symdir.clone()); }
                cmd.env("RUST_BACKTRACE", "0").current_dir(&dir);
                let out = match cmd.output() { Ok(o) => o, Err(e) => { rep.lock().unwrap().mismatch("cli:spawn", json!({"error": e.to_string()})); continue; } };
                let exp = &c["out"];
                // expected bytes per sink
                let key = format!("{}|{}|{:?}|{}|{:?}", dump_path.display(), features, sym_paths, rfa, http);
                let toks = { let mut tc = token_cache.lock().unwrap();
                    if !tc.contains_key(&key) { let v = if dump_bytes.is_empty() { None } else { guarded(|| library_tokens(&dump_bytes, features, &sym_paths, rfa, http.as_ref())).ok().flatten() }; tc.insert(key.clone(), v); }
                    tc[&key].clone() };
                let tok = |names: &Value| -> Option<Vec<u8>> {
                    let mut v = vec![];
                    for n in names.as_array().unwrap() {
                        let n = n.as_str().unwrap();
                        match n { "dump" => v.extend(guarded(|| dump_token(&dump_bytes, false)).ok().flatten()?), "dump_brief" => v.extend(guarded(|| dump_token(&dump_bytes, true)).ok().flatten()?), other => v.extend(toks.as_ref()?.get(other)?.clone()) }
                    }
                    Some(v)
                };
                let status = out.status.code();
                let got_exit = match status { Some(0) => "zero", Some(1) => "one", Some(2) => "usage", Some(101) => "panic", Some(_) => "other", None => "signal" };
                let mut exp_exit = exp["exit"].as_str().unwrap().to_string();
                let mut exp_primary = tok(&exp["primary"]);
                let mut exp_cyborg = tok(&exp["cyborg"]);
                // the specification's "valid" means processable: if the library itself cannot process this particular file the tool must fail
                if exp_exit == "zero" && (exp_primary.is_none() || exp_cyborg.is_none()) { exp_exit = "one".into(); exp_primary = Some(vec![]); exp_cyborg = Some(vec![]); }
                let primary_bytes = if sink == "outfile_full" { vec![] } else if c["outfile"].as_bool().unwrap() { std::fs::read(&of).unwrap_or_default() } else { out.stdout.clone() };
                let cyborg_bytes = std::fs::read(&cy).unwrap_or_default();
                let mut r = rep.lock().unwrap();
                r.evaluations += 1;
                r.class(&format!("exit:{}", exp_exit));
                r.class(&format!("input:{}", inp));
                r.class(&format!("symbols:{}", c["symbols"].as_str().unwrap()));
                if sink != "ok" { r.class(&format!("sink:{}", sink)); }
                if logf != "none" { r.class(&format!("logf:{}:{}", logf, exp["diag"].as_str().unwrap_or("-"))); }
                r.nontrivial(&c.to_string());
                let mut fail: Option<&str> = None;
                if got_exit != exp_exit { fail = Some(if matches!(got_exit, "panic" | "signal" | "other") { "abnormal-exit" } else if exp_exit == "zero" { "unexpected-failure" } else { "unexpected-success-or-status" }); }
                else if Some(&primary_bytes) != exp_primary.as_ref() { fail = Some(if exp_exit == "zero" { "primary-output-differs-from-library" } else { "output-on-failure" }); }
                else if Some(&cyborg_bytes) != exp_cyborg.as_ref() { fail = Some("cyborg-output"); }
                else if c["outfile"].as_bool().unwrap() && !out.stdout.is_empty() { fail = Some("stdout-not-empty-with-output-file"); }
                else if exp_exit != "zero" && exp["diag"] == "log" && std::fs::read(&lf).unwrap_or_default().is_empty() { fail = Some("no-diagnostic-in-log-file"); }
                else if exp_exit != "zero" && exp["diag"] != "log" && out.stderr.is_empty() { fail = Some("no-diagnostic"); }
                if let Some(f) = fail {
                    let args_: Vec<String> = cmd.get_args().map(|a| a.to_string_lossy().into_owned()).collect();
                    r.mismatch(&format!("cli:{}", f), json!({"args": args_, "expected_exit": exp_exit, "observed_exit": got_exit, "expected_primary_len": exp_primary.as_ref().map(|v| v.len()),
                        "observed_primary_len": primary_bytes.len(), "stderr": String::from_utf8_lossy(&out.stderr).chars().take(300).collect::<String>()}));
                } else if exp_exit == "zero" && r.samples.len() < 5 && modes.len() == 1 {
                    let args_: Vec<String> = cmd.get_args().map(|a| a.to_string_lossy().into_owned()).collect();
                    r.sample(json!({"args": args_, "exit": got_exit, "primary_bytes": primary_bytes.len(), "cyborg_bytes": cyborg_bytes.len()}));
                }
                drop(r);
                let _ = std::fs::remove_dir_all(&dir);
                }
            });
        }
    });
    let _ = Path::new("/");
    rep.lock().unwrap().finish();
}
