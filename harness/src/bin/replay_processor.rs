//! C14 binding, spec -> impl: every dump description TLC reaches in Processor.tla is serialised by the frozen
//! dump writer, processed by the real process_minidump, and the process state is compared with the specification:
//! one call stack per thread entry (ids, names, info), requesting thread, where frame 0 came from, crash address
//! and reason class, process id, per-frame unloaded-module offsets, module list.
use minidump::{Minidump, Module};
use minidump_processor::process_minidump;
use minidump_unwind::{string_symbol_supplier, CallStackInfo, Symbolizer};
use serde_json::{json, Value};
use std::collections::{BTreeMap, BTreeSet, HashMap};
use vharness::dumpgen::*;
use vharness::walk::block_on;
use vharness::{for_each_case, guarded, install_panic_capture, Report};

const EXC_IP: u64 = 0x400900;
fn thread_ip(spot: &str, k: usize) -> u64 {
    match spot { "mod" => 0x400100 + k as u64, "unl" => 0x600100 + k as u64, "unl2" => 0x600900 + k as u64, _ => 0x700000 + k as u64 }
}
fn addr_val(class: &str, base: u64) -> u64 { if class == "hi" { 0xffff_ffff_8000_0000 | base } else { base } }

fn main() {
    install_panic_capture();
    let path = std::env::args().nth(1).unwrap();
    let mut rep = Report::new();
    for_each_case(&path, "CASE", |c| {
        let os = c["plat"][0].as_str().unwrap();
        let cpu = c["plat"][1].as_str().unwrap();
        let mut spec = DumpSpec { os: os.into(), cpu: cpu.into(), ..DumpSpec::default() };
        for (k, t) in c["threads"].as_array().unwrap().iter().enumerate() {
            let id = t["id"].as_u64().unwrap() as u32;
            spec.threads.push(ThreadSpec { id, ctx_ok: t["ctxOk"].as_bool().unwrap(), name: if t["named"].as_bool().unwrap() { Some(format!("T{}", id)) } else { None },
                                           ip: thread_ip(t["spot"].as_str().unwrap(), k), sp: 0x10000 + 0x100 * k as u64, stack_base: 0x10000 + 0x100 * k as u64, stack: vec![0u8; 16] });
        }
        let e = &c["exc"];
        if e["k"] == "some" {
            let code = match e["code"].as_str().unwrap() { "av" => 0xC000_0005u32, "inpage" => 0xC000_0006, _ => 0xC000_001D };
            let mut info = [0u64; 15];
            info[0] = e["kind"].as_u64().unwrap();
            info[1] = addr_val(e["info1"].as_str().unwrap(), 0x1000);
            info[2] = 0xC000_009A;
            spec.exception = Some(ExcSpec { tid: e["tid"].as_u64().unwrap() as u32, has_ctx: e["hasCtx"].as_bool().unwrap(), ctx_ok: e["ctxOk"].as_bool().unwrap(), ctx_ip: EXC_IP, ctx_sp: 0x10000,
                                            code, flags: 0, address: addr_val(e["addr"].as_str().unwrap(), EXC_IP), nparams: e["np"].as_u64().unwrap() as u32, info, ctx_patch: vec![] });
        }
        if c["bp"]["k"] == "some" {
            let f = |v: u64| if v == 0 { None } else { Some(v as u32) };
            spec.breakpad = Some((f(c["bp"]["dump"].as_u64().unwrap()), f(c["bp"]["req"].as_u64().unwrap())));
        }
        spec.misc_pid = match c["misc"].as_str().unwrap() { "pid" => Some(Some(4242)), "nopid" => Some(None), _ => None };
        if c["status"] == "pid" { spec.proc_status = Some("Name:\tx\nPid:\t777\n".into()); }
        spec.modules = vec![ModuleSpec { base: 0x400000, size: 0x1000, name: "m1".into() }];
        // u3 covers none of the probed addresses but sorts between u1 and u2
        spec.unloaded = vec![ModuleSpec { base: 0x600000, size: 0x1000, name: "u1".into() }, ModuleSpec { base: 0x600800, size: 0x1000, name: "u2".into() },
                             ModuleSpec { base: 0x600400, size: 0x100, name: "u3".into() }];
        let bytes = build(&spec);
        let exp = &c["exp"];
        rep.evaluations += 1;
        let res = guarded(|| {
            let dump = Minidump::read(&bytes[..]).map_err(|e| format!("read: {:?}", e))?;
            let provider = Symbolizer::new(string_symbol_supplier(HashMap::new()));
            block_on(Box::pin(process_minidump(&dump, &provider))).map_err(|e| format!("process: {:?}", e))
        });
        let state = match res {
            Ok(Ok(s)) => s,
            Ok(Err(e)) => { rep.mismatch("processor:error", json!({"case": c, "error": e})); return; }
            Err(p) => { rep.mismatch(&format!("processor:panic:{}", p), json!({"case": c})); return; }
        };
        let n = c["threads"].as_array().unwrap().len();
        let mut fail: Option<(&str, Value)> = None;
        if state.threads.len() != n { fail = Some(("thread-count", json!({"observed": state.threads.len()}))); }
        for i in 0..n.min(state.threads.len()) {
            if fail.is_some() { break; }
            let th = &state.threads[i];
            let want_id = exp["ids"][i].as_u64().unwrap() as u32;
            let want_info = exp["infos"][i].as_str().unwrap();
            let got_info = match th.info { CallStackInfo::Ok => "ok", CallStackInfo::DumpThreadSkipped => "skipped", CallStackInfo::MissingContext => "missing_ctx", _ => "other" };
            let want_name = if exp["named"][i].as_bool().unwrap() { Some(format!("T{}", want_id)) } else { None };
            let src = exp["srcs"][i].as_str().unwrap();
            let want_ip = match src { "exception" => Some(EXC_IP), "thread" => Some(thread_ip(c["threads"][i]["spot"].as_str().unwrap(), i)), _ => None };
            let got_ip = th.frames.first().map(|f| f.instruction);
            if th.thread_id != want_id { fail = Some(("thread-id", json!({"index": i, "observed": th.thread_id}))); }
            else if got_info != want_info { fail = Some(("thread-info", json!({"index": i, "expected": want_info, "observed": got_info}))); }
            else if want_info != "skipped" && th.thread_name != want_name { fail = Some(("thread-name", json!({"index": i, "expected": want_name, "observed": th.thread_name}))); }
            else if got_ip != want_ip { fail = Some(("context-source", json!({"index": i, "expected_source": src, "expected_ip": want_ip, "observed_ip": got_ip}))); }
            else {
                let want_unl: BTreeMap<String, BTreeSet<u64>> = exp["unl"][i].as_array().unwrap().iter().map(|u| {
                    let name = u.as_str().unwrap().to_string();
                    let base = if name == "u1" { 0x600000u64 } else { 0x600800 };
                    (name, [want_ip.unwrap_or(0) - base].into_iter().collect())
                }).collect();
                let got_unl = th.frames.first().map(|f| f.unloaded_modules.clone()).unwrap_or_default();
                if got_unl != want_unl { fail = Some(("unloaded-module-offsets", json!({"index": i, "expected": want_unl, "observed": got_unl}))); }
            }
        }
        if fail.is_none() {
            let req: Vec<u64> = exp["req"].as_array().unwrap().iter().map(|v| v.as_u64().unwrap() - 1).collect();
            let ok = match state.requesting_thread { None => req.is_empty(), Some(i) => req.contains(&(i as u64)) };
            if !ok { fail = Some(("requesting-thread", json!({"expected_any_of": req, "observed": state.requesting_thread}))); }
        }
        if fail.is_none() {
            let a = &exp["addr"];
            match (&state.exception_info, a["has"].as_bool().unwrap()) {
                (None, false) => {}
                (Some(info), true) => {
                    let base = if a["src"] == "info1" { 0x1000 } else { EXC_IP };
                    let mut want = addr_val(a["val"].as_str().unwrap(), base);
                    if a["trunc"].as_bool().unwrap() { want &= 0xffff_ffff; }
                    if info.address.0 != want { fail = Some(("crash-address", json!({"expected": format!("{:#x}", want), "observed": format!("{:#x}", info.address.0)}))); }
                    let reason = info.reason.to_string();
                    let want_reason = match exp["reason"].as_str().unwrap() { "av_read" => Some("EXCEPTION_ACCESS_VIOLATION_READ"), "av_write" => Some("EXCEPTION_ACCESS_VIOLATION_WRITE"),
                        "av_exec" => Some("EXCEPTION_ACCESS_VIOLATION_EXEC"), "av" => Some("EXCEPTION_ACCESS_VIOLATION"), _ => None };
                    if let Some(w) = want_reason { if reason != w && fail.is_none() { fail = Some(("crash-reason", json!({"expected": w, "observed": reason}))); } }
                }
                (o, h) => fail = Some(("exception-info-presence", json!({"expected": h, "observed": o.is_some()}))),
            }
        }
        if fail.is_none() {
            let want = match exp["pid"].as_str().unwrap() { "misc" => Some(4242), "status" => Some(777), _ => None };
            if state.process_id != want { fail = Some(("process-id", json!({"expected": want, "observed": state.process_id}))); }
        }
        if fail.is_none() {
            let mods: Vec<String> = state.modules.iter().map(|m| m.code_file().to_string()).collect();
            let unl: Vec<String> = state.unloaded_modules.iter().map(|m| m.code_file().to_string()).collect();
            if mods != vec!["m1".to_string()] || unl != vec!["u1".to_string(), "u2".to_string(), "u3".to_string()] { fail = Some(("module-lists", json!({"modules": mods, "unloaded": unl}))); }
        }
        rep.class(&format!("threads:{}", n));
        if c["exc"]["k"] == "some" { rep.class("with-exception"); }
        if !exp["req"].as_array().unwrap().is_empty() { rep.class("has-requesting-thread"); }
        rep.nontrivial(&c.to_string());
        match fail {
            Some((k, d)) => rep.mismatch(&format!("processor:{}", k), json!({"threads": c["threads"], "exc": c["exc"], "bp": c["bp"], "plat": c["plat"], "misc": c["misc"], "status": c["status"], "detail": d})),
            None => if n == 2 && c["exc"]["k"] == "some" && c["bp"]["k"] == "some" { rep.sample(json!({"threads": c["threads"], "exc": c["exc"], "bp": c["bp"], "expected": exp})); },
        }
    });
    rep.finish();
}
