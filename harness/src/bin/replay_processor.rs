//! C14 binding, spec -> impl: every dump description TLC reaches in Processor.tla is serialised by the frozen
//! dump writer, processed by the real process_minidump, and the process state is compared with the specification:
//! one call stack per thread entry (ids, names, info), requesting thread, where frame 0 came from, crash address
//! and reason class, process id, per-frame unloaded-module offsets, module list.
use minidump::{Minidump, Module};
use minidump_processor::process_minidump;
use minidump_unwind::{string_symbol_supplier, CallStackInfo, Symbolizer};
use serde_json::{json, Value};
use std::collections::{BTreeMap, BTreeSet, HashMap};
use vharness::dumpgen::*;
use vharness::walk::block_on;
use vharness::{for_each_case, guarded, install_panic_capture, Report};

fn main() {
    install_panic_capture();
    let path = std::env::args().nth(1).unwrap();
    let mut rep = Report::new();
    for_each_case(&path, "CASE", |c| {
        let spec = from_processor_case(&c);
        let mut bytes = build(&spec);
        let exp = &c["exp"];
        // thread-name entries whose string cannot be read: the entry keeps its place in the stream, its RVA points outside the file
        {
            let named: Vec<&Value> = c["threads"].as_array().unwrap().iter().filter(|t| t["named"] != "no").collect();
            if named.iter().any(|t| t["named"] == "bad") {
                let (_, _, streams) = vharness::rich::layout(&bytes);
                let s = streams.iter().find(|s| s.stream_type == 24).expect("thread names stream");
                for (k, t) in named.iter().enumerate() {
                    if t["named"] == "bad" { let at = s.rva + 4 + 12 * k + 4; bytes[at..at + 8].copy_from_slice(&0xffff_fff0u64.to_le_bytes()); }
                }
            }
        }
        let stamp: u32 = match c["stamp"].as_str().unwrap_or("zero") { "some" => 1_700_000_000, "max" => u32::MAX, _ => 0 };
        bytes[20..24].copy_from_slice(&stamp.to_le_bytes());     // MINIDUMP_HEADER.time_date_stamp
        rep.evaluations += 1;
        let res = guarded(|| {
            let dump = Minidump::read(&bytes[..]).map_err(|e| format!("read: {:?}", e))?;
            let provider = Symbolizer::new(string_symbol_supplier(HashMap::new()));
            block_on(Box::pin(process_minidump(&dump, &provider))).map_err(|e| format!("process: {:?}", e))
        });
        let state = match res {
            Ok(Ok(s)) => s,
            Ok(Err(e)) => { rep.mismatch("processor:error", json!({"case": c, "error": e})); return; }
            Err(p) => { rep.mismatch(&format!("processor:panic:{}", p), json!({"case": c})); return; }
        };
        let n = c["threads"].as_array().unwrap().len();
        let mut fail: Option<(&str, Value)> = None;
        if state.threads.len() != n { fail = Some(("thread-count", json!({"observed": state.threads.len()}))); }
        for i in 0..n.min(state.threads.len()) {
            if fail.is_some() { break; }
            let th = &state.threads[i];
            let want_id = exp["ids"][i].as_u64().unwrap() as u32;
            let want_info = exp["infos"][i].as_str().unwrap();
            let got_info = match th.info { CallStackInfo::Ok => "ok", CallStackInfo::DumpThreadSkipped => "skipped", CallStackInfo::MissingContext => "missing_ctx", _ => "other" };
            let want_name = if exp["named"][i].as_bool().unwrap() { Some(format!("T{}", want_id)) } else { None };
            let src = exp["srcs"][i].as_str().unwrap();
            let want_ip = match src { "exception" => Some(EXC_IP), "thread" => Some(thread_ip(c["threads"][i]["spot"].as_str().unwrap(), i)), _ => None };
            let got_ip = th.frames.first().map(|f| f.instruction);
            if th.thread_id != want_id { fail = Some(("thread-id", json!({"index": i, "observed": th.thread_id}))); }
            else if got_info != want_info { fail = Some(("thread-info", json!({"index": i, "expected": want_info, "observed": got_info}))); }
            else if want_info != "skipped" && th.thread_name != want_name { fail = Some(("thread-name", json!({"index": i, "expected": want_name, "observed": th.thread_name}))); }
            else if got_ip != want_ip { fail = Some(("context-source", json!({"index": i, "expected_source": src, "expected_ip": want_ip, "observed_ip": got_ip}))); }
            else if { let want = match exp["caller"][i].as_str().unwrap() { "thread_stack" => Some(RA_THREAD - 1), "other_region" => Some(RA_OTHER - 1), _ => None };
                      th.frames.get(1).map(|f| f.instruction) != want } {
                fail = Some(("stack-memory-choice", json!({"index": i, "expected": exp["caller"][i], "observed_caller": th.frames.get(1).map(|f| format!("{:#x}", f.instruction)), "frames": th.frames.len()})));
            }
            else {
                let want_unl: BTreeMap<String, BTreeSet<u64>> = exp["unl"][i].as_array().unwrap().iter().map(|u| {
                    let name = u.as_str().unwrap().to_string();
                    let base = if name == "u1" { 0x600000u64 } else { 0x600800 };
                    (name, [want_ip.unwrap_or(0) - base].into_iter().collect())
                }).collect();
                let got_unl = th.frames.first().map(|f| f.unloaded_modules.clone()).unwrap_or_default();
                if got_unl != want_unl { fail = Some(("unloaded-module-offsets", json!({"index": i, "expected": want_unl, "observed": got_unl}))); }
            }
        }
        if fail.is_none() {
            let req: Vec<u64> = exp["req"].as_array().unwrap().iter().map(|v| v.as_u64().unwrap() - 1).collect();
            let ok = match state.requesting_thread { None => req.is_empty(), Some(i) => req.contains(&(i as u64)) };
            if !ok { fail = Some(("requesting-thread", json!({"expected_any_of": req, "observed": state.requesting_thread}))); }
        }
        if fail.is_none() {
            let a = &exp["addr"];
            match (&state.exception_info, a["has"].as_bool().unwrap()) {
                (None, false) => {}
                (Some(info), true) => {
                    let base = if a["src"] == "info1" { 0x1000 } else { EXC_IP };
                    let mut want = addr_val(a["val"].as_str().unwrap(), base);
                    if a["trunc"].as_bool().unwrap() { want &= 0xffff_ffff; }
                    if info.address.0 != want { fail = Some(("crash-address", json!({"expected": format!("{:#x}", want), "observed": format!("{:#x}", info.address.0)}))); }
                    let reason = info.reason.to_string();
                    let want_reason = match exp["reason"].as_str().unwrap() { "av_read" => Some("EXCEPTION_ACCESS_VIOLATION_READ"), "av_write" => Some("EXCEPTION_ACCESS_VIOLATION_WRITE"),
                        "av_exec" => Some("EXCEPTION_ACCESS_VIOLATION_EXEC"), "av" => Some("EXCEPTION_ACCESS_VIOLATION"), _ => None };
                    if let Some(w) = want_reason { if reason != w && fail.is_none() { fail = Some(("crash-reason", json!({"expected": w, "observed": reason}))); } }
                }
                (o, h) => fail = Some(("exception-info-presence", json!({"expected": h, "observed": o.is_some()}))),
            }
        }
        if fail.is_none() {
            let want = match exp["pid"].as_str().unwrap() { "misc" => Some(4242), "status" => Some(777), _ => None };
            if state.process_id != want { fail = Some(("process-id", json!({"expected": want, "observed": state.process_id}))); }
        }
        if fail.is_none() {
            let secs = |t: std::time::SystemTime| t.duration_since(std::time::UNIX_EPOCH).map(|d| d.as_secs()).ok();
            let want_ctime = if exp["ctime"] == "misc" { Some(1_600_000_000u64) } else { None };
            let got_ctime = state.process_create_time.and_then(secs);
            if state.process_create_time.is_some() != want_ctime.is_some() || got_ctime != want_ctime { fail = Some(("process-create-time", json!({"expected": want_ctime, "observed": got_ctime}))); }
            else if secs(state.time) != Some(stamp as u64) { fail = Some(("dump-time", json!({"expected": stamp, "observed": secs(state.time)}))); }
        }
        if fail.is_none() {
            let mods: Vec<String> = state.modules.iter().map(|m| m.code_file().to_string()).collect();
            let unl: Vec<String> = state.unloaded_modules.iter().map(|m| m.code_file().to_string()).collect();
            if mods != vec!["m1".to_string(), "mtop".to_string()] || unl != vec!["u1".to_string(), "u2".to_string(), "u3".to_string()] { fail = Some(("module-lists", json!({"modules": mods, "unloaded": unl}))); }
        }
        rep.class(&format!("threads:{}", n));
        if c["exc"]["k"] == "some" { rep.class("with-exception"); }
        if !exp["req"].as_array().unwrap().is_empty() { rep.class("has-requesting-thread"); }
        rep.nontrivial(&c.to_string());
        match fail {
            Some((k, d)) => rep.mismatch(&format!("processor:{}", k), json!({"threads": c["threads"], "exc": c["exc"], "bp": c["bp"], "plat": c["plat"], "misc": c["misc"], "status": c["status"], "detail": d})),
            None => if n == 2 && c["exc"]["k"] == "some" && c["bp"]["k"] == "some" { rep.sample(json!({"threads": c["threads"], "exc": c["exc"], "bp": c["bp"], "expected": exp})); },
        }
    });
    rep.finish();
}
