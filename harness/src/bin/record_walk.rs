//! C05 / C03(bound) binding, impl -> spec, all architectures: seeded random register contexts (0, 2^32-1, 2^64-1,
//! near the stack bounds), random stack bytes with planted plausible pointers, random module lists and generated
//! symbol text (CFI that puts the CFA below / at / above sp, CFI that never touches memory, STACK WIN on x86) are
//! walked by the real walk_stack; frames are logged with exact addresses for Trace_Walk.tla.
use minidump::system_info::Os;
use rand::rngs::StdRng;
use rand::{Rng, SeedableRng};
use std::collections::HashMap;
use vharness::walk::*;
use vharness::{guarded, install_panic_capture};

fn main() {
    install_panic_capture();
    let n: usize = std::env::args().nth(1).map(|s| s.parse().unwrap()).unwrap_or(300);
    let mut rng = StdRng::seed_from_u64(vharness::seed() ^ 0xC05);
    let archs = ["amd64", "x86", "arm64", "arm64old", "arm", "mips"];
    for t in 0..n {
        let an = archs[t % archs.len()];
        let spec = arch_spec(an);
        let w = spec.word;
        let wmax: u64 = if w == 8 { u64::MAX } else { u32::MAX as u64 };
        let nwords = [4usize, 8, 16, 48, 170][rng.gen_range(0..5)];
        let top = rng.gen_bool(0.1);
        let stack_base: u64 = if an == "mips" && rng.gen_bool(0.2) { 0x8001_0000 } else if top { (wmax - (nwords * w) as u64 + 1) & !(w as u64 - 1) } else if rng.gen_bool(0.1) { 0x1000 } else { 0x10000 + 0x1000 * rng.gen_range(0..4u64) };
        // modules: a few, sometimes adjacent, sometimes at the top
        let mut modules: Vec<(String, u64, u32)> = vec![("m1".into(), 0x400000, 0x1000), ("m2".into(), 0x500000, 0x1000)];
        if rng.gen_bool(0.3) { modules.push(("m3".into(), 0x401000, 0x1000)); }
        if rng.gen_bool(0.2) && w == 8 { modules.push(("mhigh".into(), 0x7f00_0000_0000, 0x10000)); }
        let code: Vec<u64> = vec![0x400150, 0x400151, 0x400350, 0x4001ff, 0x400200, 0x400000, 0x400fff, 0x401000, 0x500010, 0x500000, 0x400100, 0x4000ff];
        let mut words: Vec<u64> = (0..nwords).map(|_| match rng.gen_range(0..10) {
            0..=2 => code[rng.gen_range(0..code.len())],
            3..=4 => stack_base.wrapping_add((rng.gen_range(0..nwords + 2) * w) as u64) & wmax,
            5 => 0, 6 => wmax, 7 => rng.gen_range(0..4096), 8 => rng.gen::<u64>() & wmax, _ => 1,
        }).collect();
        if rng.gen_bool(0.3) { for x in words.iter_mut().step_by(2) { *x = 0; } }
        let sp_choices = [stack_base, stack_base.wrapping_add(w as u64) & wmax, stack_base.wrapping_add(((nwords - 1) * w) as u64) & wmax, stack_base.wrapping_add((nwords * w) as u64) & wmax, 0, wmax, stack_base.wrapping_add(1) & wmax, stack_base.wrapping_sub(w as u64) & wmax];
        let sp = sp_choices[rng.gen_range(0..sp_choices.len())];
        let fp_choices = [stack_base, stack_base.wrapping_add((w * 2) as u64) & wmax, 0, wmax, wmax - 8, sp, rng.gen::<u64>() & wmax, stack_base.wrapping_add(((nwords - 2) * w) as u64) & wmax];
        let fp = fp_choices[rng.gen_range(0..fp_choices.len())];
        let ip = [0x400150u64, 0x400350, 0x500010, 12345, 0, wmax, 0x400100, 0x4001ff][rng.gen_range(0..8)];
        // 32-bit MIPS keeps its registers in 64-bit slots: kernel-segment addresses arrive sign-extended
        let (sp, fp) = if an == "mips" && stack_base >= 0x8000_0000 && rng.gen_bool(0.5) { (sp | 0xffff_ffff_0000_0000, fp | 0xffff_ffff_0000_0000) } else { (sp, fp) };
        let mut regs = vec![(spec.ip.to_string(), ip), (spec.sp.to_string(), sp), (spec.fp.to_string(), fp)];
        if matches!(an, "arm64" | "arm64old" | "arm") { regs.push(("lr".into(), [0x400160u64, 0, wmax, 0x500020][rng.gen_range(0..4)])); }
        if an == "mips" { regs.push(("ra".into(), [0x400160u64, 0, 0x500020][rng.gen_range(0..3)])); }
        let valid = if rng.gen_bool(0.7) { None } else {
            let mut v = vec![spec.ip.to_string(), spec.sp.to_string()];
            if rng.gen_bool(0.5) { v.push(spec.fp.to_string()); }
            Some(v)
        };
        // symbols for m1: functions, and unwind rules of various shapes
        let spn = match an { "amd64" => "$rsp", "x86" => "$esp", _ => "sp" };
        let fpn = match an { "amd64" => "$rbp", "x86" => "$ebp", "arm" => "r11", "mips" => "$fp", _ => "x29" };
        let ww = w as i64;
        let cfi = match rng.gen_range(0..9) {
            0 => format!(".cfa: {} {} + .ra: .cfa {} - ^ {}: .cfa {} - ^", spn, 2 * ww, ww, fpn, 2 * ww),
            1 => format!(".cfa: {} {} + .ra: .cfa {} - ^", spn, ww, ww),
            2 => format!(".cfa: {} {} + .ra: 4194640", spn, ww),             // never touches memory
            3 => format!(".cfa: {} 1 + .ra: 4194640", spn),                 // one byte per frame
            4 => format!(".cfa: {} .ra: 4194640", spn),                     // cfa = sp
            5 => format!(".cfa: {} {} - .ra: 4194640", spn, ww),            // cfa below sp
            6 => format!(".cfa: {} {} + .ra: .cfa {} - ^ {}: .cfa {} - ^", fpn, 2 * ww, ww, fpn, 2 * ww),
            7 => format!(".cfa: {} 0 + .ra: .cfa ^", spn),
            _ => format!(".cfa: -1 .ra: 4194640"),
        };
        let mut sym = format!("MODULE Linux x86 000 m1\nFUNC 100 100 0 f1\nFUNC 300 100 8 f2\nPUBLIC 800 0 p8\n");
        if rng.gen_bool(0.8) { sym.push_str(&format!("STACK CFI INIT 100 100 {}\n", cfi)); }
        let os = if an == "x86" && rng.gen_bool(0.5) {
            match rng.gen_range(0..3) {
                0 => sym.push_str("STACK WIN 4 300 100 0 0 c 0 4 0 1 $T0 .raSearch = $eip $T0 ^ = $esp $T0 4 + =\n"),
                1 => sym.push_str("STACK WIN 0 300 100 0 0 c 8 0 0 0 1\n"),
                _ => sym.push_str("STACK WIN 4 300 100 0 0 c 0 0 0 1 $T0 $ebp = $eip $T0 4 + ^ = $ebp $T0 ^ = $esp $T0 8 + =\n"),
            }
            Os::Windows
        } else if an == "arm" && rng.gen_bool(0.5) { Os::Ios } else if an == "amd64" && rng.gen_bool(0.3) { Os::Windows } else { Os::Linux };
        let mut symbols = HashMap::new();
        if rng.gen_bool(0.85) { symbols.insert("m1".to_string(), sym); }
        let inp = WalkInput { arch: spec.arch, os, regs, valid, stack_base, stack_bytes: words_to_bytes(&words, w), modules, symbols, track: spec.track.clone(),
                              frame_cap: nwords * w + 3 };
        let obs = guarded(|| run_walk(&inp));
        let mut rec = obs_record(&spec, &inp, &words, obs, ip);
        rec["arch"] = serde_json::json!(an);
        rec["os"] = serde_json::json!(format!("{:?}", os));
        println!("{}", rec);
    }
}
