//! C18 binding, spec -> impl: every state TLC reaches in Registers.tla (context type, history of set-by-name
//! operations) is executed on the real CpuContext / MinidumpContext; all reads by name, the raw register slots
//! (ground truth: the public fields of the raw context structs), the dedicated sp/ip accessors, memoization,
//! validity through aliases and the register enumerations are compared with the specification.
use minidump::{CpuContext, MinidumpContext, MinidumpContextValidity, MinidumpRawContext};
use minidump_common::format as md;
use serde_json::{json, Value};
use std::collections::{BTreeMap, BTreeSet, HashSet};
use vharness::{for_each_case, guarded, install_panic_capture, Report};

fn idx(slot: &str, prefix: &str) -> usize {
    slot[prefix.len()..].parse().unwrap()
}

/// Ground truth: the raw field a slot id names (hand-written from the struct layouts, not from context.rs).
fn raw_slot(raw: &MinidumpRawContext, slot: &str) -> u64 {
    match raw {
        MinidumpRawContext::X86(c) => (match slot { "eip" => c.eip, "esp" => c.esp, "ebp" => c.ebp, "ebx" => c.ebx, "esi" => c.esi, "edi" => c.edi,
            "eax" => c.eax, "ecx" => c.ecx, "edx" => c.edx, "eflags" => c.eflags, _ => panic!("slot {}", slot) }) as u64,
        MinidumpRawContext::Amd64(c) => match slot { "rax" => c.rax, "rdx" => c.rdx, "rcx" => c.rcx, "rbx" => c.rbx, "rsi" => c.rsi, "rdi" => c.rdi,
            "rbp" => c.rbp, "rsp" => c.rsp, "r8" => c.r8, "r9" => c.r9, "r10" => c.r10, "r11" => c.r11, "r12" => c.r12, "r13" => c.r13,
            "r14" => c.r14, "r15" => c.r15, "rip" => c.rip, _ => panic!("slot {}", slot) },
        MinidumpRawContext::Arm(c) => c.iregs[idx(slot, "r")] as u64,
        MinidumpRawContext::Arm64(c) => match slot { "sp" => c.sp, "pc" => c.pc, _ => c.iregs[idx(slot, "x")] },
        MinidumpRawContext::OldArm64(c) => match slot { "sp" => c.sp, "pc" => c.pc, _ => c.iregs[idx(slot, "x")] },
        MinidumpRawContext::Ppc(c) => (match slot { "srr0" => c.srr0, "srr1" => c.srr1, "cr" => c.cr, "xer" => c.xer, "lr" => c.lr, "ctr" => c.ctr,
            "mq" => c.mq, "vrsave" => c.vrsave, _ => c.gpr[idx(slot, "r")] }) as u64,
        MinidumpRawContext::Ppc64(c) => match slot { "srr0" => c.srr0, "srr1" => c.srr1, "cr" => c.cr, "xer" => c.xer, "lr" => c.lr, "ctr" => c.ctr,
            "vrsave" => c.vrsave, _ => c.gpr[idx(slot, "r")] },
        MinidumpRawContext::Mips(c) => match slot { "epc" => c.epc, _ => c.iregs[idx(slot, "i")] },
        MinidumpRawContext::Sparc(c) => match slot { "ccr" => c.ccr, "pc" => c.pc, "npc" => c.npc, "y" => c.y, "asi" => c.asi, "fprs" => c.fprs,
            _ => c.g_r[idx(slot, "g_r")] },
    }
}

/// An all-zero context read from zero bytes (these layouts have no Default impl).
fn zeroed<'a, T: scroll::ctx::TryFromCtx<'a, scroll::Endian, [u8], Error = scroll::Error>>() -> T {
    use scroll::Pread;
    static ZEROS: [u8; 4096] = [0; 4096];
    ZEROS.pread_with::<T>(0, scroll::LE).expect("zero context")
}

fn new_raw(ty: &str) -> MinidumpRawContext {
    match ty {
        "x86" => MinidumpRawContext::X86(Default::default()),
        "amd64" => MinidumpRawContext::Amd64(Default::default()),
        "arm" => MinidumpRawContext::Arm(Default::default()),
        "arm64" => MinidumpRawContext::Arm64(Default::default()),
        "arm64old" => MinidumpRawContext::OldArm64(Default::default()),
        "ppc" => MinidumpRawContext::Ppc(zeroed::<md::CONTEXT_PPC>()),
        "ppc64" => MinidumpRawContext::Ppc64(zeroed::<md::CONTEXT_PPC64>()),
        "mips" => MinidumpRawContext::Mips(Default::default()),
        "sparc" => MinidumpRawContext::Sparc(zeroed::<md::CONTEXT_SPARC>()),
        _ => panic!("type"),
    }
}

macro_rules! with_ctx {
    ($raw:expr, $c:ident, $body:expr) => {
        match $raw {
            MinidumpRawContext::X86($c) => $body,
            MinidumpRawContext::Amd64($c) => $body,
            MinidumpRawContext::Arm($c) => $body,
            MinidumpRawContext::Arm64($c) => $body,
            MinidumpRawContext::OldArm64($c) => $body,
            MinidumpRawContext::Ppc($c) => $body,
            MinidumpRawContext::Ppc64($c) => $body,
            MinidumpRawContext::Mips($c) => $body,
            MinidumpRawContext::Sparc($c) => $body,
        }
    };
}

fn set_by_name(raw: &mut MinidumpRawContext, name: &str, val: u64) -> bool {
    fn go<T: CpuContext>(c: &mut T, name: &str, val: u64) -> bool where T::Register: TryFrom<u64> {
        match T::Register::try_from(val) { Ok(v) => c.set_register(name, v).is_some(), Err(_) => panic!("value does not fit") }
    }
    with_ctx!(raw, c, go(c, name, val))
}
fn memoize(raw: &MinidumpRawContext, name: &str) -> Option<&'static str> {
    with_ctx!(raw, c, c.memoize_register(name))
}
fn is_valid(raw: &MinidumpRawContext, name: &str, v: &MinidumpContextValidity) -> bool {
    with_ctx!(raw, c, c.register_is_valid(name, v))
}
fn trait_get(raw: &MinidumpRawContext, name: &str, v: &MinidumpContextValidity) -> Option<u64> {
    fn go<T: CpuContext>(c: &T, name: &str, v: &MinidumpContextValidity) -> Option<u64> where u64: TryFrom<T::Register> {
        c.get_register(name, v).map(|x| u64::try_from(x).ok().unwrap())
    }
    with_ctx!(raw, c, go(c, name, v))
}
fn trait_valid_names(raw: &MinidumpRawContext, v: &MinidumpContextValidity) -> Vec<String> {
    with_ctx!(raw, c, c.valid_registers(v).map(|(n, _)| n.to_string()).collect())
}
fn sp_ip_names(raw: &MinidumpRawContext) -> (&'static str, &'static str) {
    with_ctx!(raw, c, (c.stack_pointer_register_name(), c.instruction_pointer_register_name()))
}

fn val_of(sym: &str, width: u64) -> u64 {
    match sym { "zero" => 0, "one" => 1, "ones" => if width == 32 { u32::MAX as u64 } else { u64::MAX }, _ => panic!("value") }
}
fn leak(s: &str) -> &'static str { Box::leak(s.to_string().into_boxed_str()) }

fn main() {
    install_panic_capture();
    let path = std::env::args().nth(1).unwrap();
    let mut rep = Report::new();
    let mut widths: BTreeMap<String, u64> = BTreeMap::new();
    // ---- static facts per type
    for_each_case(&path, "TYPE", |c| {
        let ty = c["ty"].as_str().unwrap().to_string();
        let width = c["width"].as_u64().unwrap();
        widths.insert(ty.clone(), width);
        let raw = new_raw(&ty);
        let ctx = MinidumpContext::from_raw(raw.clone());
        let names: Vec<String> = c["names"].as_array().unwrap().iter().map(|x| x.as_str().unwrap().to_string()).collect();
        let mut bad = |what: &str, detail: Value| rep.mismatch(&format!("registers:{}:{}", ty, what), json!({"type": ty, "what": what, "detail": detail}));
        let mut n_eval = 0u64;
        // enumerations list exactly the named registers, in order
        let got: Vec<String> = ctx.general_purpose_registers().iter().map(|s| s.to_string()).collect();
        if got != names { bad("enumeration", json!({"expected": names, "observed": got})); }
        match guarded(|| ctx.registers().map(|(n, _)| n.to_string()).collect::<Vec<_>>()) {
            Ok(g) => if g != names { bad("registers()", json!({"expected": names, "observed": g})); },
            Err(p) => bad("registers()-panic", json!(p)),
        }
        let (sp, ip) = sp_ip_names(&raw);
        if sp != c["sp"].as_str().unwrap() || ip != c["ip"].as_str().unwrap() { bad("sp-ip-name", json!({"observed": [sp, ip]})); }
        if ctx.register_size() as u64 * 8 != width { bad("width", json!(ctx.register_size())); }
        // memoization: canonical name or absence, never a panic
        for (n, m) in c["memo"].as_object().unwrap() {
            n_eval += 1;
            let exp = m.as_str().unwrap();
            match guarded(|| memoize(&raw, n)) {
                Ok(g) => if g.unwrap_or("") != exp { bad(if exp.is_empty() { "unknown-name-memoized" } else if names.contains(n) { "memoize" } else { "alias-not-memoized" }, json!({"name": n, "expected": exp, "observed": g})); },
                Err(p) => bad("memoize-panic", json!({"name": n, "panic": p})),
            }
            // unknown names read as absent under every validity, without panicking
            if exp.is_empty() {
                let full: HashSet<&'static str> = names.iter().map(|s| leak(s)).collect();
                for v in [MinidumpContextValidity::All, MinidumpContextValidity::Some(HashSet::new()), MinidumpContextValidity::Some(full)] {
                    let c2 = MinidumpContext { raw: raw.clone(), valid: v.clone() };
                    match guarded(|| (c2.get_register(n), trait_get(&raw, n, &v))) {
                        Ok((a, b)) => if a.is_some() || b.is_some() { bad("unknown-name-readable", json!({"name": n})); },
                        Err(p) => bad("unknown-name-panic", json!({"name": n, "panic": p})),
                    }
                }
            }
        }
        // validity classes Some({m}) for every name and alias m: honoured through aliases in both directions
        for (m, valid_names) in c["valid"].as_object().unwrap() {
            let exp: BTreeSet<String> = valid_names.as_array().unwrap().iter().map(|x| x.as_str().unwrap().to_string()).collect();
            let set: HashSet<&'static str> = [leak(m)].into_iter().collect();
            let v = MinidumpContextValidity::Some(set);
            let c2 = MinidumpContext { raw: raw.clone(), valid: v.clone() };
            for n in c["memo"].as_object().unwrap().keys().filter(|n| !c["memo"][n.as_str()].as_str().unwrap().is_empty()) {
                n_eval += 1;
                let want = exp.contains(n);
                match guarded(|| (is_valid(&raw, n, &v), c2.get_register(n).is_some(), trait_get(&raw, n, &v).is_some())) {
                    Ok((a, b, t)) => if a != want || b != want || t != want {
                        let kind = if names.contains(n) && names.contains(m) { "validity" } else { "validity-through-alias" };
                        bad(kind, json!({"valid_set": [m], "query": n, "expected": want, "register_is_valid": a, "get_register": b, "trait_get_register": t}));
                    },
                    Err(p) => bad("validity-panic", json!({"valid_set": [m], "query": n, "panic": p})),
                }
            }
            // enumeration of valid registers: exactly the canonical names equivalent to m
            let want: Vec<String> = names.iter().filter(|n| exp.contains(*n)).cloned().collect();
            match guarded(|| c2.valid_registers().map(|(n, _)| n.to_string()).collect::<Vec<_>>()) {
                Ok(g) => if g != want { bad(if names.contains(m) { "valid_registers()" } else { "valid_registers()-through-alias" }, json!({"valid_set": [m], "expected": want, "observed": g})); },
                Err(p) => bad("valid_registers()-panic", json!({"valid_set": [m], "panic": p})),
            }
            if names.contains(m) {
                match guarded(|| trait_valid_names(&raw, &v)) {
                    Ok(g) => if g != want { bad("CpuContext::valid_registers", json!({"valid_set": [m], "expected": want, "observed": g})); },
                    Err(p) => bad("CpuContext::valid_registers-panic", json!({"valid_set": [m], "panic": p})),
                }
            }
        }
        rep.evaluations += n_eval;
        rep.class(&format!("type:{}", ty));
    });
    // ---- histories
    for_each_case(&path, "CASE", |c| {
        let ty = c["ty"].as_str().unwrap();
        let width = widths[ty];
        let mut raw = new_raw(ty);
        // one report per distinct kind of disagreement in a case: a kind that is a recorded finding must not hide a different one
        let mut fps: Vec<(String, Value)> = vec![];
        let mut note = |fps: &mut Vec<(String, Value)>, kind: String, d: Value| { if !fps.iter().any(|(k, _)| *k == kind) { fps.push((kind, d)); } };
        for h in c["hist"].as_array().unwrap() {
            let (n, v, ok) = (h["n"].as_str().unwrap(), val_of(h["v"].as_str().unwrap(), width), h["ok"].as_bool().unwrap());
            match guarded(|| set_by_name(&mut raw, n, v)) {
                Ok(r) => if r != ok { note(&mut fps, if ok { if memoize(&new_raw(ty), n).is_some() { "set-rejected".into() } else { "alias-set-rejected".into() } } else { "unknown-name-set".into() }, json!({"set": n})); },
                Err(p) => note(&mut fps, "set-panic".into(), json!({"set": n, "panic": p})),
            }
        }
        let ctx = MinidumpContext::from_raw(raw.clone());
        // raw slots (ground truth)
        for (slot, v) in c["slots"].as_object().unwrap() {
            let want = val_of(v.as_str().unwrap(), width);
            let got = raw_slot(&raw, slot);
            if got != want { note(&mut fps, "wrong-slot-written".into(), json!({"slot": slot, "expected": want, "observed": got})); }
        }
        // reads by every name and alias
        for (n, v) in c["reads"].as_object().unwrap() {
            let want = val_of(v.as_str().unwrap(), width);
            match guarded(|| (ctx.get_register_always(n), ctx.get_register(n))) {
                Ok((a, b)) => if a != want || b != Some(want) {
                    let kind = if b.is_none() && a == want { "name-not-readable-through-get_register" } else { "read" };
                    note(&mut fps, kind.into(), json!({"name": n, "expected": want, "get_register_always": a, "get_register": b}));
                },
                Err(p) => note(&mut fps, "read-panic".into(), json!({"name": n, "panic": p})),
            }
        }
        let (sp, ip) = (val_of(c["sp"].as_str().unwrap(), width), val_of(c["ip"].as_str().unwrap(), width));
        if ctx.get_stack_pointer() != sp || ctx.get_instruction_pointer() != ip {
            note(&mut fps, "sp-ip-accessor".into(), json!({"expected": [sp, ip], "observed": [ctx.get_stack_pointer(), ctx.get_instruction_pointer()]}));
        }
        rep.evaluations += 1;
        rep.class(&format!("hist:{}", ty));
        if !c["hist"].as_array().unwrap().is_empty() { rep.nontrivial(&(ty.to_string(), c["hist"].to_string())); }
        if fps.is_empty() && c["hist"].as_array().unwrap().len() == 2 && rep.samples.len() < 6 { rep.sample(json!({"type": ty, "hist": c["hist"], "sp": c["sp"], "ip": c["ip"]})); }
        for (kind, d) in fps { rep.mismatch(&format!("registers:{}:{}", ty, kind), json!({"type": ty, "hist": c["hist"], "detail": d})); }
    });
    rep.finish();
}
