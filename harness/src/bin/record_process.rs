//! Whole-pipeline recorder for C03 (total processing), C13 (determinism) and C15 (JSON report):
//!   reports <n> [tlc-out]   process corpus items (and Processor.tla cases), print_json compact + pretty, require UTF-8 + JSON,
//!                           project to the tagged form Trace_Report.tla reads (with the library's module list alongside)
//!   determinism <n>         process each item repeatedly under different executors / supplier delays / fresh hash seeds
//!                           and compare the bytes of print_json, print and print_brief
//!   total <n>               process each item under stable_basic / stable_all / unstable_all with panic capture, a wall-clock
//!                           watchdog and the per-thread frame bound, then render text, brief text and JSON
use async_trait::async_trait;
use breakpad_symbols::{FileError, FileKind, LocateSymbolsResult, SymbolError, SymbolSupplier};
use minidump::{Minidump, MinidumpThreadList, Module};
use minidump_processor::{process_minidump_with_options, ProcessState, ProcessorOptions};
use minidump_unwind::{string_symbol_supplier, Symbolizer};
use serde_json::{json, Map, Value};
use std::collections::HashMap;
use std::future::Future;
use std::path::PathBuf;
use std::pin::Pin;
use std::task::{Context, Poll};
use vharness::corpus::{corpus, Item};
use vharness::dumpgen::{build, from_processor_case};
use vharness::walk::block_on;
use vharness::{for_each_case, guarded, install_panic_capture, limbs_json};

// ---------------------------------------------------------------- delayed supplier
struct Delay(usize);
impl Future for Delay {
    type Output = ();
    fn poll(mut self: Pin<&mut Self>, cx: &mut Context<'_>) -> Poll<()> {
        if self.0 == 0 { Poll::Ready(()) } else { self.0 -= 1; cx.waker().wake_by_ref(); Poll::Pending }
    }
}
struct Delayed { inner: Box<dyn SymbolSupplier + Send + Sync>, delays: HashMap<String, usize>, default: usize }
#[async_trait]
impl SymbolSupplier for Delayed {
    async fn locate_symbols(&self, module: &(dyn Module + Sync)) -> Result<LocateSymbolsResult, SymbolError> {
        Delay(*self.delays.get(&*module.code_file()).unwrap_or(&self.default)).await;
        self.inner.locate_symbols(module).await
    }
    async fn locate_file(&self, module: &(dyn Module + Sync), kind: FileKind) -> Result<PathBuf, FileError> { self.inner.locate_file(module, kind).await }
}

/// Wraps the symbol provider and stops a walk that asks for far more symbol look-ups than the threads' stack memory can
/// justify (an unbounded walk is observed, not waited for: it would otherwise eat all memory).
struct Bounded<P> { inner: P, fills: std::sync::atomic::AtomicU64, limit: u64 }
#[async_trait]
impl<P: minidump_unwind::SymbolProvider + Sync + Send> minidump_unwind::SymbolProvider for Bounded<P> {
    async fn fill_symbol(&self, module: &(dyn Module + Sync), frame: &mut (dyn minidump_unwind::FrameSymbolizer + Send)) -> Result<(), minidump_unwind::FillSymbolError> {
        if self.fills.fetch_add(1, std::sync::atomic::Ordering::SeqCst) > self.limit { panic!("VERIF unbounded walk: more than {} symbol look-ups", self.limit); }
        self.inner.fill_symbol(module, frame).await
    }
    async fn walk_frame(&self, module: &(dyn Module + Sync), walker: &mut (dyn minidump_unwind::FrameWalker + Send)) -> Option<()> { self.inner.walk_frame(module, walker).await }
    async fn get_file_path(&self, module: &(dyn Module + Sync), kind: FileKind) -> Result<PathBuf, FileError> { self.inner.get_file_path(module, kind).await }
    fn stats(&self) -> HashMap<String, minidump_unwind::SymbolStats> { self.inner.stats() }
    fn pending_stats(&self) -> minidump_unwind::PendingSymbolStats { self.inner.pending_stats() }
}

fn options(which: usize) -> ProcessorOptions<'static> {
    match which { 0 => ProcessorOptions::stable_basic(), 1 => ProcessorOptions::stable_all(), _ => ProcessorOptions::unstable_all() }
}

/// Process `item` once. mode 0: plain poll loop; 1: poll loop with supplier delays derived from `salt`; 2: multi-thread tokio.
fn process(item: &Item, opt: usize, mode: usize, salt: usize) -> Result<ProcessState, String> {
    let dump = Minidump::read(&item.dump[..]).map_err(|e| format!("read:{:?}", e))?;
    let base = string_symbol_supplier(item.symbols.clone());
    let mut delays = HashMap::new();
    for (i, name) in ["m1", "m2", "overlap", "high.dll", "plugin.dll", "plugin_copy.dll"].iter().enumerate() { delays.insert(name.to_string(), (salt >> (2 * i)) & 3); }
    let supplier = Delayed { inner: Box::new(base), delays, default: if mode == 0 { 0 } else { salt % 3 } };
    // every frame costs one look-up; a scan may probe each stack word once per frame
    let stack_bytes: u64 = dump.get_stream::<MinidumpThreadList>().map(|tl| tl.threads.iter().map(|t| t.raw.stack.memory.data_size as u64 + 2).sum()).unwrap_or(0);
    let provider = Bounded { inner: Symbolizer::new(supplier), fills: Default::default(), limit: 200 * stack_bytes.min(1 << 20) + 20_000 };
    let o = options(opt);
    let r = if mode == 2 {
        let rt = tokio::runtime::Builder::new_multi_thread().worker_threads(3).enable_all().build().unwrap();
        rt.block_on(process_minidump_with_options(&dump, &provider, o))
    } else {
        block_on(Box::pin(process_minidump_with_options(&dump, &provider, o)))
    };
    r.map_err(|e| format!("process:{:?}", e))
}

// ---------------------------------------------------------------- JSON projection (no nulls, no big ints for TLC)
fn project(v: &Value) -> Value {
    match v {
        Value::Null => json!({"t": "null"}),
        Value::Bool(b) => json!({"t": "b", "v": b}),
        Value::Number(n) => {
            if let Some(u) = n.as_u64() { if u < (1 << 31) { json!({"t": "n", "v": u}) } else { json!({"t": "big", "v": limbs_json(u, 4)}) } }
            else if n.is_i64() { json!({"t": "neg"}) } else { json!({"t": "f", "v": if n.as_f64().map(|f| (0.0..=1.0).contains(&f)).unwrap_or(false) { 1 } else { 0 }}) }
        }
        Value::String(s) => json!({"t": "s", "v": s}),
        Value::Array(a) => json!({"t": "a", "v": a.iter().map(project).collect::<Vec<_>>()}),
        Value::Object(o) => { let mut m = Map::new(); for (k, x) in o { m.insert(k.clone(), project(x)); } json!({"t": "o", "v": m}) }
    }
}

fn report_record(id: &str, cpu: &str, state: &ProcessState) -> Value {
    let mut compact = vec![]; let mut pretty = vec![];
    let r1 = guarded(|| state.print_json(&mut compact, false).map_err(|e| e.to_string()));
    let r2 = guarded(|| state.print_json(&mut pretty, true).map_err(|e| e.to_string()));
    let lexical = |bytes: &[u8]| -> Result<Value, String> { let s = std::str::from_utf8(bytes).map_err(|e| format!("utf8:{}", e))?; serde_json::from_str(s).map_err(|e| format!("json:{}", e)) };
    let (v1, v2) = match (r1, r2) {
        (Ok(Ok(())), Ok(Ok(()))) => (lexical(&compact), lexical(&pretty)),
        (a, b) => return json!({"id": id, "lexical": format!("print_json failed: {:?} / {:?}", a.map(|r| r.err()), b.map(|r| r.err())), "cpu": cpu, "report": {"t": "null"}, "modules": []}),
    };
    let (v1, v2) = match (v1, v2) { (Ok(a), Ok(b)) => (a, b), (a, b) => return json!({"id": id, "lexical": format!("{:?} / {:?}", a.err(), b.err()), "cpu": cpu, "report": {"t": "null"}, "modules": []}) };
    let lex = if v1 == v2 { "ok".to_string() } else { "pretty and compact output differ as JSON values".to_string() };
    let modules: Vec<Value> = state.modules.iter().map(|m| json!({"filename": minidump_common::utils::basename(&m.code_file()), "base": limbs_json(m.base_address(), 4), "size": limbs_json(m.size(), 4)})).collect();
    let width = match state.system_info.cpu.pointer_width() { minidump::system_info::PointerWidth::Bits32 => 8, _ => 16 };
    json!({"id": id, "lexical": lex, "cpu": cpu, "width": width, "report": project(&v1), "modules": modules,
           "req": state.requesting_thread.map(|i| i as i64).unwrap_or(-1) + 1})
}

fn main() {
    install_panic_capture();
    let args: Vec<String> = std::env::args().collect();
    let mode = args[1].as_str();
    let n: usize = args[2].parse().unwrap();
    let mut items = corpus(vharness::seed(), n);
    if let Some(path) = args.get(3) {
        // dumps of Processor.tla cases (requesting threads at every index, missing contexts, duplicate ids ...)
        let mut k = 0usize;
        for_each_case(path, "CASE", |c| {
            k += 1;
            if k % 97 != 0 { return; }
            let spec = from_processor_case(&c);
            items.push(Item { name: format!("proc{}", k), cpu: spec.cpu.clone(), dump: build(&spec), symbols: HashMap::new(), corrupted: false });
        });
    }
    match mode {
        "reports" => {
            for (i, it) in items.iter().enumerate() {
                match guarded(|| process(it, i % 3, 0, 0)) {
                    Ok(Ok(state)) => println!("{}", report_record(&it.name, &it.cpu, &state)),
                    Ok(Err(_)) => {}                 // not processable: no report (C03 judges that path)
                    Err(p) => println!("{}", json!({"id": it.name, "lexical": format!("panic:{}", p), "cpu": it.cpu, "width": 16, "report": {"t": "null"}, "modules": [], "req": 0})),
                }
            }
        }
        "determinism" => {
            for it in items.iter() {
                let mut outs: Vec<(Vec<u8>, Vec<u8>, Vec<u8>)> = vec![];
                let mut failed = None;
                for run in 0..7usize {
                    let (m, salt) = match run { 0 => (0, 0), 1 => (0, 0), 2 => (1, 0x1b), 3 => (1, 0xe4), 4 => (1, 0x39), 5 => (2, 0x1b), _ => (2, 0) };
                    match guarded(|| process(it, 1, m, salt)) {
                        Ok(Ok(state)) => {
                            let (mut j, mut t, mut b) = (vec![], vec![], vec![]);
                            let _ = state.print_json(&mut j, false); let _ = state.print(&mut t); let _ = state.print_brief(&mut b);
                            outs.push((j, t, b));
                        }
                        Ok(Err(e)) => { failed = Some(e); break; }
                        Err(p) => { failed = Some(format!("panic:{}", p)); break; }
                    }
                }
                // items that ask for it: let the wall clock move on before the last run
                if it.name.ends_with("-sleep") {
                    std::thread::sleep(std::time::Duration::from_millis(1100));
                }
                // once more on a fresh OS thread: per-thread state left behind by earlier reports must not leak into this one
                if failed.is_none() {
                    let r = std::thread::scope(|sc| sc.spawn(|| guarded(|| process(it, 1, 0, 0).map(|state| {
                        let (mut j, mut t, mut b) = (vec![], vec![], vec![]);
                        let _ = state.print_json(&mut j, false); let _ = state.print(&mut t); let _ = state.print_brief(&mut b);
                        (j, t, b)
                    }))).join());
                    if let Ok(Ok(Ok(o))) = r { outs.push(o); }
                }
                if failed.is_some() && outs.is_empty() { continue; }
                let distinct = |f: &dyn Fn(&(Vec<u8>, Vec<u8>, Vec<u8>)) -> &Vec<u8>| { let mut s: Vec<&Vec<u8>> = outs.iter().map(|o| f(o)).collect(); s.sort(); s.dedup(); s.len() };
                let (dj, dt, db) = (distinct(&|o| &o.0), distinct(&|o| &o.1), distinct(&|o| &o.2));
                // where do two differing JSON reports differ (for the fingerprint)?
                let mut diffkey = String::new();
                if dj > 1 {
                    let a: Value = serde_json::from_slice(&outs[0].0).unwrap_or(Value::Null);
                    for o in &outs[1..] { let b: Value = serde_json::from_slice(&o.0).unwrap_or(Value::Null); if a != b { diffkey = first_diff(&a, &b, ""); break; } }
                    if diffkey.is_empty() { diffkey = "byte-order-only".into(); }
                }
                // do two modules of the report share a file name (leaf)?  The report's per-module symbol flags are looked up by that name.
                let same_leaf = serde_json::from_slice::<Value>(&outs[0].0).ok().and_then(|v| v["modules"].as_array().map(|a| {
                    let mut names: Vec<String> = a.iter().filter_map(|m| m["filename"].as_str().map(|s| s.to_string())).collect();
                    let n = names.len(); names.sort(); names.dedup(); names.len() < n })).unwrap_or(false);
                println!("{}", json!({"id": it.name, "runs": outs.len(), "json": dj, "text": dt, "brief": db, "diff": diffkey, "same_leaf": if same_leaf { 1 } else { 0 }, "inconsistent_failure": if failed.is_some() { 1 } else { 0 }}));
            }
        }
        "total" => {
            for it in items.iter() {
                for opt in 0..3usize {
                    let t0 = std::time::Instant::now();
                    let res = guarded(|| process(it, opt, 0, 0));
                    let mut rec = json!({"id": it.name, "opt": opt, "len": it.dump.len(), "corrupted": if it.corrupted { 1 } else { 0 }, "panic": 0, "panic_msg": "", "outcome": "err", "over_bound": 0, "render": 1, "ms": 0, "bound_detail": ""});
                    match res {
                        Err(p) => { rec["panic"] = json!(1); rec["panic_msg"] = json!(p); }
                        Ok(Err(_)) => {}
                        Ok(Ok(state)) => {
                            rec["outcome"] = json!("ok");
                            // frame bound per thread: frames <= stack bytes + 2
                            if let Ok(dump) = Minidump::read(&it.dump[..]) {
                                if let Ok(tl) = dump.get_stream::<MinidumpThreadList>() {
                                    let mem = dump.get_memory().unwrap_or_default();
                                    for (i, th) in tl.threads.iter().enumerate() {
                                        if let Some(cs) = state.threads.get(i) {
                                            // "its stack memory": the thread's own stack region, or - when the context the walk started from has its
                                            // stack pointer elsewhere (exception context) - the memory region containing that stack pointer
                                            let own = th.stack_memory(&mem);
                                            let sp = cs.frames.first().map(|f| f.context.get_stack_pointer());
                                            let own_has_sp = match (&own, sp) { (Some(m), Some(sp)) => m.get_memory_at_address::<u64>(sp).is_some(), _ => false };
                                            let region = if own_has_sp { own } else { sp.and_then(|sp| mem.memory_at_address(sp)).or(own) };
                                            let bytes = region.map(|m| m.size()).unwrap_or(0);
                                            if cs.frames.len() as u64 > bytes + 2 {
                                                rec["over_bound"] = json!(1);
                                                let trusts: std::collections::BTreeSet<&str> = cs.frames.iter().skip(1).map(|f| f.trust.as_str()).collect();
                                                rec["bound_detail"] = json!(trusts.into_iter().collect::<Vec<_>>().join("+"));
                                            }
                                        }
                                    }
                                }
                            }
                            let r = guarded(|| { let mut s = vec![]; state.print(&mut s).is_ok() && state.print_brief(&mut s).is_ok() && state.print_json(&mut s, false).is_ok() && state.print_json(&mut s, true).is_ok() });
                            match r { Ok(true) => {}, Ok(false) => rec["render"] = json!(0), Err(p) => { rec["render"] = json!(0); rec["panic"] = json!(1); rec["panic_msg"] = json!(format!("render:{}", p)); } }
                        }
                    }
                    rec["ms"] = json!(t0.elapsed().as_millis() as u64);
                    println!("{}", rec);
                }
            }
        }
        _ => panic!("mode"),
    }
}

fn first_diff(a: &Value, b: &Value, path: &str) -> String {
    match (a, b) {
        (Value::Object(x), Value::Object(y)) => {
            for (k, v) in x { match y.get(k) { Some(w) => { let d = first_diff(v, w, &format!("{}.{}", path, k)); if !d.is_empty() { return d; } } None => return format!("{}.{}", path, k) } }
            for k in y.keys() { if !x.contains_key(k) { return format!("{}.{}", path, k); } }
            String::new()
        }
        (Value::Array(x), Value::Array(y)) => {
            if x.len() != y.len() { return format!("{}[len]", path); }
            for (v, w) in x.iter().zip(y.iter()) { let d = first_diff(v, w, &format!("{}[]", path)); if !d.is_empty() { return d; } }
            String::new()
        }
        _ => if a == b { String::new() } else { path.to_string() },
    }
}
