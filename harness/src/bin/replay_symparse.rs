//! C11 (record level): every line sequence TLC explores in SymParse.tla is rendered as symbol-file text, parsed by the real
//! SymbolFile::from_bytes, and the resulting tables (or the parse error and its line number) are compared with the specification's.
use breakpad_symbols::{SymbolError, SymbolFile};
use serde_json::{json, Value};
use vharness::{for_each_case, guarded, install_panic_capture, Report};

fn text_of(tok: &str) -> &'static str {
    match tok {
        "module" => "MODULE Linux x86_64 0123456789ABCDEF0123456789ABCDEF0 mod.so",
        "info" => "INFO CODE_ID abcdef",
        "urlA" => "INFO URL http://a/",
        "urlB" => "INFO URL http://b/",
        "file1a" => "FILE 1 a.c",
        "file1b" => "FILE 1 b.c",
        "origin0" => "INLINE_ORIGIN 0 inl",
        "pub800a" => "PUBLIC 800 0 pa",
        "pub800b" => "PUBLIC m 800 4 pb",
        "pub1ff" => "PUBLIC 1ff 0 pc",
        "f1" => "FUNC 100 100 0 f1",
        "f1x" => "FUNC 100 100 0 other",
        "f3" => "FUNC 1ff 20 0 f3",
        "f2" => "FUNC m 300 100 8 f2",
        "fz" => "FUNC 500 0 0 zero",
        "l1" => "100 40 11 1",
        "l0" => "120 0 5 1",
        "l2" => "140 c0 12 1",
        "l1b" => "100 40 99 1",
        "inl" => "INLINE 0 7 1 0 120 8",
        "inlbad" => "INLINE x",
        "cfi" => "STACK CFI INIT 100 100 .cfa: $rsp 8 + .ra: .cfa 8 - ^",
        "d120" => "STACK CFI 120 .cfa: $rsp 16 +",
        "d110" => "STACK CFI 110 .cfa: $rsp 24 +",
        "winfd" => "STACK WIN 4 300 100 0 0 c 0 4 0 1 $T0 .raSearch = $eip $T0 ^ = $esp $T0 4 + =",
        "winfpo" => "STACK WIN 0 100 40 0 0 c 8 0 0 0 1",
        "blank" => "",
        "garbage" => "THIS IS NOT A RECORD",
        _ => panic!("token {}", tok),
    }
}

/// The real tables in the shape of SymParse.tla's Final.
fn project(s: &SymbolFile) -> Value {
    let mut files: Vec<(u32, String)> = s.files.iter().map(|(k, v)| (*k, v.clone())).collect();
    files.sort();
    let mut origins: Vec<(u32, String)> = s.inline_origins.iter().map(|(k, v)| (*k, v.clone())).collect();
    origins.sort();
    json!({
        "module": !s.module_id.is_empty(),
        "url": s.url.clone().unwrap_or_default(),
        "files": files.iter().map(|(k, v)| json!({"id": k, "v": v})).collect::<Vec<_>>(),
        "origins": origins.iter().map(|(k, v)| json!({"id": k, "v": v})).collect::<Vec<_>>(),
        "publics": s.publics.iter().map(|p| json!({"a": p.address, "v": p.name, "ps": p.parameter_size})).collect::<Vec<_>>(),
        "funcs": s.functions.ranges_values().map(|(r, f)| json!({"a": r.start, "e": r.end, "v": f.name, "ps": f.parameter_size, "ninl": f.inlinees.len(),
                    "lines": f.lines.ranges_values().map(|(lr, l)| json!({"a": lr.start, "e": lr.end, "ln": l.line, "f": l.file})).collect::<Vec<_>>()})).collect::<Vec<_>>(),
        "cfis": s.cfi_stack_info.ranges_values().map(|(r, c)| json!({"a": r.start, "e": r.end, "deltas": c.add_rules.iter().map(|d| d.address).collect::<Vec<_>>()})).collect::<Vec<_>>(),
        "winfd": s.win_stack_framedata_info.ranges_values().map(|(r, _)| json!({"a": r.start, "e": r.end})).collect::<Vec<_>>(),
        "winfpo": s.win_stack_fpo_info.ranges_values().map(|(r, _)| json!({"a": r.start, "e": r.end})).collect::<Vec<_>>(),
    })
}

/// SymParse.tla's Final with the fields the projection has (sorted maps, no call-site detail).
fn model_final(f: &Value) -> Value {
    let sort_by_id = |v: &Value| -> Vec<Value> {
        let mut a: Vec<Value> = v.as_array().cloned().unwrap_or_default();
        a.sort_by_key(|x| x["id"].as_u64().unwrap());
        a
    };
    json!({
        "module": f["module"], "url": f["url"], "files": sort_by_id(&f["files"]), "origins": sort_by_id(&f["origins"]),
        "publics": f["publics"].as_array().cloned().unwrap_or_default().iter().map(|p| json!({"a": p["a"], "v": p["v"], "ps": p["ps"]})).collect::<Vec<_>>(),
        "funcs": f["funcs"].as_array().cloned().unwrap_or_default().iter().map(|x| json!({"a": x["a"], "e": x["e"], "v": x["v"], "ps": x["ps"], "ninl": x["ninl"],
                    "lines": x["lines"].as_array().cloned().unwrap_or_default().iter().map(|l| json!({"a": l["a"], "e": l["e"], "ln": l["ln"], "f": l["f"]})).collect::<Vec<_>>()})).collect::<Vec<_>>(),
        "cfis": f["cfis"].as_array().cloned().unwrap_or_default().iter().map(|x| json!({"a": x["a"], "e": x["e"], "deltas": x["deltas"]})).collect::<Vec<_>>(),
        "winfd": f["winfd"].as_array().cloned().unwrap_or_default().iter().map(|x| json!({"a": x["a"], "e": x["e"]})).collect::<Vec<_>>(),
        "winfpo": f["winfpo"].as_array().cloned().unwrap_or_default().iter().map(|x| json!({"a": x["a"], "e": x["e"]})).collect::<Vec<_>>(),
    })
}

fn main() {
    install_panic_capture();
    let path = std::env::args().nth(1).unwrap();
    let mut rep = Report::new();
    for_each_case(&path, "CASE", |c| {
        let toks: Vec<&str> = c["seq"].as_array().unwrap().iter().map(|t| t.as_str().unwrap()).collect();
        // the last line is written without a newline half of the time: the file's end closes it just the same
        let mut text = String::new();
        for t in &toks { text.push_str(text_of(t)); text.push('\n'); }
        rep.evaluations += 1;
        rep.nontrivial(&text);
        let res = guarded(|| SymbolFile::from_bytes(text.as_bytes()));
        let model_failed = c["err"]["msg"].as_str().unwrap() != "";
        rep.class(if model_failed { "model:error" } else { "model:table" });
        match res {
            Err(p) => rep.mismatch(&format!("symparse:panic:{}", p), json!({"lines": toks})),
            Ok(Err(SymbolError::ParseError(msg, line))) => {
                // an empty file is a parse error of its own kind, outside the record machine
                if toks.is_empty() || (!model_failed && msg.starts_with("empty")) { rep.class("empty"); return; }
                if !model_failed { rep.mismatch("symparse:error-where-model-parses", json!({"lines": toks, "error": msg, "line": line})); }
                else if msg != c["err"]["msg"].as_str().unwrap() || line != c["err"]["line"].as_u64().unwrap() {
                    rep.drift(json!({"what": "parse error message / line number differs", "lines": toks, "real": [msg, line], "model": c["err"]}));
                }
            }
            Ok(Err(e)) => rep.mismatch("symparse:other-error", json!({"lines": toks, "error": format!("{:?}", e)})),
            Ok(Ok(s)) => {
                if model_failed { rep.mismatch("symparse:parses-where-model-fails", json!({"lines": toks, "model": c["err"]})); return; }
                let (real, model) = (project(&s), model_final(&c["final"]));
                if real != model {
                    let field = ["funcs", "publics", "files", "origins", "cfis", "winfd", "winfpo", "module", "url"].iter().find(|k| real[**k] != model[**k]).copied().unwrap_or("?");
                    let detail = json!({"lines": toks, "field": field, "real": real[field], "model": model[field]});
                    if matches!(field, "funcs" | "publics" | "files" | "origins") { rep.mismatch(&format!("symparse:table:{}", field), detail); } else { rep.drift(detail); }
                } else if rep.samples.len() < 4 && toks.len() >= 3 && !real["funcs"].as_array().unwrap().is_empty() {
                    rep.sample(json!({"lines": toks, "funcs": real["funcs"]}));
                }
            }
        }
    });
    rep.finish();
}
