//! C06 binding, impl -> spec: random long STACK CFI programs over random 64-bit operands are
//! evaluated by the real SymbolFile::walk_frame; one ndjson record per expression with the
//! classified tokens, the CFA, every memory read the evaluator made, and its result.
use breakpad_symbols::{FrameWalker, SimpleModule, SymbolFile};
use rand::rngs::StdRng;
use rand::{Rng, SeedableRng};
use serde_json::{json, Value};
use std::cell::RefCell;
use std::collections::HashMap;
use vharness::limbs_json;

struct Mock {
    regs: HashMap<&'static str, u64>,
    mem_seed: u64,
    reads: RefCell<Vec<Value>>,
    cfa: Option<u64>,
    ra: Option<u64>,
}
fn mem(seed: u64, a: u64) -> Option<u64> {
    // readable iff 8-aligned and not in the upper half of the address space
    if a % 8 != 0 || a >> 63 == 1 {
        return None;
    }
    Some(a.wrapping_mul(0x9E3779B97F4A7C15).rotate_left(17) ^ seed)
}
impl FrameWalker for Mock {
    fn get_instruction(&self) -> u64 { 0x10 }
    fn has_grand_callee(&self) -> bool { false }
    fn get_grand_callee_parameter_size(&self) -> u32 { 0 }
    fn get_register_at_address(&self, a: u64) -> Option<u64> {
        let v = mem(self.mem_seed, a);
        self.reads.borrow_mut().push(json!({"a": limbs_json(a, 4), "v": v.map(|x| limbs_json(x, 4)).unwrap_or(json!([]))}));
        v
    }
    fn get_callee_register(&self, name: &str) -> Option<u64> { self.regs.get(name).copied() }
    fn set_caller_register(&mut self, _n: &str, _v: u64) -> Option<()> { Some(()) }
    fn clear_caller_register(&mut self, _n: &str) {}
    fn set_cfa(&mut self, v: u64) -> Option<()> { self.cfa = Some(v); Some(()) }
    fn set_ra(&mut self, v: u64) -> Option<()> { self.ra = Some(v); Some(()) }
}

fn interesting(rng: &mut StdRng) -> u64 {
    match rng.gen_range(0..10) {
        0 => 0,
        1 => 1,
        2 => u64::MAX,
        3 => 1u64 << rng.gen_range(0..64),
        4 => (1u64 << rng.gen_range(1..64)) - 1,
        5 => rng.gen_range(0..64) * 8,
        6 => 0x8000_0000_0000_0000,
        7 => rng.gen::<u32>() as u64,
        _ => rng.gen(),
    }
}

fn push_lit(v: u64, toks: &mut Vec<Value>, text: &mut Vec<String>) {
    toks.push(json!({"k": "push", "v": limbs_json(v, 4)}));
    text.push(format!("{}", v as i64));
}

fn gen_expr(rng: &mut StdRng, regs: &HashMap<&'static str, u64>, regnames: &[&'static str], cfa_mode: bool, budget: u32,
            toks: &mut Vec<Value>, text: &mut Vec<String>) {
    if budget == 0 || rng.gen_bool(0.25) {
        match rng.gen_range(0..10) {
            0 if !cfa_mode || rng.gen_bool(0.1) => { toks.push(json!({"k": "cfa"})); text.push(".cfa".into()); }
            1..=3 => {
                let r = regnames[rng.gen_range(0..regnames.len())];
                match regs.get(r) {
                    Some(v) => toks.push(json!({"k": "push", "v": limbs_json(*v, 4)})),
                    None => toks.push(json!({"k": "fail"})),
                }
                text.push(if rng.gen_bool(0.5) { format!("${}", r) } else { r.to_string() });
            }
            _ => { let v = interesting(rng); push_lit(v, toks, text); }
        }
        return;
    }
    if rng.gen_bool(0.2) {
        // dereference: mostly of an aligned address
        if rng.gen_bool(0.7) {
            let a = (rng.gen::<u64>() >> 1) & !7;
            push_lit(a, toks, text);
        } else {
            gen_expr(rng, regs, regnames, cfa_mode, budget - 1, toks, text);
        }
        toks.push(json!({"k": "deref"}));
        text.push("^".into());
        return;
    }
    let op = ["+", "-", "*", "/", "%", "@"][rng.gen_range(0..6)];
    gen_expr(rng, regs, regnames, cfa_mode, budget - 1, toks, text);
    match op {
        "@" if rng.gen_bool(0.85) => push_lit(1u64 << rng.gen_range(0..64), toks, text),
        "/" | "%" if rng.gen_bool(0.6) => { let v = interesting(rng).max(1); push_lit(v, toks, text) }
        _ => gen_expr(rng, regs, regnames, cfa_mode, budget / 2, toks, text),
    }
    toks.push(json!({"k": "op", "v": op}));
    text.push(op.into());
}

fn main() {
    let n: usize = std::env::args().nth(1).map(|s| s.parse().unwrap()).unwrap_or(500);
    let mut rng = StdRng::seed_from_u64(vharness::seed() ^ 0xC06);
    let regnames = ["rax", "rbx", "rcx", "r8"];
    for _ in 0..n {
        let mut regs = HashMap::new();
        for r in regnames.iter().take(rng.gen_range(1..=4)) {
            regs.insert(*r, interesting(&mut rng));
        }
        let cfa_mode = rng.gen_bool(0.2);
        let cfa_val = interesting(&mut rng);
        let mut toks: Vec<Value> = vec![];
        let mut text: Vec<String> = vec![];
        let budget = rng.gen_range(1..=9);
        gen_expr(&mut rng, &regs, &regnames, cfa_mode, budget, &mut toks, &mut text);
        // a fifth of the programs are damaged: drop or duplicate one token, or append junk
        if rng.gen_bool(0.2) {
            let i = rng.gen_range(0..toks.len());
            match rng.gen_range(0..3) {
                0 => { toks.remove(i); text.remove(i); }
                1 => { let (t, x) = (toks[i].clone(), text[i].clone()); toks.insert(i, t); text.insert(i, x); }
                _ => { toks.push(json!({"k": "fail"})); text.push([".undef", "$nope", "zzz", "9223372036854775808", "-9223372036854775809"][rng.gen_range(0..5)].into()); }
            }
        }
        if toks.is_empty() { continue; }
        let prog = text.join(" ");
        let sym = if cfa_mode {
            format!("MODULE Linux x86_64 000 m\nSTACK CFI INIT 0 1000 .cfa: {} .ra: 1\n", prog)
        } else {
            format!("MODULE Linux x86_64 000 m\nSTACK CFI INIT 0 1000 .cfa: {} .ra: {}\n", cfa_val as i64, prog)
        };
        let symf = SymbolFile::from_bytes(sym.as_bytes()).expect("generated symbol file parses");
        let module = SimpleModule { base_address: Some(0), size: Some(0x10000), ..SimpleModule::default() };
        let mut w = Mock { regs, mem_seed: rng.gen(), reads: RefCell::new(vec![]), cfa: None, ra: None };
        let r = std::panic::catch_unwind(std::panic::AssertUnwindSafe(|| symf.walk_frame(&module, &mut w)));
        let res = match r {
            Err(_) => json!("panic"),
            Ok(None) => json!([]),
            Ok(Some(())) => limbs_json(if cfa_mode { w.cfa.unwrap() } else { w.ra.unwrap() }, 4),
        };
        let rec = json!({"toks": toks, "cfa": if cfa_mode { json!([]) } else { limbs_json(cfa_val, 4) },
                         "reads": *w.reads.borrow(), "res": res, "text": sym});
        println!("{}", rec);
    }
}
