//! Emits arithmetic test vectors (computed with Rust's wrapping ops) for Trace_Words.tla.
use vharness::limbs;
fn main() {
    let width: u32 = std::env::args().nth(1).map(|s| s.parse().unwrap()).unwrap_or(64);
    let vals64: Vec<u64> = vec![
        0, 1, 2, 3, 7, 8, 16, 255, 256, 65535, 65536, 65537, 0x7fff_ffff, 0x8000_0000, 0xffff_ffff,
        0x1_0000_0000, 0x1234_5678_9abc_def0, 0x7fff_ffff_ffff_ffff, 0x8000_0000_0000_0000,
        0x8000_0000_0000_0001, 0xffff_ffff_ffff_fffe, 0xffff_ffff_ffff_ffff, 0xdead_beef_0000_0008, 4096, 4104,
        0x0000_ffff_0000_ffff, 0xffff_0000_ffff_0000, 1 << 47, 1 << 48, (1 << 48) - 1,
    ];
    let quick = std::env::args().nth(2).map(|s| s == "quick").unwrap_or(false);
    let vals64: Vec<u64> = if quick { vals64.into_iter().step_by(2).collect() } else { vals64 };
    let mut k = 0u32;
    for &a in &vals64 {
        for &b in &vals64 {
            k = (k + 7) % width;
            if width == 64 {
                let n = 4;
                println!(
                    "{{\"a\":{},\"b\":{},\"add\":{},\"sub\":{},\"mul\":{},\"div\":{},\"rem\":{},\"lt\":{},\"le\":{},\"ovf\":{},\"p2\":{},\"align\":{},\"neg\":{},\"k\":{},\"flip\":{}}}",
                    limbs(a, n), limbs(b, n), limbs(a.wrapping_add(b), n), limbs(a.wrapping_sub(b), n), limbs(a.wrapping_mul(b), n),
                    limbs(if b == 0 { 0 } else { a / b }, n), limbs(if b == 0 { 0 } else { a % b }, n),
                    (a < b) as u8, (a <= b) as u8, a.checked_add(b).is_none() as u8, b.is_power_of_two() as u8,
                    limbs(if b.is_power_of_two() { a & !(b - 1) } else { 0 }, n), limbs(a.wrapping_neg(), n), k, limbs(a ^ (1u64 << k), n)
                );
            } else {
                let (a, b) = (a as u32, b as u32);
                let n = 2;
                println!(
                    "{{\"a\":{},\"b\":{},\"add\":{},\"sub\":{},\"mul\":{},\"div\":{},\"rem\":{},\"lt\":{},\"le\":{},\"ovf\":{},\"p2\":{},\"align\":{},\"neg\":{},\"k\":{},\"flip\":{}}}",
                    limbs(a as u64, n), limbs(b as u64, n), limbs(a.wrapping_add(b) as u64, n), limbs(a.wrapping_sub(b) as u64, n), limbs(a.wrapping_mul(b) as u64, n),
                    limbs(if b == 0 { 0 } else { (a / b) as u64 }, n), limbs(if b == 0 { 0 } else { (a % b) as u64 }, n),
                    (a < b) as u8, (a <= b) as u8, a.checked_add(b).is_none() as u8, b.is_power_of_two() as u8,
                    limbs(if b.is_power_of_two() { (a & !(b - 1)) as u64 } else { 0 }, n), limbs(a.wrapping_neg() as u64, n), k, limbs((a ^ (1u32 << k)) as u64, n)
                );
            }
        }
    }
}
