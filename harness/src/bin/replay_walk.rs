//! C04 / C05 / C03(bound) binding for the modelled architectures: every instance TLC explores in Walker<Arch>.tla
//! is materialised (context, stack memory, modules, symbol text) and walked by the real walk_stack; frames are
//! compared with the model's (exact agreement) and written as observation records for Trace_Walk.tla.
use minidump::system_info::Os;
use serde_json::{json, Value};
use std::collections::HashMap;
use std::io::Write;
use vharness::walk::*;
use vharness::{for_each_case, guarded, install_panic_capture, limbs_json, Report};

/// The model's small integers as real amd64 values: the value NC stands for the non-canonical hole, and everything inside the module
/// without symbols (M2) is mapped into the upper canonical half (0xffff8000_00000000 and above), where kernels and some systems' libraries live.
const AMD64_HI: u64 = 0xffff_8000_0000_0000;
fn amd64_val(v: i64) -> u64 {
    if (v - 1073741824).abs() <= 16 { (0x0000_8000_0000_0000i64 + (v - 1073741824)) as u64 }
    else if (0x500000..0x501000 + 256).contains(&v) { v as u64 + AMD64_HI }
    else { v as u64 }
}

fn amd64_symbols(rule: &str) -> String {
    let cfi = match rule {
        "std" => ".cfa: $rsp 16 + .ra: .cfa 8 - ^ $rbp: .cfa 16 - ^",
        "leaf" => ".cfa: $rsp 8 + .ra: .cfa 8 - ^",
        "nomem" => ".cfa: $rsp 8 + .ra: 4194640",
        "bp" => ".cfa: $rbp 16 + .ra: .cfa 8 - ^ $rbp: .cfa 16 - ^",
        _ => panic!("rule"),
    };
    format!("MODULE Linux x86_64 000 m1\nFUNC 100 100 0 f1\nFUNC 300 100 0 f2\nSTACK CFI INIT 100 100 {}\n", cfi)
}

fn main() {
    install_panic_capture();
    let args: Vec<String> = std::env::args().collect();
    if args[1].starts_with("arm") {
        return arm_family(&args[1], &args[2], &args[3], &args[4]);
    }
    if args[1] == "x86" {
        return x86(&args[2], &args[3]);
    }
    if args[1].starts_with("mips") {
        return mips(&args[1], &args[2], &args[3]);
    }
    let (archname, path, tracepath) = (args[1].as_str(), args[2].as_str(), args[3].as_str());
    let mut trace = std::io::BufWriter::new(std::fs::File::create(tracepath).unwrap());
    let mut rep = Report::new();
    // "amd64win": the same walker under Os::Windows (the frame-pointer technique scans upwards in 16-byte steps)
    let (archname, os) = if archname == "amd64win" { ("amd64", Os::Windows) } else { (archname, Os::Linux) };
    let spec = arch_spec(archname);
    let mut n = 0u64;
    for_each_case(path, "CASE", |c| {
        n += 1;
        let words: Vec<u64> = c["mem"].as_array().unwrap().iter().map(|v| amd64_val(v.as_i64().unwrap())).collect();
        let f0 = &c["frames"][0];
        let ctx_ip = amd64_val(f0["ip"].as_i64().unwrap());
        let regs = vec![(spec.ip.to_string(), ctx_ip), (spec.sp.to_string(), amd64_val(f0["sp"].as_i64().unwrap())), (spec.fp.to_string(), amd64_val(f0["bp"].as_i64().unwrap()))];
        let valid: Vec<String> = f0["valid"].as_array().unwrap().iter().map(|v| v.as_str().unwrap().to_string()).collect();
        let mut symbols = HashMap::new();
        symbols.insert("m1".to_string(), amd64_symbols(c["rule"].as_str().unwrap()));
        let built = !c["expect"].as_array().unwrap().is_empty();
        let inp = WalkInput { arch: spec.arch, os, regs, valid: Some(valid), stack_base: 0x10000, stack_bytes: words_to_bytes(&words, spec.word),
                              modules: vec![("m1".into(), 0x400000, 0x1000), ("m2".into(), 0x500000 + AMD64_HI, 0x1000)], symbols, track: spec.track.clone(), frame_cap: words.len() * spec.word + 3 };
        let obs = guarded(|| run_walk(&inp));
        rep.evaluations += 1;
        // exact comparison with the model's frames
        let model = c["frames"].as_array().unwrap();
        let mut diff: Option<String> = None;
        let mut diff_trust: Option<String> = None;
        match &obs {
            Err(p) => diff = Some(format!("panic:{}", p)),
            Ok(o) => {
                if o.frames.len() != model.len() { diff = Some("frame-count".into()); }
                for (k, (r, m)) in o.frames.iter().zip(model.iter()).enumerate() {
                    if diff.is_some() { break; }
                    let mvalid: Vec<&str> = m["valid"].as_array().unwrap().iter().map(|v| v.as_str().unwrap()).collect();
                    diff_trust = m["trust"].as_str().map(|x| x.to_string());
                    if r.ip != amd64_val(m["ip"].as_i64().unwrap()) { diff = Some(format!("ip@{}", k.min(9))); }
                    else if r.instr != amd64_val(m["instr"].as_i64().unwrap()) { diff = Some("instr".into()); }
                    else if r.sp != amd64_val(m["sp"].as_i64().unwrap()) { diff = Some("sp".into()); }
                    else if r.trust != m["trust"].as_str().unwrap() { diff = Some("trust".into()); }
                    else if r.regs[spec.fp].is_some() != mvalid.contains(&spec.fp) { diff = Some("fp-validity".into()); }
                    else if r.regs[spec.fp].is_some() && r.regs[spec.fp] != Some(amd64_val(m["bp"].as_i64().unwrap())) { diff = Some("fp-value".into()); }
                    rep.class(&format!("frame:{}", r.trust));
                }
                if o.frames.len() > 1 { rep.nontrivial(&(c["mem"].to_string(), c["rule"].to_string(), f0.to_string())); }
            }
        }
        rep.class(if built { "built" } else { "any" });
        let send = diff.is_some() || n % 40 == 0 || built;
        if let Some(d) = &diff {
            let kind = if built { "walk-built" } else { "walk-any" };
            let detail = json!({"arch": archname, "mem": c["mem"], "rule": c["rule"], "context": f0, "model_frames": model,
                                "real_frames": obs.as_ref().ok().map(|o| o.frames.iter().map(|f| json!({"ip": f.ip, "instr": f.instr, "sp": f.sp, "fp": f.regs[spec.fp], "trust": f.trust})).collect::<Vec<_>>())});
            let strict = std::env::var("VERIF_STRICT_CFI_REGS").is_ok() && diff_trust.as_deref() == Some("cfi") && matches!(d.as_str(), "fp-validity" | "fp-value");
            if built { rep.mismatch(&format!("{}:{}:{}", kind, archname, d), detail); }
            else if strict { rep.mismatch(&format!("cfi-real-context:{}:{}", archname, d), detail); }
            else { rep.drift(json!({"what": d, "detail": detail})); }
        } else if built && rep.samples.len() < 5 && model.len() >= 4 {
            rep.sample(json!({"arch": archname, "stack_words": c["mem"], "chain": c["expect"]}));
        }
        if send {
            let rec = obs_record(&spec, &inp, &words, obs.map_err(|e| e), ctx_ip);
            writeln!(trace, "{}", rec).unwrap();
        }
    });
    trace.flush().unwrap();
    rep.finish();
}

// ------------------------------------------------------------------------------------------------ ARM / ARM64 (WalkerArm.tla)
const SIG: i64 = 1073741824;
fn arm_family(archname: &str, osname: &str, path: &str, tracepath: &str) {
    let mut trace = std::io::BufWriter::new(std::fs::File::create(tracepath).unwrap());
    let mut rep = Report::new();
    let spec = arch_spec(archname);
    let is64 = archname != "arm";
    let p = spec.word as i64;
    let (fpname, lrname, csname) = if is64 { ("x29", "x30", "x19") } else { ("r11", "lr", "r4") };
    // arm64: the module without symbols (M2) lives above 2^47 and comes first in the module list, so that the pointer-authentication
    // mask has to be derived from the highest module, not from the last one listed; tagged values carry 0xABCD in the top 16 bits
    const HI: u64 = 1 << 47;
    let relocate = |a: u64| -> u64 { if is64 && (5242880..5246976 + 256).contains(&a) { a + HI } else { a } };
    let val = |v: i64| -> u64 { if is64 && v >= SIG { relocate((v - SIG) as u64) | (0xABCDu64 << 48) } else { relocate(v as u64) } };
    let os = if osname == "ios" { Os::Ios } else { Os::Linux };
    let cfi = |rule: &str| -> String {
        match rule {
            "std" => format!(".cfa: sp {} + .ra: .cfa -{} + ^ {}: .cfa -{} + ^", 2 * p, p, fpname, 2 * p),
            "lrleaf" => format!(".cfa: sp 0 + .ra: {}", lrname),
            "nomem" => format!(".cfa: sp {} + .ra: 4194640", p),
            "cfaonly" => format!(".cfa: sp {} + .ra: .cfa -{} + ^", 2 * p, p),
            _ => panic!("rule"),
        }
    };
    let mut n = 0u64;
    for_each_case(path, "CASE", |c| {
        n += 1;
        let words: Vec<u64> = c["mem"].as_array().unwrap().iter().map(|v| val(v.as_i64().unwrap())).collect();
        let f0 = &c["frames"][0];
        let ctx_ip = val(f0["ip"].as_i64().unwrap());
        let regs = vec![("pc".to_string(), ctx_ip), ("sp".to_string(), val(f0["sp"].as_i64().unwrap())), ("fp".to_string(), val(f0["fp"].as_i64().unwrap())),
                        ("lr".to_string(), val(f0["lr"].as_i64().unwrap())), (csname.to_string(), f0["cs"].as_u64().unwrap())];
        let valid: Vec<String> = f0["valid"].as_array().unwrap().iter().map(|v| match v.as_str().unwrap() { "cs" => csname.to_string(), o => o.to_string() }).collect();
        let mut symbols = HashMap::new();
        symbols.insert("m1".to_string(), format!("MODULE Linux arm 000 m1\nFUNC 100 100 0 f1\nFUNC 300 100 0 f2\nFUNC 500 100 0 f3\nSTACK CFI INIT 100 100 {}\nSTACK CFI INIT 500 100 {}\n",
                                                 cfi(c["rule"].as_str().unwrap()), cfi("cfaonly")));
        let built = !c["expect"].as_array().unwrap().is_empty();
        let track: Vec<&'static str> = vec!["fp", "lr", if is64 { "x19" } else { "r4" }];
        let modules = if is64 { vec![("m2".into(), 0x500000 + HI, 0x1000), ("m1".into(), 0x400000, 0x1000)] } else { vec![("m1".into(), 0x400000, 0x1000), ("m2".into(), 0x500000, 0x1000)] };
        let inp = WalkInput { arch: spec.arch, os, regs, valid: Some(valid), stack_base: 0x10000, stack_bytes: words_to_bytes(&words, spec.word),
                              modules, symbols, track, frame_cap: words.len() * spec.word + 3 };
        let obs = guarded(|| run_walk(&inp));
        rep.evaluations += 1;
        let model = c["frames"].as_array().unwrap();
        let mut diff: Option<String> = None;
        let mut diff_trust: Option<String> = None;
        match &obs {
            Err(pn) => diff = Some(format!("panic:{}", pn)),
            Ok(o) => {
                if o.frames.len() != model.len() { diff = Some("frame-count".into()); }
                for (k, (r, m)) in o.frames.iter().zip(model.iter()).enumerate() {
                    if diff.is_some() { break; }
                    diff_trust = m["trust"].as_str().map(|x| x.to_string());
                    let mvalid: Vec<&str> = m["valid"].as_array().unwrap().iter().map(|v| v.as_str().unwrap()).collect();
                    let mfp = mvalid.contains(&"fp") || mvalid.contains(&"fpn");
                    let cs = &r.regs[if is64 { "x19" } else { "r4" }];
                    if r.ip != val(m["ip"].as_i64().unwrap()) { diff = Some(format!("ip@{}", k.min(9))); }
                    else if r.instr != val(m["instr"].as_i64().unwrap()) { diff = Some("instr".into()); }
                    else if r.sp != val(m["sp"].as_i64().unwrap()) { diff = Some("sp".into()); }
                    else if r.trust != m["trust"].as_str().unwrap() { diff = Some("trust".into()); }
                    else if r.regs["fp"].is_some() != mfp { diff = Some("fp-validity".into()); }
                    else if mfp && r.regs["fp"] != Some(val(m["fp"].as_i64().unwrap())) { diff = Some("fp-value".into()); }
                    else if cs.is_some() != mvalid.contains(&"cs") { diff = Some("callee-saved-validity".into()); }
                    else if cs.is_some() && *cs != Some(m["cs"].as_u64().unwrap()) { diff = Some("callee-saved-value".into()); }
                    else if r.regs["lr"].is_some() != mvalid.contains(&"lr") { diff = Some("lr-validity".into()); }
                    rep.class(&format!("frame:{}", r.trust));
                }
                if o.frames.len() > 1 { rep.nontrivial(&(c["mem"].to_string(), c["rule"].to_string(), f0.to_string())); }
            }
        }
        rep.class(if built { "built" } else { "any" });
        let send = diff.is_some() || n % 40 == 0 || built;
        if let Some(d) = &diff {
            let kind = if built { "walk-built" } else { "walk-any" };
            let detail = json!({"arch": archname, "os": osname, "mem": c["mem"], "rule": c["rule"], "context": f0, "model_frames": model,
                                "real_frames": obs.as_ref().ok().map(|o| o.frames.iter().map(|f| json!({"ip": f.ip, "instr": f.instr, "sp": f.sp, "regs": format!("{:?}", f.regs), "trust": f.trust})).collect::<Vec<_>>())});
            // VERIF_STRICT_CFI_REGS: which registers a frame recovered by STACK CFI knows (forwarded only when known in the callee, set from
            // their rules otherwise) is the documented semantics of STACK CFI through a real context (C06): there a disagreement is a
            // violation, not drift
            let strict = std::env::var("VERIF_STRICT_CFI_REGS").is_ok() && diff_trust.as_deref() == Some("cfi")
                && matches!(d.as_str(), "callee-saved-validity" | "callee-saved-value" | "fp-validity" | "fp-value" | "lr-validity");
            if built { rep.mismatch(&format!("{}:{}:{}", kind, archname, d), detail); }
            else if strict { rep.mismatch(&format!("cfi-real-context:{}:{}", archname, d), detail); }
            else { rep.drift(json!({"what": d, "detail": detail})); }
        } else if built && rep.samples.len() < 5 && model.len() >= 4 {
            rep.sample(json!({"arch": archname, "os": osname, "stack_words": c["mem"], "chain": c["expect"]}));
        }
        if send {
            let mut rec = obs_record(&spec, &inp, &words, obs.map_err(|e| e), ctx_ip);
            rec["arch"] = json!(archname);
            writeln!(trace, "{}", rec).unwrap();
        }
    });
    trace.flush().unwrap();
    rep.finish();
}

// ------------------------------------------------------------------------------------------------ x86 (WalkerX86.tla)
fn x86(path: &str, tracepath: &str) {
    let mut trace = std::io::BufWriter::new(std::fs::File::create(tracepath).unwrap());
    let mut rep = Report::new();
    let spec = arch_spec("x86");
    let unwind = |rule: &str| -> &'static str {
        match rule {
            "win_std" => "STACK WIN 4 100 100 0 0 c 0 0 0 1 $T0 $ebp = $eip $T0 4 + ^ = $ebp $T0 ^ = $esp $T0 8 + =",
            "win_ra" => "STACK WIN 4 100 100 0 0 c 0 4 0 1 $T0 .raSearch = $eip $T0 ^ = $esp $T0 4 + =",
            "fpo" => "STACK WIN 0 100 100 0 0 c 0 4 0 0 0",
            "fpo_bp" => "STACK WIN 0 100 100 0 0 c 8 0 0 0 1",
            "cfi" => "STACK CFI INIT 100 100 .cfa: $esp 8 + .ra: .cfa 4 - ^ $ebp: .cfa 8 - ^",
            "std_fpo" => "STACK WIN 4 100 100 0 0 c 0 0 0 1 $T0 $ebp = $eip $T0 4 + ^ = $ebp $T0 ^ = $esp $T0 8 + =\nSTACK WIN 0 100 100 0 0 4 0 4 0 0 0",     // the FPO record declares a different parameter size: the frame-data record is the one that counts
            "std_cfi" => "STACK WIN 4 100 100 0 0 c 0 0 0 1 $T0 $ebp = $eip $T0 4 + ^ = $ebp $T0 ^ = $esp $T0 8 + =\nSTACK CFI INIT 100 100 .cfa: $esp 8 + .ra: .cfa 4 - ^ $ebp: .cfa 8 - ^",
            "cfi_big" => "STACK CFI INIT 100 100 .cfa: $esp 8 + .ra: .cfa 4 - ^ $ebx: 4294967296 $eax: 4294967296",
            _ => panic!("rule"),
        }
    };
    let mut n = 0u64;
    for_each_case(path, "CASE", |c| {
        n += 1;
        let words: Vec<u64> = c["mem"].as_array().unwrap().iter().map(|v| v.as_u64().unwrap()).collect();
        let f0 = &c["frames"][0];
        let ctx_ip = f0["ip"].as_u64().unwrap();
        let regs = vec![("eip".to_string(), ctx_ip), ("esp".to_string(), f0["sp"].as_u64().unwrap()), ("ebp".to_string(), f0["bp"].as_u64().unwrap()),
                        ("ebx".to_string(), f0["bx"].as_u64().unwrap()), ("esi".to_string(), 0x5151), ("edi".to_string(), 0xd1d1), ("eax".to_string(), 0xaaaa_aaaa)];
        let valid: Vec<String> = f0["valid"].as_array().unwrap().iter().map(|v| v.as_str().unwrap().to_string()).collect();
        let mut symbols = HashMap::new();
        symbols.insert("m1".to_string(), format!("MODULE windows x86 000 m1\nFUNC 100 100 0 f1\nFUNC 300 100 8 f2\n{}\n", unwind(c["rule"].as_str().unwrap())));
        let built = !c["expect"].as_array().unwrap().is_empty();
        let inp = WalkInput { arch: spec.arch, os: Os::Windows, regs, valid: Some(valid), stack_base: 0x10000, stack_bytes: words_to_bytes(&words, spec.word),
                              modules: vec![("m1".into(), 0x400000, 0x1000), ("m2".into(), 0x500000, 0x1000)], symbols, track: vec!["ebp", "ebx", "esi", "edi", "eax"], frame_cap: words.len() * spec.word + 3 };
        let obs = guarded(|| run_walk(&inp));
        rep.evaluations += 1;
        let model = c["frames"].as_array().unwrap();
        let mut diff: Option<String> = None;
        match &obs {
            Err(pn) => diff = Some(format!("panic:{}", pn)),
            Ok(o) => {
                if o.frames.len() != model.len() { diff = Some("frame-count".into()); }
                for (k, (r, m)) in o.frames.iter().zip(model.iter()).enumerate() {
                    if diff.is_some() { break; }
                    let mvalid: Vec<&str> = m["valid"].as_array().unwrap().iter().map(|v| v.as_str().unwrap()).collect();
                    let mps = m["psize"].as_i64().unwrap();
                    if r.ip != m["ip"].as_u64().unwrap() { diff = Some(format!("ip@{}", k.min(9))); }
                    else if r.instr != m["instr"].as_u64().unwrap() { diff = Some("instr".into()); }
                    else if r.sp != m["sp"].as_u64().unwrap() { diff = Some("sp".into()); }
                    else if r.trust != m["trust"].as_str().unwrap() { diff = Some("trust".into()); }
                    else if r.regs["ebp"].is_some() != mvalid.contains(&"ebp") { diff = Some("ebp-validity".into()); }
                    else if r.regs["ebp"].is_some() && r.regs["ebp"] != m["bp"].as_u64() { diff = Some("ebp-value".into()); }
                    else if r.regs["ebx"].is_some() != mvalid.contains(&"ebx") { diff = Some("ebx-validity".into()); }
                    else if r.regs["ebx"].is_some() && r.regs["ebx"] != m["bx"].as_u64() { diff = Some("ebx-value".into()); }
                    else if r.regs["esi"].is_some() != mvalid.contains(&"esi") || r.regs["edi"].is_some() != mvalid.contains(&"edi") { diff = Some("esi-edi-validity".into()); }
                    else if r.regs["eax"].is_some() != mvalid.contains(&"eax") { diff = Some("eax-validity".into()); }
                    else if r.psize.map(|x| x as i64).unwrap_or(-1) != mps { diff = Some("parameter-size".into()); }
                    rep.class(&format!("frame:{}", r.trust));
                }
                if o.frames.len() > 1 { rep.nontrivial(&(c["mem"].to_string(), c["rule"].to_string(), f0.to_string())); }
            }
        }
        rep.class(if built { "built" } else { "any" });
        rep.class(&format!("rule:{}", c["rule"].as_str().unwrap()));
        let send = diff.is_some() || n % 40 == 0 || built;
        if let Some(d) = &diff {
            let kind = if built { "walk-built" } else { "walk-any" };
            let detail = json!({"arch": "x86", "mem": c["mem"], "rule": c["rule"], "context": f0, "model_frames": model,
                                "real_frames": obs.as_ref().ok().map(|o| o.frames.iter().map(|f| json!({"ip": f.ip, "instr": f.instr, "sp": f.sp, "regs": format!("{:?}", f.regs), "psize": f.psize, "trust": f.trust})).collect::<Vec<_>>())});
            // VERIF_STRICT_RULES: rule shapes for which the model is the documented semantics of STACK CFI evaluation through a real
            // 32-bit context (C06): there a disagreement is a violation, not drift
            let strict = std::env::var("VERIF_STRICT_RULES").map(|v| v.split(',').any(|r| r == c["rule"].as_str().unwrap())).unwrap_or(false);
            if built { rep.mismatch(&format!("{}:x86:{}", kind, d), detail); }
            else if strict { rep.mismatch(&format!("cfi-real-context:x86:{}:{}", c["rule"].as_str().unwrap(), d.split('@').next().unwrap()), detail); }
            else { rep.drift(json!({"what": d, "detail": detail})); }
        } else if built && rep.samples.len() < 5 && model.len() >= 4 {
            rep.sample(json!({"arch": "x86", "rule": c["rule"], "stack_words": c["mem"], "chain": c["expect"]}));
        }
        if send {
            let mut rec = obs_record(&spec, &inp, &words, obs.map_err(|e| e), ctx_ip);
            rec["arch"] = json!("x86");
            writeln!(trace, "{}", rec).unwrap();
        }
    });
    trace.flush().unwrap();
    rep.finish();
}

// ------------------------------------------------------------------------------------------------ MIPS (WalkerMips.tla)
fn mips(archname: &str, path: &str, tracepath: &str) {
    let mut trace = std::io::BufWriter::new(std::fs::File::create(tracepath).unwrap());
    let mut rep = Report::new();
    let spec = arch_spec(archname);
    let p = spec.word as i64;
    let cfi = |rule: &str| -> String {
        match rule {
            "std" => format!(".cfa: $sp {} + .ra: .cfa -{} + ^ $fp: .cfa -{} + ^", 2 * p, p, 2 * p),
            "raleaf" => ".cfa: $sp 0 + .ra: $ra".to_string(),
            "nomem" => format!(".cfa: $sp {} + .ra: 4194640", p),
            "cfaonly" => format!(".cfa: $sp {} + .ra: .cfa -{} + ^", 2 * p, p),
            _ => panic!("rule"),
        }
    };
    let mut n = 0u64;
    for_each_case(path, "CASE", |c| {
        n += 1;
        let words: Vec<u64> = c["mem"].as_array().unwrap().iter().map(|v| v.as_u64().unwrap()).collect();
        let f0 = &c["frames"][0];
        let ctx_ip = f0["ip"].as_u64().unwrap();
        let regs = vec![("pc".to_string(), ctx_ip), ("sp".to_string(), f0["sp"].as_u64().unwrap()), ("fp".to_string(), f0["fp"].as_u64().unwrap()),
                        ("ra".to_string(), f0["ra"].as_u64().unwrap()), ("s0".to_string(), f0["cs"].as_u64().unwrap()),
                        // $gp is callee-saved like $s0: the model's one callee-saved register stands for both
                        ("gp".to_string(), f0["cs"].as_u64().unwrap() + 1000)];
        let mut valid: Vec<String> = f0["valid"].as_array().unwrap().iter().map(|v| match v.as_str().unwrap() { "cs" => "s0".to_string(), o => o.to_string() }).collect();
        if valid.iter().any(|v| v == "s0") { valid.push("gp".to_string()); }
        let mut symbols = HashMap::new();
        symbols.insert("m1".to_string(), format!("MODULE Linux mips 000 m1\nFUNC 100 100 0 f1\nFUNC 300 100 0 f2\nFUNC 500 100 0 f3\nSTACK CFI INIT 100 100 {}\nSTACK CFI INIT 500 100 {}\n",
                                                 cfi(c["rule"].as_str().unwrap()), cfi("cfaonly")));
        let built = !c["expect"].as_array().unwrap().is_empty();
        let inp = WalkInput { arch: spec.arch, os: Os::Linux, regs, valid: Some(valid), stack_base: 0x10000, stack_bytes: words_to_bytes(&words, spec.word),
                              modules: vec![("m1".into(), 0x400000, 0x1000), ("m2".into(), 0x500000, 0x1000)], symbols, track: vec!["fp", "ra", "s0", "gp"], frame_cap: words.len() * spec.word + 3 };
        let obs = guarded(|| run_walk(&inp));
        rep.evaluations += 1;
        let model = c["frames"].as_array().unwrap();
        let mut diff: Option<String> = None;
        let mut diff_trust: Option<String> = None;
        match &obs {
            Err(pn) => diff = Some(format!("panic:{}", pn)),
            Ok(o) => {
                if o.frames.len() != model.len() { diff = Some("frame-count".into()); }
                for (k, (r, m)) in o.frames.iter().zip(model.iter()).enumerate() {
                    if diff.is_some() { break; }
                    let mvalid: Vec<&str> = m["valid"].as_array().unwrap().iter().map(|v| v.as_str().unwrap()).collect();
                    diff_trust = m["trust"].as_str().map(|x| x.to_string());
                    if r.ip != m["ip"].as_u64().unwrap() { diff = Some(format!("ip@{}", k.min(9))); }
                    else if r.instr != m["instr"].as_u64().unwrap() { diff = Some("instr".into()); }
                    else if r.sp != m["sp"].as_u64().unwrap() { diff = Some("sp".into()); }
                    else if r.trust != m["trust"].as_str().unwrap() { diff = Some("trust".into()); }
                    else if r.regs["fp"].is_some() != mvalid.contains(&"fp") { diff = Some("fp-validity".into()); }
                    else if r.regs["fp"].is_some() && r.regs["fp"] != m["fp"].as_u64() { diff = Some("fp-value".into()); }
                    else if r.regs["s0"].is_some() != mvalid.contains(&"cs") { diff = Some("callee-saved-validity".into()); }
                    else if r.regs["s0"].is_some() && r.regs["s0"] != m["cs"].as_u64() { diff = Some("callee-saved-value".into()); }
                    else if r.regs["gp"].is_some() != mvalid.contains(&"cs") { diff = Some("callee-saved-validity".into()); }
                    else if r.regs["gp"].is_some() && r.regs["gp"] != m["cs"].as_u64().map(|x| x + 1000) { diff = Some("callee-saved-value".into()); }
                    else if r.regs["ra"].is_some() != mvalid.contains(&"ra") { diff = Some("ra-validity".into()); }
                    rep.class(&format!("frame:{}", r.trust));
                }
                if o.frames.len() > 1 { rep.nontrivial(&(c["mem"].to_string(), c["rule"].to_string(), f0.to_string())); }
            }
        }
        rep.class(if built { "built" } else { "any" });
        let send = diff.is_some() || n % 40 == 0 || built;
        if let Some(d) = &diff {
            let kind = if built { "walk-built" } else { "walk-any" };
            let detail = json!({"arch": archname, "mem": c["mem"], "rule": c["rule"], "context": f0, "model_frames": model,
                                "real_frames": obs.as_ref().ok().map(|o| o.frames.iter().map(|f| json!({"ip": f.ip, "instr": f.instr, "sp": f.sp, "regs": format!("{:?}", f.regs), "trust": f.trust})).collect::<Vec<_>>())});
            let strict = std::env::var("VERIF_STRICT_CFI_REGS").is_ok() && diff_trust.as_deref() == Some("cfi")
                && matches!(d.as_str(), "callee-saved-validity" | "callee-saved-value" | "fp-validity" | "fp-value" | "ra-validity");
            if built { rep.mismatch(&format!("{}:{}:{}", kind, archname, d), detail); }
            else if strict { rep.mismatch(&format!("cfi-real-context:{}:{}", archname, d), detail); }
            else { rep.drift(json!({"what": d, "detail": detail})); }
        } else if built && rep.samples.len() < 5 && model.len() >= 4 {
            rep.sample(json!({"arch": archname, "stack_words": c["mem"], "chain": c["expect"]}));
        }
        if send {
            let mut rec = obs_record(&spec, &inp, &words, obs.map_err(|e| e), ctx_ip);
            rec["arch"] = json!("mips");
            writeln!(trace, "{}", rec).unwrap();
        }
    });
    trace.flush().unwrap();
    rep.finish();
}
