//! C14 binding, spec -> impl, for the crash-reason / crash-address decision table: every finished record of
//! CrashReason.tla becomes an exception stream in a dump written by the frozen writer; the real
//! process_minidump must report exactly the reason string and address the table prescribes.
//! The class -> (number, platform name) tables below are frozen copies of the platform headers' constants.
use minidump::Minidump;
use minidump_processor::process_minidump;
use minidump_unwind::{string_symbol_supplier, Symbolizer};
use serde_json::{json, Value};
use std::collections::HashMap;
use vharness::dumpgen::*;
use vharness::walk::block_on;
use vharness::{for_each_case, guarded, install_panic_capture, Report};

fn flag_num(f: &str) -> u32 {
    match f { "f0" => 0, "f1" => 1, "f2" => 2, "f13" => 13, "f128" => 0x80, "f257" => 0x101, "fabrt" => 0x0001_0002, "fbig" => 0x7777, "fm6" => (-6i32) as u32, _ => panic!("flag {}", f) }
}
fn info0_num(i: &str) -> u64 {
    match i { "i0" => 0, "i1" => 1, "i8" => 8, "i5" => 5, "ihi1" => (1u64 << 32) + 1, _ => panic!("info0 {}", i) }
}
fn code_num(code: &str) -> u32 {
    match code {
        "av" => 0xC000_0005, "inpage" => 0xC000_0006, "fastfail" => 0xC000_0409, "general" => 0x8000_0003, "oom" => 0xE000_0008, "cpp" => 0xE06D_7363, "simulated" => 0x0517_A7ED,
        "ntstatus" => 0xC000_0374, "winerror" => 2, "facility" => 0xC06D_007E, "facility_lowsev" => 0x206D_007E, "wfacunk" => 0x8007_0002, "wunknown" => 0x2BAD_BEEF,
        "SIGILL" => 4, "SIGTRAP" => 5, "SIGABRT" => 6, "SIGBUS" => 7, "SIGFPE" => 8, "SIGUSR1" => 10, "SIGSEGV" => 11, "SIGSYS" => 31, "lunknown" => 200,
        "EXC_BAD_ACCESS" => 1, "EXC_BAD_INSTRUCTION" => 2, "EXC_ARITHMETIC" => 3, "EXC_EMULATION" => 4, "EXC_SOFTWARE" => 5, "EXC_BREAKPOINT" => 6, "SIMULATED" => 0x4350_7378, "munknown" => 10,
        _ => panic!("code {}", code),
    }
}
fn linux_kind(sig: &str, k: &str) -> &'static str {
    match (sig, k) {
        ("SIGILL", "f1") => "ILL_ILLOPC", ("SIGILL", "f2") => "ILL_ILLOPN", ("SIGTRAP", "f1") => "TRAP_BRKPT", ("SIGTRAP", "f2") => "TRAP_TRACE",
        ("SIGFPE", "f1") => "FPE_INTDIV", ("SIGFPE", "f2") => "FPE_INTOVF", ("SIGSEGV", "f1") => "SEGV_MAPERR", ("SIGSEGV", "f2") => "SEGV_ACCERR",
        ("SIGBUS", "f1") => "BUS_ADRALN", ("SIGBUS", "f2") => "BUS_ADRERR", ("SIGSYS", "f1") => "SYS_SECCOMP", ("SIGSYS", "f2") => "SYS_USER_DISPATCH",
        _ => panic!("linux kind {} {}", sig, k),
    }
}
fn mac_kind(code: &str, table: &str, k: &str) -> &'static str {
    match (code, table, k) {
        ("EXC_BAD_ACCESS", "kern", "f1") => "KERN_INVALID_ADDRESS", ("EXC_BAD_ACCESS", "kern", "f2") => "KERN_PROTECTION_FAILURE",
        ("EXC_BAD_ACCESS", "x86", "f13") => "EXC_I386_GPFLT", ("EXC_BAD_ACCESS", "arm", "f257") => "EXC_ARM_DA_ALIGN", ("EXC_BAD_ACCESS", "ppc", "f257") => "EXC_PPC_VM_PROT_READ",
        ("EXC_BAD_INSTRUCTION", "x86", "f1") => "EXC_I386_INVOP", ("EXC_BAD_INSTRUCTION", "x86", "f13") => "EXC_I386_GPFLT", ("EXC_BAD_INSTRUCTION", "arm", "f1") => "EXC_ARM_UNDEFINED",
        ("EXC_BAD_INSTRUCTION", "ppc", "f1") => "EXC_PPC_INVALID_SYSCALL", ("EXC_BAD_INSTRUCTION", "ppc", "f2") => "EXC_PPC_UNIPL_INST",
        ("EXC_ARITHMETIC", "x86", "f1") => "EXC_I386_DIV", ("EXC_ARITHMETIC", "x86", "f2") => "EXC_I386_INTO", ("EXC_ARITHMETIC", "arm", "f1") => "EXC_ARM_FP_IO", ("EXC_ARITHMETIC", "arm", "f2") => "EXC_ARM_FP_DZ",
        ("EXC_ARITHMETIC", "ppc", "f1") => "EXC_PPC_OVERFLOW", ("EXC_ARITHMETIC", "ppc", "f2") => "EXC_PPC_ZERO_DIVIDE",
        ("EXC_BREAKPOINT", "x86", "f1") => "EXC_I386_SGL", ("EXC_BREAKPOINT", "x86", "f2") => "EXC_I386_BPT", ("EXC_BREAKPOINT", "arm", "f1") => "EXC_ARM_BREAKPOINT", ("EXC_BREAKPOINT", "ppc", "f1") => "EXC_PPC_BREAKPOINT",
        ("EXC_SOFTWARE", "software", "fabrt") => "SIGABRT", ("EXC_SOFTWARE", "software", "f1") => "EXC_PPC_TRAP",
        _ => panic!("mac kind {} {} {}", code, table, k),
    }
}
fn fastfail_name(i: &str) -> &'static str {
    match i { "i0" => "FAST_FAIL_LEGACY_GS_VIOLATION", "i1" => "FAST_FAIL_VTGUARD_CHECK_FAILURE", "i8" => "FAST_FAIL_RANGE_CHECK_FAILURE", "i5" => "FAST_FAIL_INVALID_ARG", _ => panic!("ff {}", i) }
}

fn expected_reason(c: &Value) -> String {
    let r = &c["reason"];
    let code = c["code"].as_str().unwrap();
    let flags = flag_num(c["flags"].as_str().unwrap());
    match r["shape"].as_str().unwrap() {
        "name" => r["name"].as_str().unwrap().to_string(),
        "av_kind" => format!("EXCEPTION_ACCESS_VIOLATION_{}", r["kind"].as_str().unwrap()),
        "inpage_kind" => format!("EXCEPTION_IN_PAGE_ERROR_{} / {}", r["kind"].as_str().unwrap(), if r["status"] == "name" { "STATUS_INSUFFICIENT_RESOURCES".to_string() } else { "0xc0001234".to_string() }),
        "fastfail" => format!("EXCEPTION_STACK_BUFFER_OVERRUN / {}", fastfail_name(r["ff"].as_str().unwrap())),
        "win_unknown" => format!("unknown {:#010x}", code_num(code)),
        "unknown" => format!("unknown {:#010x} / {:#010x}", code_num(code), flags),
        "sig_kind" => format!("{} / {}", code, linux_kind(code, r["k"].as_str().unwrap())),
        "sig" => code.to_string(),
        "sig_sicode" => format!("{} / {}", code, if r["si"] == "f128" { "SI_KERNEL" } else { "SI_TKILL" }),
        "sig_hex" => format!("{} / {:#010x}", code, flags),
        "mac_kind" => format!("{} / {}", code, mac_kind(code, r["table"].as_str().unwrap(), r["k"].as_str().unwrap())),
        "mac_general" => format!("{} / {:#010x}", code, flags),
        s => panic!("shape {}", s),
    }
}

fn main() {
    install_panic_capture();
    let path = std::env::args().nth(1).unwrap();
    let mut rep = Report::new();
    for_each_case(&path, "CASE", |c| {
        let os = c["os"].as_str().unwrap();
        let cpu = c["cpu"].as_str().unwrap();
        let mut spec = DumpSpec { os: os.into(), cpu: cpu.into(), ..DumpSpec::default() };
        spec.threads.push(ThreadSpec { id: 1, ctx_ok: false, name: None, ip: 0x400100, sp: 0x10000, stack_base: 0x10000, stack: vec![0u8; 16] });
        spec.modules = vec![ModuleSpec { base: 0x400000, size: 0x1000, name: "m1".into() }];
        let mut info = [0u64; 15];
        info[0] = info0_num(c["i0"].as_str().unwrap());
        info[1] = addr_val(c["a1"].as_str().unwrap(), 0x1000);
        info[2] = match c["i2"].as_str().unwrap() { "known" => 0xC000_009A, "knownhi" => 0xFFFF_FFFF_C000_009A, _ => 0xC000_1234 };
        let address = addr_val(c["ad"].as_str().unwrap(), EXC_IP);
        spec.exception = Some(ExcSpec { tid: 1, has_ctx: false, ctx_ok: false, ctx_ip: EXC_IP, ctx_sp: 0x10000, code: code_num(c["code"].as_str().unwrap()), flags: flag_num(c["flags"].as_str().unwrap()),
                                        address, nparams: c["np"].as_u64().unwrap() as u32, info, ctx_patch: vec![] });
        let bytes = build(&spec);
        rep.evaluations += 1;
        let res = guarded(|| {
            let dump = Minidump::read(&bytes[..]).map_err(|e| format!("read: {:?}", e))?;
            let provider = Symbolizer::new(string_symbol_supplier(HashMap::new()));
            block_on(Box::pin(process_minidump(&dump, &provider))).map_err(|e| format!("process: {:?}", e))
        });
        let state = match res {
            Ok(Ok(s)) => s,
            Ok(Err(e)) => { rep.mismatch("crashreason:error", json!({"case": c, "error": e})); return; }
            Err(p) => { rep.mismatch(&format!("crashreason:panic:{}", p), json!({"case": c})); return; }
        };
        let shape = c["reason"]["shape"].as_str().unwrap();
        rep.class(&format!("os:{}", os));
        rep.class(&format!("shape:{}", shape));
        rep.nontrivial(&c.to_string());
        let Some(info) = &state.exception_info else { rep.mismatch("crashreason:no-exception-info", json!({"case": c})); return; };
        let want = expected_reason(&c);
        let got = info.reason.to_string();
        if got != want { rep.mismatch(&format!("crashreason:reason:{}:{}", os, shape), json!({"case": c, "expected": want, "observed": got})); return; }
        let a = &c["addr"];
        let mut want_addr = if a["src"] == "info1" { addr_val(a["val"].as_str().unwrap(), 0x1000) } else { addr_val(a["val"].as_str().unwrap(), EXC_IP) };
        if a["trunc"].as_bool().unwrap() { want_addr &= 0xffff_ffff; }
        if info.address.0 != want_addr { rep.mismatch(&format!("crashreason:address:{}", os), json!({"case": c, "expected": format!("{:#x}", want_addr), "observed": format!("{:#x}", info.address.0)})); return; }
        if shape == "mac_kind" && cpu == "ppc" { rep.sample(json!({"case": c, "reason": got})); }
    });
    // ---- OS version and build strings (MinidumpSystemInfo::os_parts, handed on unchanged): the numeric version and the CSD string, except that a
    // Linux dump with version 0.0.0 takes both from the uname text "Linux [version] [build...] [arch] [Linux/GNU]" - the build part verbatim
    let table: [(&str, (u32, u32, u32), &str, &str, Option<&str>); 7] = [
        ("linux", (0, 0, 0), "Linux 5.4.0-42-generic #46-Ubuntu SMP Fri Jul 10 00:24:02 UTC 2020 x86_64", "5.4.0-42-generic", Some("#46-Ubuntu SMP Fri Jul 10 00:24:02 UTC 2020")),
        ("linux", (0, 0, 0), "Linux 5.4.0 #1 SMP Sat Nov  7 10:00:00 UTC 2020 x86_64", "5.4.0", Some("#1 SMP Sat Nov  7 10:00:00 UTC 2020")),
        ("linux", (0, 0, 0), "Linux 3.10.0 #1 SMP x86_64 Linux/GNU", "3.10.0", Some("#1 SMP")),
        ("linux", (0, 0, 0), "Linux 5.4.0-42-generic", "5.4.0-42-generic", Some("")),
        ("linux", (5, 4, 3), "Linux 5.4.3 #1 SMP x86_64", "5.4.3", Some("Linux 5.4.3 #1 SMP x86_64")),
        ("windows", (10, 0, 19041), "Service Pack 1", "10.0.19041", Some("Service Pack 1")),
        ("android", (0, 0, 0), "Linux 4.14.0 #1 SMP aarch64", "0.0.0", Some("Linux 4.14.0 #1 SMP aarch64")),
    ];
    for (os, ver, csd, want_ver, want_build) in table {
        let mut spec = DumpSpec { os: os.into(), cpu: "amd64".into(), ..DumpSpec::default() };
        spec.threads.push(ThreadSpec { id: 1, ctx_ok: false, name: None, ip: 0x400100, sp: 0x10000, stack_base: 0x10000, stack: vec![0u8; 16] });
        spec.csd = Some(csd.to_string());
        spec.os_version = Some(ver);
        let bytes = build(&spec);
        rep.evaluations += 1;
        rep.class("os-strings");
        let res = guarded(|| {
            let dump = Minidump::read(&bytes[..]).map_err(|e| format!("read: {:?}", e))?;
            let provider = Symbolizer::new(string_symbol_supplier(HashMap::new()));
            block_on(Box::pin(process_minidump(&dump, &provider))).map_err(|e| format!("process: {:?}", e))
        });
        match res {
            Ok(Ok(state)) => {
                let got = (state.system_info.os_version.clone(), state.system_info.os_build.clone());
                let want = (Some(want_ver.to_string()), want_build.map(|b| b.to_string()));
                if got != want { rep.mismatch("crashreason:os-strings", json!({"os": os, "numeric_version": format!("{:?}", ver), "csd": csd, "expected": want, "observed": got})); }
            }
            Ok(Err(e)) => rep.mismatch("crashreason:error", json!({"csd": csd, "error": e})),
            Err(p) => rep.mismatch(&format!("crashreason:panic:{}", p), json!({"csd": csd})),
        }
    }
    // ---- the same rule, for every system-info stream OsStrings.tla reaches (second argument: its TLC output)
    if let Some(os_path) = std::env::args().nth(2) {
        for_each_case(&os_path, "OSCASE", |c| {
            let os = c["platform"].as_str().unwrap();
            let csd = c["csd"].as_str().unwrap();
            let ver = if c["numeric"] == "zero" { (0, 0, 0) } else { (5, 4, 3) };
            let mut spec = DumpSpec { os: os.into(), cpu: "amd64".into(), ..DumpSpec::default() };
            spec.threads.push(ThreadSpec { id: 1, ctx_ok: false, name: None, ip: 0x400100, sp: 0x10000, stack_base: 0x10000, stack: vec![0u8; 16] });
            spec.csd = Some(csd.to_string());
            spec.os_version = Some(ver);
            let bytes = build(&spec);
            rep.evaluations += 1;
            rep.class(&format!("osmodel:{}:{}", if c["uname"].as_bool().unwrap() { "uname" } else { "stored" }, os));
            rep.class(&format!("osmodel:phase{}", c["phase"]));
            if c["uname"].as_bool().unwrap() { rep.class(&format!("osmodel:nbuild{}", c["nbuild"])); }
            rep.nontrivial(&c.to_string());
            let res = guarded(|| {
                let dump = Minidump::read(&bytes[..]).map_err(|e| format!("read: {:?}", e))?;
                let provider = Symbolizer::new(string_symbol_supplier(HashMap::new()));
                block_on(Box::pin(process_minidump(&dump, &provider))).map_err(|e| format!("process: {:?}", e))
            });
            match res {
                Ok(Ok(state)) => {
                    let e = &c["expected"];
                    let got = (state.system_info.os_version.clone(), state.system_info.os_build.clone());
                    let want = (Some(e["version"].as_str().unwrap().to_string()), if e["has_build"].as_bool().unwrap() { Some(e["build"].as_str().unwrap().to_string()) } else { None });
                    if got != want { rep.mismatch(&format!("crashreason:os-model:{}", if c["uname"].as_bool().unwrap() { "uname" } else { "stored" }), json!({"case": c, "expected": want, "observed": got})); }
                }
                Ok(Err(e)) => rep.mismatch("crashreason:error", json!({"case": c, "error": e})),
                Err(p) => rep.mismatch(&format!("crashreason:panic:{}", p), json!({"case": c})),
            }
        });
    }
    rep.finish();
}
