//! C07 binding, spec -> impl, for WinKinds.tla: every file of <= MaxLines STACK WIN lines (type x has_program_string x
//! evaluates-or-fails) with or without a STACK CFI record over the same range is rendered, parsed by the real parser and
//! unwound by the real SymbolFile::walk_frame; the record that answered is identified by the return address it yields.
use breakpad_symbols::{FrameWalker, SimpleModule, SymbolFile};
use serde_json::{json, Value};
use std::collections::BTreeMap;
use vharness::{for_each_case, guarded, install_panic_capture, Report};

struct Mock { callee: BTreeMap<&'static str, u64>, caller: BTreeMap<String, u64> }
impl FrameWalker for Mock {
    fn get_instruction(&self) -> u64 { 0x1010 }
    fn has_grand_callee(&self) -> bool { false }
    fn get_grand_callee_parameter_size(&self) -> u32 { 0 }
    fn get_register_at_address(&self, a: u64) -> Option<u64> { match a { 4096 => Some(0xA0), 4104 => Some(0xB0), 4112 => Some(0xC0), _ => None } }
    fn get_callee_register(&self, name: &str) -> Option<u64> { self.callee.get(name).copied() }
    fn set_caller_register(&mut self, name: &str, val: u64) -> Option<()> { if val > u32::MAX as u64 { return None; } self.caller.insert(name.to_string(), val); Some(()) }
    fn clear_caller_register(&mut self, name: &str) { self.caller.remove(name); }
    fn set_cfa(&mut self, v: u64) -> Option<()> { self.set_caller_register("esp", v) }
    fn set_ra(&mut self, v: u64) -> Option<()> { self.set_caller_register("eip", v) }
}

fn render(c: &Value) -> String {
    let mut s = String::from("MODULE windows x86 000000000000000000000000000000000 a.pdb\n");
    for l in c["lines"].as_array().unwrap() {
        let ty = l["ty"].as_str().unwrap();
        let hps = l["hps"].as_bool().unwrap();
        let good = l["good"].as_bool().unwrap();
        // a record that, if kept, fails: an unreadable frame (FPO reading) / a program using an unknown name (frame-data reading)
        let locals = if good || hps { "4" } else { "ffffff00" };
        let rest = if hps { if good { "$T0 $esp = $eip $T0 ^ = $esp $T0 4 + =" } else { "$eip $nosuch ^ =" } } else { "0" };
        s.push_str(&format!("STACK WIN {} 1000 100 0 0 10 4 {} 0 {} {}\n", ty, locals, if hps { 1 } else { 0 }, rest));
    }
    if c["cfi"].as_bool().unwrap() { s.push_str("STACK CFI INIT 1000 100 .cfa: $esp 20 + .ra: .cfa 4 - ^\n"); }
    s
}

fn main() {
    install_panic_capture();
    let path = std::env::args().nth(1).unwrap();
    let mut rep = Report::new();
    for_each_case(&path, "CASE", |c| {
        let text = render(&c);
        rep.evaluations += 1;
        let want = c["answer"].as_str().unwrap();
        rep.class(&format!("answer:{}", want));
        rep.nontrivial(&text);
        let res = guarded(|| {
            let sf = SymbolFile::from_bytes(text.as_bytes()).map_err(|e| format!("{:?}", e))?;
            let module = SimpleModule::default();
            let mut w = Mock { callee: [("esp", 4096u64), ("ebp", 4200), ("eip", 0x1010)].into_iter().collect(), caller: BTreeMap::new() };
            let r = sf.walk_frame(&module, &mut w);
            Ok::<_, String>((r.is_some(), w.caller.get("eip").copied()))
        });
        let got = match res {
            Ok(Ok((true, Some(0xA0)))) => "framedata".to_string(),
            Ok(Ok((true, Some(0xB0)))) => "fpo".to_string(),
            Ok(Ok((true, Some(0xC0)))) => "cfi".to_string(),
            Ok(Ok((false, _))) => "none".to_string(),
            Ok(Ok(o)) => format!("other:{:?}", o),
            Ok(Err(e)) => format!("parse-error:{}", e),
            Err(p) => format!("panic:{}", p),
        };
        if got != want { rep.mismatch(&format!("winkinds:{}-instead-of-{}", got.split(':').next().unwrap(), want), json!({"file": text, "expected": want, "observed": got})); }
        else if rep.samples.len() < 4 && c["lines"].as_array().unwrap().len() == 2 { rep.sample(json!({"file": text, "answer": got})); }
    });
    rep.finish();
}
