//! C17 binding: every module name TLC enumerates in Paths.tla (plus seeded hostile names) is given to the real
//! lookup builders as debug file and code file; the relative paths they produce are logged for Trace_Paths.tla,
//! which evaluates the containment predicate on the REAL output and compares with the documented layout.
use breakpad_symbols::{binary_lookup, breakpad_sym_lookup, code_info_breakpad_sym_lookup, extra_debuginfo_lookup, lookup, moz_lookup, FileKind, SimpleModule};
use debugid::{CodeId, DebugId};
use rand::rngs::StdRng;
use rand::{Rng, SeedableRng};
use serde_json::json;
use std::str::FromStr;
use vharness::{for_each_case, guarded, install_panic_capture};

fn observe(s: &str) {
    let did = DebugId::from_breakpad("0123456789ABCDEF0123456789ABCDEFa").unwrap();
    let cid = CodeId::from_str("5a5a5a5a1000").unwrap();
    let m = SimpleModule { base_address: Some(0x1000), size: Some(0x1000), code_file: Some(s.to_string()), code_identifier: Some(cid.clone()),
                           debug_file: Some(s.to_string()), debug_id: Some(did), version: None };
    let r = guarded(|| {
        let sym = breakpad_sym_lookup(&m);
        let sym2 = lookup(&m, FileKind::BreakpadSym);
        let code = code_info_breakpad_sym_lookup(&m);
        let extra = extra_debuginfo_lookup(&m);
        let bin = binary_lookup(&m);
        let moz = sym.clone().map(moz_lookup);
        json!({
            "sym": sym.as_ref().map(|l| l.cache_rel.clone()).unwrap_or_default(),
            "sym_server": sym.as_ref().map(|l| l.server_rel.clone()).unwrap_or_default(),
            "sym_kind": sym2.as_ref().map(|l| l.cache_rel.clone()).unwrap_or_default(),
            "code": code.unwrap_or_default(),
            "extra": extra.as_ref().map(|l| l.cache_rel.clone()).unwrap_or_default(),
            "bin_cache": bin.as_ref().map(|l| l.cache_rel.clone()).unwrap_or_default(),
            "bin_server": bin.as_ref().map(|l| l.server_rel.clone()).unwrap_or_default(),
            "moz": moz.as_ref().map(|l| l.server_rel.clone()).unwrap_or_default(),
        })
    });
    let rec = match r {
        Ok(outs) => json!({"s": s, "did": did.breakpad().to_string(), "cid": cid.to_string(), "cid_upper": cid.to_string().to_uppercase(), "panic": 0, "outs": outs}),
        Err(p) => json!({"s": s, "did": "", "cid": "", "cid_upper": "", "panic": 1, "panic_msg": p, "outs": {}}),
    };
    println!("{}", rec);
}

fn main() {
    install_panic_capture();
    let path = std::env::args().nth(1).unwrap();
    for_each_case(&path, "CASE", |c| observe(c["s"].as_str().unwrap()));
    // seeded hostile names beyond the enumerated alphabet: longer, mixed separators, UNC / drive prefixes, non-ASCII
    let n: usize = std::env::args().nth(2).map(|x| x.parse().unwrap()).unwrap_or(300);
    let mut rng = StdRng::seed_from_u64(vharness::seed() ^ 0xC17);
    let parts = ["..", ".", "", "a", "lib.so", "x.pdb", "X.PDB", "y.dll", "C:", "c:", "\\\\srv\\share", "/", "\\", "é", "名", " ", "a.b.c", "%2e%2e", ":", "nul", " (deleted)", ".. (deleted)", "(deleted)"];
    for _ in 0..n {
        let k = rng.gen_range(1..7);
        let mut s = String::new();
        for i in 0..k {
            if i > 0 { s.push_str(["/", "\\", "", "/"][rng.gen_range(0..4)]); }
            s.push_str(parts[rng.gen_range(0..parts.len())]);
        }
        observe(&s);
    }
}
