//! C11 binding, spec -> impl: every symbol file TLC builds in SymLookup.tla is rendered as text, parsed by the
//! real parser and queried with SymbolFile::fill_symbol at every address of the domain under three module
//! base addresses; the recorded FrameSymbolizer calls are compared with the declarative linear-scan result.
use breakpad_symbols::{FrameSymbolizer, SimpleModule, SymbolFile};
use serde_json::{json, Value};
use vharness::{for_each_case, guarded, install_panic_capture, Report};

#[derive(Default, Debug)]
struct Rec {
    instruction: u64,
    func: Option<(String, u64, u32)>,
    src: Option<(String, u32, u64)>,
    inl: Vec<(String, Option<String>, Option<u32>)>,
}
impl FrameSymbolizer for Rec {
    fn get_instruction(&self) -> u64 { self.instruction }
    fn set_function(&mut self, name: &str, base: u64, psize: u32) { self.func = Some((name.to_string(), base, psize)); }
    fn set_source_file(&mut self, file: &str, line: u32, base: u64) { self.src = Some((file.to_string(), line, base)); }
    fn add_inline_frame(&mut self, name: &str, file: Option<&str>, line: Option<u32>) { self.inl.push((name.to_string(), file.map(|s| s.to_string()), line)); }
}

fn render(c: &Value, variant: usize) -> String {
    let mut s = String::from("MODULE Linux x86 000 m\nFILE 1 a.c\nINLINE_ORIGIN 1 o1\nINLINE_ORIGIN 2 o2\n");
    let arr = |k: &str| c[k].as_array().cloned().unwrap_or_default();
    let mut pubs = String::new();
    for p in arr("pubs") { pubs.push_str(&format!("PUBLIC {:x} {:x} {}\n", p["addr"].as_u64().unwrap(), p["psize"].as_u64().unwrap(), p["name"].as_str().unwrap())); }
    let mut wins = String::new();
    for w in arr("wins") {
        let (a, sz, ps) = (w["addr"].as_u64().unwrap(), w["size"].as_u64().unwrap(), w["psize"].as_u64().unwrap());
        if w["kind"] == "fd" { wins.push_str(&format!("STACK WIN 4 {:x} {:x} 0 0 {:x} 0 0 0 1 $eip 4 =\n", a, sz, ps)); }
        else { wins.push_str(&format!("STACK WIN 0 {:x} {:x} 0 0 {:x} 0 0 0 0 1\n", a, sz, ps)); }
    }
    let mut funcs = String::new();
    let mut fs = arr("funcs");
    if variant % 2 == 1 { fs.reverse(); }
    for f in fs {
        funcs.push_str(&format!("FUNC {:x} {:x} {:x} {}\n", f["addr"].as_u64().unwrap(), f["size"].as_u64().unwrap(), f["psize"].as_u64().unwrap(), f["name"].as_str().unwrap()));
        if f["name"] == "fA" {
            let mut sub: Vec<String> = vec![];
            for i in arr("inls") {
                let rg: Vec<String> = i["ranges"].as_array().unwrap().iter().map(|r| format!("{:x} {:x}", r[0].as_u64().unwrap(), r[1].as_u64().unwrap())).collect();
                sub.push(format!("INLINE {} {} {} {} {}\n", i["depth"].as_u64().unwrap(), i["cline"].as_u64().unwrap(), i["cfile"].as_u64().unwrap_or(1), i["origin"].as_u64().unwrap(), rg.join(" ")));
            }
            for l in arr("lines") { sub.push(format!("{:x} {:x} {} {}\n", l["addr"].as_u64().unwrap(), l["size"].as_u64().unwrap(), l["line"].as_u64().unwrap(), l["file"].as_u64().unwrap_or(1))); }
            if variant % 3 == 1 { sub.reverse(); }
            for x in sub { funcs.push_str(&x); }
        }
    }
    match variant % 3 { 0 => { s.push_str(&pubs); s.push_str(&wins); s.push_str(&funcs); } 1 => { s.push_str(&funcs); s.push_str(&pubs); s.push_str(&wins); } _ => { s.push_str(&wins); s.push_str(&funcs); s.push_str(&pubs); } }
    s
}

fn main() {
    install_panic_capture();
    let path = std::env::args().nth(1).unwrap();
    let mut rep = Report::new();
    let bases = [0u64, 1u64 << 63, u64::MAX - 15];
    let mut n = 0usize;
    for_each_case(&path, "CASE", |c| {
        n += 1;
        let text = render(&c, n);
        let sym = match guarded(|| SymbolFile::from_bytes(text.as_bytes())) {
            Ok(Ok(s)) => s,
            other => { rep.mismatch("symlookup:parse", json!({"symbols": text, "result": format!("{:?}", other.map(|r| r.map(|_| ())))})); return; }
        };
        let mut any = false;
        for (k, e) in c["exp"].as_array().unwrap().iter().enumerate() {
            for &base in &bases {
                let module = SimpleModule { base_address: Some(base), size: Some(16), ..SimpleModule::default() };
                let mut r = Rec { instruction: base + k as u64, ..Rec::default() };
                let res = guarded(|| sym.fill_symbol(&module, &mut r));
                rep.evaluations += 1;
                let exp_func = if e["fn"] == "none" { None } else { Some((e["fn"].as_str().unwrap().to_string(), base + e["base"].as_u64().unwrap(), e["psize"].as_u64().unwrap() as u32)) };
                let exp_src = e["src"].as_array().filter(|a| !a.is_empty()).map(|a| ("a.c".to_string(), a[0].as_u64().unwrap() as u32, base + a[1].as_u64().unwrap()));
                let exp_inl: Vec<(String, Option<String>, Option<u32>)> = e["inl"].as_array().map(|a| a.iter().map(|f| {
                    let file = f["file"].as_str().unwrap();
                    let line = f["line"].as_u64().unwrap() as u32;
                    (f["name"].as_str().unwrap().to_string(), if file == "none" { None } else { Some(file.to_string()) }, if line == 0 { None } else { Some(line) })
                }).collect()).unwrap_or_default();
                let cls = if exp_func.is_none() { "none" } else if !exp_inl.is_empty() { "func+inlines" } else if exp_src.is_some() { "func+line" } else if e["fn"].as_str().unwrap().starts_with('p') { "public" } else { "func" };
                rep.class(cls);
                if exp_func.is_some() { any = true; }
                let fp = match res {
                    Err(p) => Some(format!("symlookup:panic:{}", p)),
                    Ok(()) => {
                        if r.func != exp_func { Some(if exp_func.as_ref().map(|f| f.0.starts_with('p')).unwrap_or(false) || r.func.as_ref().map(|f| f.0.starts_with('p')).unwrap_or(false) { "symlookup:public".to_string() } else if r.func.as_ref().map(|f| (&f.0, f.1)) == exp_func.as_ref().map(|f| (&f.0, f.1)) { "symlookup:parameter-size".to_string() } else { "symlookup:function".to_string() }) }
                        else if r.src != exp_src { Some("symlookup:source-line".to_string()) }
                        else if r.inl != exp_inl { Some("symlookup:inline-frames".to_string()) }
                        else { None }
                    }
                };
                if let Some(fp) = fp {
                    rep.mismatch(&fp, json!({"symbols": text, "module_base": format!("{:#x}", base), "address": k,
                        "expected": {"function": exp_func, "source": exp_src, "inlines": exp_inl}, "observed": {"function": r.func, "source": r.src, "inlines": r.inl}}));
                } else if cls == "func+inlines" && exp_inl.len() >= 2 {
                    rep.sample(json!({"symbols": text, "address": k, "function": exp_func, "source": exp_src, "inlines": exp_inl}));
                }
            }
        }
        // an instruction below the module's base belongs to no record of this module
        for &base in &bases[1..] {
            for below in [1u64, 3, 16] {
                let module = SimpleModule { base_address: Some(base), size: Some(16), ..SimpleModule::default() };
                let mut r = Rec { instruction: base - below, ..Rec::default() };
                let res = guarded(|| sym.fill_symbol(&module, &mut r));
                rep.evaluations += 1;
                rep.class("below-base");
                match res {
                    Err(p) => rep.mismatch(&format!("symlookup:panic:{}", p), json!({"symbols": text, "module_base": format!("{:#x}", base), "instruction_below_base_by": below})),
                    Ok(()) => if r.func.is_some() || r.src.is_some() || !r.inl.is_empty() {
                        rep.mismatch("symlookup:below-base", json!({"symbols": text, "module_base": format!("{:#x}", base), "instruction_below_base_by": below, "observed": {"function": r.func, "source": r.src, "inlines": r.inl}}));
                    },
                }
            }
        }
        if any { rep.nontrivial(&text); }
    });
    rep.finish();
}
