//! C06 binding, spec -> impl: executes every case emitted by TLC from CfiEval.tla /
//! CfiRules.tla on the real parser + SymbolFile::walk_frame with a recording mock
//! FrameWalker, and compares with the specification's predicted outcome.
use breakpad_symbols::{FrameWalker, SimpleModule, SymbolFile};
use serde_json::{json, Value};
use std::collections::BTreeMap;
use std::panic::{catch_unwind, AssertUnwindSafe};
use vharness::{for_each_case, from_limbs, Report};

pub fn spell(t: &str) -> &str {
    match t {
        "drax" => "$rax",
        "brbx" => "rbx",
        "drsp" => "$rsp",
        "drbp" => "$rbp",
        "brsp" => "rsp",
        "dnope" => "$nope",
        "bnope" => "nope",
        "t7" => "7",
        "tm1" => "-1",
        "t8" => "8",
        "t16" => "16",
        "t0" => "0",
        "t1" => "1",
        "t3" => "3",
        "tmin" => "-9223372036854775808",
        "tmax" => "9223372036854775807",
        "t65544" => "65544",
        "t4198400" => "4198400",
        "t4104" => "4104",
        "tbig" => "18446744073709551615",
        "ttoolow" => "-9223372036854775809",
        other => other,
    }
}

#[derive(Default, Debug)]
struct Mock {
    instruction: u64,
    cfa: Option<u64>,
    ra: Option<u64>,
    set: BTreeMap<String, u64>,
    cleared: Vec<String>,
}

impl FrameWalker for Mock {
    fn get_instruction(&self) -> u64 {
        self.instruction
    }
    fn has_grand_callee(&self) -> bool {
        false
    }
    fn get_grand_callee_parameter_size(&self) -> u32 {
        0
    }
    fn get_register_at_address(&self, a: u64) -> Option<u64> {
        match a {
            4096 => Some(0xDEADBEEF00000008),
            4104 => Some(5),
            65536 => Some(4194304),
            65544 => Some(4194312),
            65552 => Some(4194320),
            65560 => Some(4194328),
            _ => None,
        }
    }
    fn get_callee_register(&self, name: &str) -> Option<u64> {
        match name {
            "rax" => Some(4096),
            "rbx" => Some(3),
            "rsp" => Some(65536),
            "rbp" => Some(65568),
            _ => None,
        }
    }
    fn set_caller_register(&mut self, name: &str, val: u64) -> Option<()> {
        match name {
            "rax" | "rbx" | "rsp" | "rbp" | "rip" => {
                self.set.insert(name.to_string(), val);
                self.cleared.retain(|x| x != name);
                Some(())
            }
            _ => None,
        }
    }
    fn clear_caller_register(&mut self, name: &str) {
        // clearing a register the context does not have has no effect (a real context cannot even name it)
        if !matches!(name, "rax" | "rbx" | "rsp" | "rbp" | "rip") { return; }
        self.set.remove(name);
        if !self.cleared.iter().any(|x| x == name) {
            self.cleared.push(name.to_string());
        }
    }
    fn set_cfa(&mut self, val: u64) -> Option<()> {
        self.cfa = Some(val);
        Some(())
    }
    fn set_ra(&mut self, val: u64) -> Option<()> {
        self.ra = Some(val);
        Some(())
    }
}

/// Observed outcome of one walk_frame call, as JSON comparable with the model's.
fn observe(symtext: &str, base: u64, lk: u64) -> Value {
    let r = catch_unwind(AssertUnwindSafe(|| {
        let sym = match SymbolFile::from_bytes(symtext.as_bytes()) {
            Ok(s) => s,
            Err(e) => return json!({"parse_error": format!("{:?}", e)}),
        };
        let module = SimpleModule { base_address: Some(base), size: Some(0x10000), ..SimpleModule::default() };
        let mut w = Mock { instruction: base.wrapping_add(lk), ..Mock::default() };
        match sym.walk_frame(&module, &mut w) {
            None => json!({"ok": false}),
            Some(()) => {
                let mut cl = w.cleared.clone();
                cl.sort();
                json!({"ok": true, "cfa": w.cfa, "ra": w.ra, "set": w.set, "clear": cl})
            }
        }
    }));
    match r {
        Ok(v) => v,
        Err(_) => json!({"panic": true}),
    }
}

fn expect_simple(cfa: Option<u64>, ra: Option<u64>, set: &[(&str, u64)], clear: &[&str]) -> Value {
    match (cfa, ra) {
        (Some(c), Some(r)) => {
            let m: BTreeMap<String, u64> = set.iter().map(|(k, v)| (k.to_string(), *v)).collect();
            let mut cl: Vec<String> = clear.iter().map(|s| s.to_string()).collect();
            cl.sort();
            json!({"ok": true, "cfa": c, "ra": r, "set": m, "clear": cl})
        }
        _ => json!({"ok": false}),
    }
}

fn main() {
    std::panic::set_hook(Box::new(|_| {}));
    let args: Vec<String> = std::env::args().collect();
    let mode = args[1].as_str();
    let path = args[2].as_str();
    let mut rep = Report::new();
    let bases = [0u64, 0x7fff_0000_0000u64];
    let mut n = 0usize;
    match mode {
        "eval" => for_each_case(path, "CASE", |c| {
            n += 1;
            let prog: Vec<String> = c["prog"].as_array().unwrap().iter().map(|t| spell(t.as_str().unwrap()).to_string()).collect();
            let text = prog.join(if n % 3 == 0 { "  " } else if n % 3 == 1 { "\t" } else { " " });     // tokens are separated by blanks: any run of spaces or tabs
            let res = from_limbs(&c["res"]);
            let m = c["mode"].as_str().unwrap();
            let base = bases[n % 2];
            let hdr = "MODULE Linux x86_64 000 m\n";
            // (a) the program in .ra / .cfa position
            let (sym, exp) = if m == "ra" {
                (format!("{}STACK CFI INIT 0 1000 .cfa: 4104 .ra: {}\n", hdr, text), expect_simple(Some(4104), res, &[], &[]))
            } else {
                (format!("{}STACK CFI INIT 0 1000 .cfa: {} .ra: 1\n", hdr, text), expect_simple(res, Some(1), &[], &[]))
            };
            let got = observe(&sym, base, 0x10);
            rep.evaluations += 1;
            rep.class(if res.is_some() { "eval_defined" } else { "eval_fails" });
            for t in c["prog"].as_array().unwrap() {
                rep.class(&format!("tok:{}", t.as_str().unwrap()));
            }
            if res.is_some() {
                rep.nontrivial(&(text.clone(), m.to_string()));
            }
            if got != exp {
                let fp = if got.get("panic").is_some() { "cfi-eval-panic" } else { "cfi-eval" };
                rep.mismatch(fp, json!({"symbols": sym, "lookup": 0x10, "base": base, "expected": exp, "observed": got}));
            } else if rep.samples.len() < 6 && res.is_some() && prog.len() >= 3 {
                rep.sample(json!({"rules": sym.lines().nth(1), "expected": exp}));
            }
            // (b) the program as the rule of an ordinary register: set, or cleared when it fails
            if m == "ra" && !prog.is_empty() {
                let sym = format!("{}STACK CFI INIT 0 1000 .cfa: 4104 .ra: 1 $rbx: {}\n", hdr, text);
                let exp = match res {
                    Some(v) => expect_simple(Some(4104), Some(1), &[("rbx", v)], &[]),
                    None => expect_simple(Some(4104), Some(1), &[], &["rbx"]),
                };
                let got = observe(&sym, base, 0x20);
                rep.evaluations += 1;
                rep.class(if res.is_some() { "reg_set" } else { "reg_cleared" });
                if got != exp {
                    let fp = if got.get("panic").is_some() { "cfi-eval-panic" } else { "cfi-reg-rule" };
                    rep.mismatch(fp, json!({"symbols": sym, "lookup": 0x20, "base": base, "expected": exp, "observed": got}));
                }
            }
        }),
        "rules" => for_each_case(path, "CASE", |c| {
            n += 1;
            let pool = |e: &str| -> &str {
                match e {
                    "c8" => "$rsp 8 +",
                    "c16" => "$rsp 16 +",
                    "cself" => ".cfa 8 +",
                    "und" => ".undef",
                    "ra8" => ".cfa 8 - ^",
                    "k" => "4198400",
                    "bad" => "1 +",
                    "s16" => ".cfa 16 - ^",
                    "unk" => "$nope",
                    "cal" => "$rbp",
                    _ => panic!("pool"),
                }
            };
            let label = |l: &str| -> &str {
                match l {
                    "Lcfa" => ".cfa:",
                    "Lra" => ".ra:",
                    "Ldrbx" => "$rbx:",
                    "Lbrbx" => "rbx:",
                    "Ldrbp" => "$rbp:",
                    "Ljcfa" => "$.cfa:",
                    "Ljra" => "$.ra:",
                    _ => panic!("label"),
                }
            };
            // every fourth file is moved to the top of the address space: the INIT record then ends exactly at 2^64 and is a record like any other
            let shift: u64 = if n % 4 == 1 { 0xffff_ffff_ffff_fe00 } else { 0 };
            let mut sym = String::from("MODULE Linux x86_64 000 m\n");
            for (i, r) in c["recs"].as_array().unwrap().iter().enumerate() {
                let pairs: Vec<String> = r["pairs"].as_array().unwrap().iter()
                    .map(|p| format!("{} {}", label(p["l"].as_str().unwrap()), pool(p["e"].as_str().unwrap()))).collect();
                let addr = r["addr"].as_u64().unwrap().wrapping_add(shift);
                if i == 0 {
                    sym.push_str(&format!("STACK CFI INIT {:x} 100 {}\n", addr, pairs.join(" ")));
                } else {
                    sym.push_str(&format!("STACK CFI {:x} {}\n", addr, pairs.join(" ")));
                }
            }
            // a second INIT record that starts on the last byte of the first one overlaps it and is dropped: nothing changes for any look-up
            if n % 4 == 0 { sym.push_str("STACK CFI INIT 1ff 20 .cfa: $rsp 800 + .ra: .cfa 8 - ^\n"); }
            let base = if shift != 0 { 0 } else { bases[n % 2] };
            let mut any_ok = false;
            for e in c["exp"].as_array().unwrap() {
                if shift != 0 && e["lk"].as_u64().unwrap() >= 512 { continue; }      // past the end of the address space
                let lk = e["lk"].as_u64().unwrap().wrapping_add(shift);
                let out = &e["out"];
                if out["why"].as_str() == Some("unspecified") {
                    // two deltas with the same address whose relative order changes the result: not documented
                    rep.class("rules_unspecified_order");
                    continue;
                }
                let exp = if out["ok"].as_bool().unwrap() {
                    any_ok = true;
                    let set: BTreeMap<String, u64> = out["set"].as_object().map(|o| o.iter().map(|(k, v)| (k.clone(), from_limbs(v).unwrap())).collect()).unwrap_or_default();
                    let mut cl: Vec<String> = out["clear"].as_array().unwrap().iter().map(|s| s.as_str().unwrap().to_string()).collect();
                    cl.sort();
                    rep.class("rules_ok");
                    if !cl.is_empty() {
                        rep.class("rules_ok_with_clear");
                    }
                    json!({"ok": true, "cfa": from_limbs(&out["cfa"]), "ra": from_limbs(&out["ra"]), "set": set, "clear": cl})
                } else {
                    rep.class(&format!("rules_fail_{}", out["why"].as_str().unwrap()));
                    json!({"ok": false})
                };
                let got = observe(&sym, base, lk);
                rep.evaluations += 1;
                if got != exp {
                    let fp = if got.get("panic").is_some() { "cfi-rules-panic" } else { "cfi-rules" };
                    rep.mismatch(fp, json!({"symbols": sym, "lookup": lk, "base": base, "expected": exp, "observed": got}));
                }
            }
            if any_ok {
                rep.nontrivial(&sym);
                if c["recs"].as_array().unwrap().len() >= 2 {
                    rep.sample(json!({"symbols": sym, "expected": c["exp"]}));
                }
            }
        }),
        _ => panic!("mode"),
    }
    rep.finish();
}
