//! C09 / C10 binding, impl -> spec: grammar-generated and corrupted symbol files are parsed by the real
//! SymbolFile::parse under seeded chunk schedules; the wrapping reader and callback log what they see
//! (slice length offered, bytes returned, callback slice lengths, result).  No source hook: the reader's
//! `buf.len()` is exactly cap - end of the circular buffer.
use breakpad_symbols::{SymbolError, SymbolFile};
use rand::rngs::StdRng;
use rand::{Rng, SeedableRng};
use std::cell::RefCell;
use std::io::Read;
use std::io::Write;
use std::rc::Rc;

struct Log {
    out: std::io::BufWriter<std::io::Stdout>,
    events: u64,
}
type SharedLog = Rc<RefCell<Log>>;

struct ChunkReader<'a> {
    data: &'a [u8],
    pos: usize,
    sched: Box<dyn FnMut(usize, usize) -> usize + 'a>, // (remaining, offered) -> wanted
    log: SharedLog,
    reads: u64,
    eof_reads: u64,
}
impl<'a> Read for ChunkReader<'a> {
    fn read(&mut self, buf: &mut [u8]) -> std::io::Result<usize> {
        self.reads += 1;
        if self.reads > 8 * self.data.len() as u64 + 4096 {
            // the loop is not terminating: stop feeding it
            return Err(std::io::Error::other("VERIF: read budget exhausted"));
        }
        let rem = self.data.len() - self.pos;
        if rem == 0 {
            // a loop that keeps asking after the end of input has been signalled a few dozen times is not going to stop
            self.eof_reads += 1;
            if self.eof_reads > 64 {
                return Err(std::io::Error::other("VERIF: read budget exhausted"));
            }
        }
        let want = (self.sched)(rem, buf.len()).max(1);
        let n = want.min(rem).min(buf.len());
        buf[..n].copy_from_slice(&self.data[self.pos..self.pos + n]);
        self.pos += n;
        let mut l = self.log.borrow_mut();
        writeln!(l.out, "{{\"ev\":\"Read\",\"space\":{},\"ret\":{}}}", buf.len(), n).unwrap();
        l.events += 1;
        Ok(n)
    }
}

fn outcome(r: &Result<SymbolFile, SymbolError>) -> (&'static str, u64) {
    match r {
        Ok(_) => ("ok", 0),
        Err(SymbolError::ParseError(msg, line)) => {
            if msg.starts_with("empty") { ("err_empty", 0) }
            else if msg.starts_with("unexpected EOF") { ("err_eof", *line) }
            else { ("err_parse", *line) }
        }
        Err(SymbolError::LoadError(e)) => if e.to_string().contains("VERIF") { ("hang", 0) } else { ("err_io", 0) },
        Err(_) => ("err_other", 0),
    }
}

// ---------------------------------------------------------------- generators
fn name(rng: &mut StdRng, len: usize, utf8: bool) -> Vec<u8> {
    let mut v = Vec::with_capacity(len);
    for _ in 0..len {
        v.push(if utf8 { b"abcdefghijklmnopqrstuvwxyz_:<>()&*,0123456789 "[rng.gen_range(0..46)] } else { rng.gen_range(0x80..=0xff) });
    }
    if v.first() == Some(&b' ') { v[0] = b'a'; }
    v
}
fn eol(rng: &mut StdRng, style: u8) -> &'static [u8] {
    match style { 0 => b"\n", 1 => b"\r\n", 2 => b"\r\r\n", _ => if rng.gen_bool(0.5) { b"\n" } else { b"\r\n" } }
}
fn hexnum(rng: &mut StdRng) -> String {
    match rng.gen_range(0..12) {
        0 => "0".into(), 1 => "ffffffff".into(), 2 => "ffffffffffffffff".into(), 3 => "1ffffffffffffffff".into(), // one digit too many
        4 => "100000000".into(), 5 => "ffffffffffffffffffffffff".into(), 6 => "123456789abcdef0123456789abcdef0123456789".into(),
        _ => format!("{:x}", rng.gen_range(0..0x100000u64)),
    }
}
/// decimal fields (line and file numbers): small, at the u32 edge, and far too many digits
fn decnum(rng: &mut StdRng, small: u64) -> String {
    match rng.gen_range(0..10) {
        0 => "4294967295".into(), 1 => "4294967296".into(), 2 => "99999999999".into(), 3 => "18446744073709551615".into(), 4 => "18446744073709551616".into(),
        5 => "99999999999999999999".into(), 6 => "123456789012345678901234567890".into(), _ => small.to_string(),
    }
}
/// A long-name length class around the buffer thresholds (10/20/40/80/160 KiB).
fn long_len(rng: &mut StdRng, allow_over: bool) -> usize {
    let t = [10240usize, 20480, 40960, 81920, 163840];
    let max_idx = if allow_over { 5 } else { 4 };
    let i = rng.gen_range(0..max_idx);
    let base = t[i];
    let l = match rng.gen_range(0..4) { 0 => base - rng.gen_range(20..200), 1 => base - 40, 2 => base + rng.gen_range(0..300), _ => base / 2 + rng.gen_range(0..base / 2) };
    if !allow_over { l.min(81000) } else { l }
}

struct Gen { bytes: Vec<u8>, expect_ok: bool }

/// Files that stress the end-of-input handling: ordinary records, one line just below the 80 KiB bound
/// placed so that it may straddle the buffer, more records, and a last line without newline.
fn gen_tail_file(rng: &mut StdRng) -> Gen {
    let mut b: Vec<u8> = b"MODULE Linux x86_64 0123456789ABCDEF0123456789ABCDEF0 test.so\n".to_vec();
    let pre = rng.gen_range(0..45000usize);
    let mut addr = 0x1000u64;
    while b.len() < pre {
        b.extend_from_slice(format!("PUBLIC {:x} 0 ", addr).as_bytes());
        let l = rng.gen_range(1..200);
        b.extend_from_slice(&name(rng, l, true));
        b.push(b'\n');
        addr += 0x10;
    }
    let long = rng.gen_range(60000..81800usize);
    b.extend_from_slice(format!("PUBLIC {:x} 0 ", addr).as_bytes());
    b.extend_from_slice(&name(rng, long, true));
    b.push(b'\n');
    for _ in 0..rng.gen_range(0..20) {
        addr += 0x10;
        b.extend_from_slice(format!("PUBLIC {:x} 0 p\n", addr).as_bytes());
    }
    if rng.gen_bool(0.8) {
        b.extend_from_slice(b"PUBLIC ffff 0 tail_without_newline");
        Gen { bytes: b, expect_ok: false }
    } else {
        Gen { bytes: b, expect_ok: true }
    }
}

/// Structure stress: stray MODULE lines, overlapping records, over-long first / last lines.
fn gen_special_file(rng: &mut StdRng, variant: u32) -> Gen {
    let mut b: Vec<u8> = vec![];
    let mut expect_ok = true;
    let publics = |b: &mut Vec<u8>, rng: &mut StdRng, n: usize, base: u64| {
        for i in 0..n { b.extend_from_slice(format!("PUBLIC {:x} 0 p{}\n", base + 0x10 * i as u64, rng.gen_range(0..1000)).as_bytes()); }
    };
    match variant % 5 {
        0 => {
            // a second MODULE line (or a blank line before the first) somewhere: the whole-buffer parse rejects it
            if rng.gen_bool(0.3) { b.push(b'\n'); }
            b.extend_from_slice(b"MODULE Linux x86_64 0123456789ABCDEF0123456789ABCDEF0 test.so\n");
            let n1 = rng.gen_range(0..30);
            publics(&mut b, rng, n1, 0x1000);
            if rng.gen_bool(0.8) { b.extend_from_slice(b"MODULE Linux x86_64 FEDCBA9876543210FEDCBA98765432100 other.so\n"); }
            let n2 = rng.gen_range(0..30);
            publics(&mut b, rng, n2, 0x9000);
            expect_ok = false;
        }
        1 => {
            // overlapping / duplicate / nested FUNC and STACK CFI INIT records (one-byte overlaps included)
            b.extend_from_slice(b"MODULE Linux x86_64 0123456789ABCDEF0123456789ABCDEF0 test.so\n");
            let mut addr = 0x1000u64;
            for i in 0..rng.gen_range(2..30) {
                let size = rng.gen_range(1..0x20u64);
                if rng.gen_bool(0.5) { b.extend_from_slice(format!("FUNC {:x} {:x} 0 f{}\n{:x} {:x} 1 0\n", addr, size, i, addr, size).as_bytes()); }
                else { b.extend_from_slice(format!("STACK CFI INIT {:x} {:x} .cfa: $rsp {} + .ra: .cfa 8 - ^\n", addr, size, 8 * (i % 5)).as_bytes()); }
                addr = match rng.gen_range(0..5) { 0 => addr + size - 1, 1 => addr, 2 => addr + size / 2, 3 => addr + size, _ => addr + size + rng.gen_range(0..8) };
                if rng.gen_bool(0.2) { b.extend_from_slice(format!("FUNC {:x} {:x} 0 g{}\n", addr.saturating_sub(1), 2, i).as_bytes()); }
            }
        }
        2 => {
            // the very first line is over-long
            let l = rng.gen_range(165_000..400_000usize);
            b.extend_from_slice(b"PUBLIC 500 0 ");
            b.extend(std::iter::repeat(b'z').take(l));
            b.push(b'\n');
            publics(&mut b, rng, 20, 0x1000);
        }
        3 => {
            // the last line is over-long, with or without a newline
            b.extend_from_slice(b"MODULE Linux x86_64 0123456789ABCDEF0123456789ABCDEF0 test.so\n");
            publics(&mut b, rng, 10, 0x1000);
            let l = rng.gen_range(165_000..400_000usize);
            b.extend_from_slice(b"PUBLIC 500 0 ");
            b.extend(std::iter::repeat(b'z').take(l));
            if rng.gen_bool(0.5) { b.push(b'\n'); } else { expect_ok = false; }
        }
        _ => {
            // several over-long lines back to back between ordinary records
            b.extend_from_slice(b"MODULE Linux x86_64 0123456789ABCDEF0123456789ABCDEF0 test.so\n");
            for k in 0..rng.gen_range(1..4) {
                publics(&mut b, rng, 5, 0x1000 + 0x1000 * k);
                let l = rng.gen_range(164_000..200_000usize);
                b.extend_from_slice(b"PUBLIC 500 0 ");
                b.extend(std::iter::repeat(b'z').take(l));
                b.push(b'\n');
            }
            publics(&mut b, rng, 5, 0xf000);
        }
    }
    Gen { bytes: b, expect_ok }
}

fn gen_file(rng: &mut StdRng, kind: u32) -> Gen {
    if kind % 6 == 4 { return gen_tail_file(rng); }
    if kind % 6 == 1 { return gen_special_file(rng, kind / 6); }
    let style = match kind % 5 { 0 => 0, 1 => 1, 2 => 2, _ => 3 };
    let mut b: Vec<u8> = vec![];
    let mut expect_ok = true;
    let nrec = match kind % 4 { 0 => rng.gen_range(1..8), 1 => rng.gen_range(5..40), _ => rng.gen_range(20..400) };
    let longs = kind % 3 != 0; // files with threshold-sized lines
    let over = kind % 7 == 3; // files with lines beyond the 80 KiB precondition (incl. > 160 KiB, dropped)
    let weird_nums = kind % 11 == 5;
    if kind % 13 != 12 {
        b.extend_from_slice(b"MODULE Linux x86_64 0123456789ABCDEF0123456789ABCDEF0 test.so");
        b.extend_from_slice(eol(rng, style));
    }
    if rng.gen_bool(0.3) { b.extend_from_slice(b"INFO CODE_ID 0123 test.so"); b.extend_from_slice(eol(rng, style)); }
    for i in 0..rng.gen_range(0..4) { b.extend_from_slice(format!("FILE {} /src/f{}.c", i, i).as_bytes()); b.extend_from_slice(eol(rng, style)); }
    if rng.gen_bool(0.5) { b.extend_from_slice(b"INLINE_ORIGIN 0 inl0"); b.extend_from_slice(eol(rng, style)); }
    let mut addr = 0x1000u64;
    for _ in 0..nrec {
        let pick = rng.gen_range(0..100);
        if pick < 35 {
            // PUBLIC, possibly with a long name
            let nl = if longs && rng.gen_bool(0.08) { long_len(rng, over) } else { rng.gen_range(1..60) };
            let utf8 = !rng.gen_bool(0.03);
            if !utf8 { expect_ok = false; } // the line parser rejects non-UTF-8 names
            b.extend_from_slice(format!("PUBLIC {:x} {} ", addr, if weird_nums { hexnum(rng) } else { "0".into() }).as_bytes());
            b.extend_from_slice(&name(rng, nl, utf8));
            b.extend_from_slice(eol(rng, style));
            if weird_nums { expect_ok = false; }
            addr += 0x10;
        } else if pick < 70 {
            let nl = if longs && !over && rng.gen_bool(0.04) { long_len(rng, false) } else { rng.gen_range(1..60) };
            b.extend_from_slice(format!("FUNC {}{:x} {:x} {} ", if rng.gen_bool(0.2) { "m " } else { "" }, addr, 0x40, if weird_nums { hexnum(rng) } else { "8".into() }).as_bytes());
            b.extend_from_slice(&name(rng, nl, true));
            b.extend_from_slice(eol(rng, style));
            for j in 0..rng.gen_range(0..6u64) {
                if rng.gen_bool(0.15) { b.extend_from_slice(format!("INLINE 0 {} 0 0 {:x} 4", j + 1, addr + j * 8).as_bytes()); }
                else if weird_nums { b.extend_from_slice(format!("{:x} {:x} {} {}", addr + j * 8, 8, decnum(rng, j + 10), decnum(rng, 0)).as_bytes()); }
                else { b.extend_from_slice(format!("{:x} {:x} {} 0", addr + j * 8, if rng.gen_bool(0.1) { 0 } else { 8 }, j + 10).as_bytes()); }
                b.extend_from_slice(eol(rng, style));
            }
            if weird_nums { expect_ok = false; }
            addr += 0x40;
        } else if pick < 85 {
            b.extend_from_slice(format!("STACK CFI INIT {:x} 40 .cfa: $rsp 8 + .ra: .cfa 8 - ^", addr).as_bytes());
            b.extend_from_slice(eol(rng, style));
            for j in 1..rng.gen_range(1..4u64) { b.extend_from_slice(format!("STACK CFI {:x} .cfa: $rsp {} +", addr + j, 8 + 8 * j).as_bytes()); b.extend_from_slice(eol(rng, style)); }
            addr += 0x40;
        } else if pick < 95 {
            b.extend_from_slice(format!("STACK WIN 4 {:x} 40 0 0 0 0 0 0 1 $eip 4 + ^ = $esp 8 + =", addr).as_bytes());
            b.extend_from_slice(eol(rng, style));
            addr += 0x40;
        } else {
            b.extend_from_slice(eol(rng, style)); // blank line
        }
    }
    // corruption classes
    match kind % 17 {
        3 => { expect_ok = false; let k = rng.gen_range(1..6); for _ in 0..k { if !b.is_empty() { let i = rng.gen_range(0..b.len()); b[i] = rng.gen(); } } }
        5 => { expect_ok = false; while b.last() == Some(&b'\n') || b.last() == Some(&b'\r') { b.pop(); } } // missing final newline
        7 => { expect_ok = false; let cut = rng.gen_range(0..=b.len()); b.truncate(cut); }
        9 => { expect_ok = false; let i = rng.gen_range(0..=b.len()); let junk = b"GARBAGE LINE\n"; b.splice(i..i, junk.iter().cloned()); }
        11 => { expect_ok = false; b.extend_from_slice(b"PUBLIC 99 0 tail_without_newline"); }
        _ => {}
    }
    if b.is_empty() { expect_ok = false; }
    Gen { bytes: b, expect_ok }
}

/// Scale of the model instance (InitCap = 2, MaxCap = 32) relative to the real constants (10 KiB, 160 KiB).
const SCALE: usize = 5120;

/// Render the input of a TLC behaviour: line k is a PUBLIC record of exactly (len_k * SCALE) bytes incl. its newline.
fn render_model_input(nls: &[usize], len: usize) -> Vec<u8> {
    let mut b = Vec::with_capacity(len * SCALE);
    let mut prev = 0usize;
    let mut addr = 0x1000u64;
    let mut piece = |b: &mut Vec<u8>, total: usize, newline: bool| {
        let head = format!("PUBLIC {:x} 0 ", addr);
        addr += 0x10;
        b.extend_from_slice(head.as_bytes());
        let pad = total - head.len() - if newline { 1 } else { 0 };
        b.extend(std::iter::repeat(b'a').take(pad));
        if newline { b.push(b'\n'); }
    };
    for &p in nls {
        piece(&mut b, (p - prev) * SCALE, true);
        prev = p;
    }
    if len > prev { piece(&mut b, (len - prev) * SCALE, false); }
    b
}

/// Runs with an id at or below this are generated (so that the seeded generator stays in step) but not executed: a child that
/// replaces one killed for spinning starts after the run that spun.
static SKIP_UNTIL: std::sync::atomic::AtomicU64 = std::sync::atomic::AtomicU64::new(0);

fn main() {
    let args: Vec<String> = std::env::args().collect();
    if args.get(1).map(|s| s.as_str()) == Some("--child") {
        SKIP_UNTIL.store(args[2].parse().unwrap(), std::sync::atomic::Ordering::SeqCst);
        if args.get(3).map(|s| s.as_str()) == Some("beh") {
            return main_beh(&args[4]);
        }
        return main_random(args.get(3).map(|s| s.parse().unwrap()).unwrap_or(30000));
    }
    supervise(&args[1..]);
}

/// The parse loop under test may spin without ever reading again, which no reader can observe.  The recorder therefore runs as a
/// child process; the parent forwards its event lines and, when the child has been silent for 10 s inside a run, kills it, closes
/// the run with out = "hang" and starts a new child after that run.
fn supervise(rest: &[String]) {
    use std::io::BufRead;
    let exe = std::env::current_exe().unwrap();
    let out = std::io::stdout();
    let mut skip = 0u64;
    let mut hangs = 0u32;
    loop {
        let mut child = std::process::Command::new(&exe).arg("--child").arg(skip.to_string()).args(rest).stdout(std::process::Stdio::piped()).spawn().expect("spawn recorder child");
        let stdout = child.stdout.take().unwrap();
        let (tx, rx) = std::sync::mpsc::channel::<String>();
        let rd = std::thread::spawn(move || {
            let mut r = std::io::BufReader::with_capacity(1 << 20, stdout);
            loop {
                let mut line = String::new();
                match r.read_line(&mut line) {
                    Ok(0) | Err(_) => break,
                    Ok(_) => { if !line.ends_with('\n') { break; } if tx.send(line).is_err() { break; } }
                }
            }
        });
        let mut open_run: Option<u64> = None;      // a run has begun and not ended
        let mut started = false;                  // its Start event has been forwarded
        let mut open_len = 0u64;
        let mut hung = false;
        loop {
            match rx.recv_timeout(std::time::Duration::from_secs(10)) {
                Ok(line) => {
                    if let Some(r) = line.strip_prefix("#BEGIN ") {
                        let mut it = r.trim().split(' ');
                        open_run = it.next().and_then(|n| n.parse().ok());
                        open_len = it.next().and_then(|n| n.parse().ok()).unwrap_or(0);
                        started = false;
                        continue;
                    }
                    if line.starts_with("{\"ev\":\"Start\"") {
                        started = true;
                    } else if line.starts_with("{\"ev\":\"End\"") {
                        open_run = None;
                    }
                    let mut o = out.lock();
                    o.write_all(line.as_bytes()).unwrap();
                }
                Err(std::sync::mpsc::RecvTimeoutError::Timeout) => {
                    if open_run.is_some() { hung = true; let _ = child.kill(); break; }
                    // silent between runs (generating a large file): keep waiting
                }
                Err(std::sync::mpsc::RecvTimeoutError::Disconnected) => break,
            }
        }
        let _ = child.wait();
        let _ = rd.join();
        if hung {
            let mut o = out.lock();
            if !started {
                writeln!(o, "{{\"ev\":\"Start\",\"id\":{},\"len\":{},\"nls\":[],\"maxline\":0,\"whole\":\"hang\",\"expect_ok\":0,\"mode\":99}}", open_run.unwrap(), open_len).unwrap();
            }
            writeln!(o, "{{\"ev\":\"End\",\"out\":\"hang\",\"line\":0,\"same\":1}}").unwrap();
            skip = open_run.unwrap();
            hangs += 1;
            if hangs >= 3 {
                break; // three runs that never end settle the verdict; waiting for hundreds more would only burn the clock
            }
            continue;
        }
        if let Some(id) = open_run {
            // the child died inside a run without spinning (abort): close the run as a panic and go on after it
            let mut o = out.lock();
            if !started {
                writeln!(o, "{{\"ev\":\"Start\",\"id\":{},\"len\":{},\"nls\":[],\"maxline\":0,\"whole\":\"panic\",\"expect_ok\":0,\"mode\":99}}", id, open_len).unwrap();
            }
            writeln!(o, "{{\"ev\":\"End\",\"out\":\"panic\",\"line\":0,\"same\":1}}").unwrap();
            skip = id;
            continue;
        }
        break;
    }
    out.lock().flush().unwrap();
}

/// spec -> impl: run the chunk schedules TLC enumerated (at scale) on the real parser and log the same events.
fn main_beh(path: &str) {
    let log: SharedLog = Rc::new(RefCell::new(Log { out: std::io::BufWriter::new(std::io::stdout()), events: 0 }));
    vharness::install_panic_capture();
    let mut id = 1_000_000u64;
    let mut cases: Vec<serde_json::Value> = vec![];
    vharness::for_each_case(path, "BEH", |c| cases.push(c));
    vharness::for_each_case(path, "CEX", |c| cases.push(c));
    for c in cases {
        id += 1;
        let nls: Vec<usize> = c["nls"].as_array().unwrap().iter().map(|x| x.as_u64().unwrap() as usize).collect();
        let len = c["len"].as_u64().unwrap() as usize;
        let sched: Vec<usize> = c["sched"].as_array().unwrap().iter().map(|x| x.as_u64().unwrap() as usize * SCALE).collect();
        let bytes = render_model_input(&nls, len);
        let data = &bytes;
        run_one(&log, id, data, false, 9, {
            let mut i = 0usize;
            Box::new(move |_r, o| { let w = sched.get(i).copied().unwrap_or(usize::MAX); i += 1; if w == 0 { o.max(1) } else { w } })
        });
    }
    log.borrow_mut().out.flush().unwrap();
}

fn run_one<'a>(log: &SharedLog, id: u64, data: &'a [u8], expect_ok: bool, mode: u32, sched: Box<dyn FnMut(usize, usize) -> usize + 'a>) {
    if id <= SKIP_UNTIL.load(std::sync::atomic::Ordering::SeqCst) {
        return;
    }
    {
        // tell the supervisor which run begins (the whole-buffer parse below goes through the same loop and may spin as well)
        let mut l = log.borrow_mut();
        writeln!(l.out, "#BEGIN {} {}", id, data.len()).unwrap();
        l.out.flush().unwrap();
    }
    let whole = vharness::guarded(|| SymbolFile::from_bytes(data));
    let (wout, _wline) = match &whole { Ok(r) => outcome(r), Err(_) => ("panic", 0) };
    let nls: Vec<usize> = data.iter().enumerate().filter(|(_, &c)| c == b'\n').map(|(i, _)| i + 1).collect();
    let mut maxline = 0usize; let mut prev = 0usize;
    for &p in &nls { maxline = maxline.max(p - prev); prev = p; }
    maxline = maxline.max(data.len() - prev);
    let nls_json = format!("[{}]", nls.iter().map(|x| x.to_string()).collect::<Vec<_>>().join(","));
    {
        let mut l = log.borrow_mut();
        writeln!(l.out, "{{\"ev\":\"Start\",\"id\":{},\"len\":{},\"nls\":{},\"maxline\":{},\"whole\":\"{}\",\"expect_ok\":{},\"mode\":{}}}",
                 id, data.len(), nls_json, maxline, wout, if expect_ok && maxline != 0 { 1 } else { 0 }, mode).unwrap();
        l.events += 1;
        l.out.flush().unwrap(); // the supervisor must know which run is open
    }
    let reader = ChunkReader { data, pos: 0, sched, log: log.clone(), reads: 0, eof_reads: 0 };
    let fed = Rc::new(RefCell::new(0usize));
    let (fed2, log2) = (fed.clone(), log.clone());
    let res = vharness::guarded(move || {
        SymbolFile::parse(reader, |slice: &[u8]| {
            let mut f = fed2.borrow_mut();
            let ok = *f + slice.len() <= data.len() && &data[*f..*f + slice.len()] == slice;
            *f += slice.len();
            let mut l = log2.borrow_mut();
            writeln!(l.out, "{{\"ev\":\"Cb\",\"len\":{},\"okbytes\":{}}}", slice.len(), if ok { 1 } else { 0 }).unwrap();
            l.events += 1;
        })
    });
    let (out, line, same) = match &res {
        Err(_) => ("panic", 0, 0),
        Ok(r) => {
            let (o, ln) = outcome(r);
            let same = match (r, &whole) { (Ok(a), Ok(Ok(b))) => if a == b { 1 } else { 0 }, _ => 1 };
            (o, ln, same)
        }
    };
    let mut l = log.borrow_mut();
    writeln!(l.out, "{{\"ev\":\"End\",\"out\":\"{}\",\"line\":{},\"same\":{}}}", out, line, same).unwrap();
    l.events += 1;
}

fn main_random(budget: u64) {
    let mut rng = StdRng::seed_from_u64(vharness::seed() ^ 0xC10);
    let log: SharedLog = Rc::new(RefCell::new(Log { out: std::io::BufWriter::new(std::io::stdout()), events: 0 }));
    vharness::install_panic_capture();
    let mut id = 0u64;
    let mut kind = 0u32;
    // ---- deterministic families first: every two-way split of small files with blank lines / CRLF / no final newline, and
    // over-long lines followed by a short unterminated tail that arrives in the same read as the end of the long line
    let small: Vec<(&[u8], bool)> = vec![
        (b"MODULE Linux x86_64 000 a\n\nFUNC 10 10 0 f\n10 10 1 0\n\nPUBLIC 50 0 p\n", true),
        (b"MODULE Linux x86_64 000 a\r\n\r\nFUNC 10 10 0 f\r\n10 10 1 0\r\n\r\nPUBLIC 50 0 p\r\n", true),
        (b"MODULE Linux x86_64 000 a\nFUNC 10 10 0 f\n\n\n\nPUBLIC 50 0 p", false),
        (b"\nMODULE Linux x86_64 000 a\nPUBLIC 50 0 p\n", false),
        (b"MODULE Linux x86_64 000 a\nSTACK CFI INIT 10 10 .cfa: $rsp 8 +\n\nSTACK CFI 12 .cfa: $rsp 16 +\nPUBLIC 50 0 p\n\n", false),
        (b"MODULE Linux x86_64 000 a\nFUNC 10 10 0 f\n10 10 99999999999999999999 0\n", false),
        // whitespace-only lines are not blank lines
        (b"MODULE Linux x86_64 000 a\nFUNC 10 10 0 f\n10 10 1 0\n  \nPUBLIC 50 0 p\n", false),
        (b"MODULE Linux x86_64 000 a\nFUNC 10 10 0 f\n10 10 1 0\n\t\nPUBLIC 50 0 p\n", false),
        (b"MODULE Linux x86_64 000 a\nFUNC 10 10 0 f\n10 10 1 0\n \n", false),
        // STACK WIN records of one type at one address with different sizes, nested and staircase overlaps
        (b"MODULE windows x86 000 a\nSTACK WIN 4 10 10 0 0 0 0 0 0 1 $eip 4 + ^ =\nSTACK WIN 4 10 20 0 0 0 0 0 0 1 $eip 8 + ^ =\nPUBLIC 50 0 p\n", true),
        (b"MODULE windows x86 000 a\nSTACK WIN 4 10 20 0 0 0 0 0 0 1 $eip 4 + ^ =\nSTACK WIN 4 10 10 0 0 0 0 0 0 1 $eip 8 + ^ =\nSTACK WIN 4 18 20 0 0 0 0 0 0 1 $eip 8 + ^ =\n", true),
        (b"MODULE windows x86 000 a\nSTACK WIN 0 10 10 0 0 0 0 0 0 0 1\nSTACK WIN 0 10 8 0 0 0 0 0 0 0 0\nSTACK WIN 0 10 10 0 0 0 0 0 0 0 1\n", true),
        (b"", false),
        // fields that are "everything up to the next space" must not swallow a line end
        (b"MODULE Linux\nx86 arch ffff0000 bar\nFILE 1 a\n", false),
        (b"MODULE Linux x86\n64 ffff0000 bar\nPUBLIC 10 0 p\n", false),
        (b"MODULE Linux x86_64 000 a\nFILE 1\n2 b.c\nPUBLIC 10 0\np\nFUNC 10\n10 0 f\n", false),
        (b"MODULE Linux x86_64 000 a\nSTACK WIN 4 10 10 0 0 0 0 0 0 1\n$eip 4 + ^ =\nSTACK CFI INIT 10 10\n.cfa: $rsp 8 +\n", false),
        // carriage returns that are not part of a line end: after the newline (\n\r), inside a line, alone at the end of the file
        (b"MODULE Linux x86_64 000 a\n\rFILE 1 b.c\nPUBLIC 50 0 p\n", false),
        (b"MODULE Linux x86_64 000 a\r\n\rPUBLIC 50 0 p\r\n\r", false),
        (b"MODULE Linux x86_64 000 a\n\r\nPUBLIC 50 0 p\n\r\r", false),
        (b"MODULE Linux x86_64 000 a\nPUBLIC 50 0 p\rq\nFILE 1 b\r.c\n", false),
        (b"MODULE Linux x86_64 000 a\r\r\n\r\r\nFUNC 10 10 0 f\r\r\n10 10 1 0\r\r\n\r\r\n", false),
        (b"MODULE Linux x86_64 000 a\n\r", false),
    ];
    for (data, expect_ok) in &small {
        for s in 0..=data.len() {
            for extra in [false, true] {
                id += 1;
                let mut step = 0;
                let sched: Box<dyn FnMut(usize, usize) -> usize> = Box::new(move |_r, _o| { step += 1; if step == 1 { s.max(1) } else if step == 2 && extra { 1 } else { usize::MAX } });
                run_one(&log, id, data, *expect_ok, 8, sched);
            }
        }
    }
    // records whose address range touches the ends of the address space (or wraps): every record kind x (address, size)
    {
        let edges: [(&str, &str); 11] = [("0", "0"), ("0", "1"), ("ffffffffffffffff", "0"), ("ffffffffffffffff", "1"), ("ffffffffffffffff", "2"), ("fffffffffffffff0", "10"),
            ("fffffffffffffff0", "11"), ("8000000000000000", "8000000000000000"), ("1", "ffffffffffffffff"), ("0", "ffffffffffffffff"), ("fffffffffffffffe", "ffffffff")];
        for (a, sz) in edges {
            let s32 = if sz.len() > 8 { "ffffffff" } else { sz };
            let files = [
                format!("FUNC {a} {sz} 0 f\n{a} {sz} 1 0\n"),
                format!("FUNC 10 10 0 f\n{a} {sz} 1 0\n"),
                format!("PUBLIC {a} 0 p\nPUBLIC 10 0 q\n"),
                format!("STACK CFI INIT {a} {sz} .cfa: $rsp 8 + .ra: .cfa 8 - ^\nSTACK CFI {a} .cfa: $rsp 16 +\n"),
                format!("STACK CFI INIT 10 10 .cfa: $rsp 8 + .ra: .cfa 8 - ^\nSTACK CFI {a} .cfa: $rsp 16 +\n"),
                format!("STACK WIN 4 {a} {s32} 0 0 0 0 0 0 1 $eip 4 + ^ =\nSTACK WIN 4 10 10 0 0 0 0 0 0 1 $eip 4 + ^ =\n"),
                format!("STACK WIN 0 {a} {s32} 0 0 0 0 0 0 0 1\n"),
                format!("FILE 0 a.c\nINLINE_ORIGIN 0 i\nFUNC 10 10 0 f\nINLINE 0 1 0 0 {a} {sz}\n10 10 1 0\n"),
            ];
            for f in files {
                let mut data: Vec<u8> = b"MODULE Linux x86_64 000 a\n".to_vec();
                data.extend_from_slice(f.as_bytes());
                let half = data.len() / 2;
                for mode in 0..3 {
                    id += 1;
                    let mut step = 0;
                    let sched: Box<dyn FnMut(usize, usize) -> usize> = match mode { 0 => Box::new(|_r, o| o), 1 => Box::new(|_r, _o| 1),
                        _ => Box::new(move |_r, _o| { step += 1; if step == 1 { half } else { usize::MAX } }) };
                    run_one(&log, id, &data, false, 40, sched);
                }
            }
        }
    }
    // an over-long line (dropped) in the middle of an open record: the sub-lines after it still belong to the record
    for long in [170_000usize, 400_000] {
        for (pre, post) in [("FUNC 1000 40 0 f\n1000 10 1 0\n", "1010 10 2 0\nPUBLIC 2000 0 p\n"), ("STACK CFI INIT 1000 40 .cfa: $rsp 8 + .ra: .cfa 8 - ^\n", "STACK CFI 1010 .cfa: $rsp 16 +\nPUBLIC 2000 0 p\n"),
                            ("FUNC 1000 40 0 f\nINLINE_ORIGIN 0 i\n", "1010 10 2 0\n")] {
            let mut data: Vec<u8> = b"MODULE Linux x86_64 000 a\nFILE 0 a.c\n".to_vec();
            data.extend_from_slice(pre.as_bytes());
            data.extend(std::iter::repeat(b'J').take(long));
            data.push(b'\n');
            data.extend_from_slice(post.as_bytes());
            let n = data.len();
            for mode in 0..3 {
                id += 1;
                let mut step = 0;
                let sched: Box<dyn FnMut(usize, usize) -> usize> = match mode { 0 => Box::new(|_r, o| o), 1 => Box::new(|_r, _o| 4096),
                    _ => Box::new(move |_r, _o| { step += 1; if step == 1 { n / 2 } else { usize::MAX } }) };
                run_one(&log, id, &data, pre.starts_with("FUNC 1000 40 0 f\n1000") || pre.starts_with("STACK"), 41, sched);
            }
        }
    }
    // names whose length sits around 4 KiB with a multi-byte character straddling each nearby byte offset
    for pad in 4088usize..=4100 {
        for rec in ["FUNC 10 10 0 ", "PUBLIC 10 0 ", "FILE 1 ", "INLINE_ORIGIN 1 "] {
            let mut data: Vec<u8> = b"MODULE Linux x86_64 000 a\n".to_vec();
            data.extend_from_slice(rec.as_bytes());
            data.extend(std::iter::repeat(b'a').take(pad));
            data.extend_from_slice("\u{e9}\u{4e2d}\u{1F600}tail".as_bytes());
            data.push(b'\n');
            id += 1;
            run_one(&log, id, &data, true, 30, Box::new(|_r, o| o));
        }
    }
    for (k, long) in [163_841usize, 163_840 + 200, 170_000, 200_000, 163_839].iter().enumerate() {
        for tail in [&b"PUBLIC 1 0 t"[..], &b"x"[..], &b"PUBLIC 1 0 t\n"[..]] {
            let mut data: Vec<u8> = b"MODULE Linux x86_64 000 a\nPUBLIC 10 0 ".to_vec();
            data.extend(std::iter::repeat(b'n').take(*long));
            data.push(b'\n');
            data.extend_from_slice(tail);
            let n = data.len();
            for cut in [0usize, tail.len() + 1 + 10, tail.len() + 1, tail.len(), 1] {
                id += 1;
                let first = n.saturating_sub(cut);
                let mut step = 0;
                let sched: Box<dyn FnMut(usize, usize) -> usize> = Box::new(move |_r, o| { step += 1; if cut == 0 { o } else if step == 1 { first.max(1) } else { usize::MAX } });
                run_one(&log, id, &data, false, 9 + k as u32, sched);
            }
        }
    }
    while log.borrow().events < budget {
        kind += 1;
        let g = gen_file(&mut rng, kind);
        let data = &g.bytes;
        let whole = vharness::guarded(|| SymbolFile::from_bytes(data));
        let (wout, _wline) = match &whole { Ok(r) => outcome(r), Err(_) => ("panic", 0) };
        if g.expect_ok && wout != "ok" && std::env::var("VERIF_DUMP_BAD").is_ok() {
            std::fs::write(format!("/tmp/bad_{}.sym", kind), data).unwrap();
            eprintln!("bad expect_ok file kind {} -> {:?}", kind, whole.as_ref().map(|r| r.as_ref().err().map(|e| e.to_string())));
        }
        let nls: Vec<usize> = data.iter().enumerate().filter(|(_, &c)| c == b'\n').map(|(i, _)| i + 1).collect();
        let mut maxline = 0usize; let mut prev = 0usize;
        for &p in &nls { maxline = maxline.max(p - prev); prev = p; }
        maxline = maxline.max(data.len() - prev);
        let nls_json = format!("[{}]", nls.iter().map(|x| x.to_string()).collect::<Vec<_>>().join(","));
        // chunk modes for this file
        let mut modes: Vec<u32> = vec![0, 2, 3, 4, 7];
        if nls.len() <= 120 { modes.push(6); }
        if data.len() <= 3000 { modes.push(1); modes.push(5); }
        for mode in modes {
            id += 1;
            let split = if data.is_empty() { 0 } else { rng.gen_range(0..=data.len()) };
            let mut first = true;
            let thr = [10240usize, 20480, 40960, 81920, 163840][rng.gen_range(0..5)];
            let mut r2 = StdRng::seed_from_u64(rng.gen());
            let sched: Box<dyn FnMut(usize, usize) -> usize> = match mode {
                0 => Box::new(|_r, o| o),                                   // as much as fits (whole-buffer reader)
                1 => Box::new(|_r, _o| 1),                                  // 1-byte trickle
                2 => Box::new(move |_r, _o| r2.gen_range(1..=4096)),        // small random chunks
                3 => Box::new(move |_r, _o| (thr as i64 + r2.gen_range(-3i64..=3)).max(1) as usize), // around a threshold
                4 => Box::new(move |_r, _o| if first { first = false; split.max(1) } else { usize::MAX }), // one split point
                6 => { let nl = nls.clone(); let total = data.len(); Box::new(move |r, _o| { let pos = total - r; let next = nl.iter().find(|&&p| p > pos).copied().unwrap_or(total); (next - pos).max(1) }) } // line by line
                7 => { let at = if nls.is_empty() { 0 } else { nls[r2.gen_range(0..nls.len())] }; Box::new(move |_r, _o| if first { first = false; at.max(1) } else { usize::MAX }) } // split exactly at a line start
                _ => Box::new(move |_r, _o| r2.gen_range(1..=7)),           // tiny random chunks
            };
            run_one(&log, id, data, g.expect_ok, mode, sched);
        }
    }
    log.borrow_mut().out.flush().unwrap();
}
