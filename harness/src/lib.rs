//! Shared helpers for the conformance harness (projection functions, codecs).
