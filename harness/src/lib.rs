//! Shared helpers for the conformance harness: limb codecs, TLC case extraction,
//! report lines.  Deliberately logic-free (see DESIGN.md section 8, trusted base).
use std::io::BufRead;

/// u64 -> JSON array of `n` little-endian 16-bit limbs (TLC ints are 32-bit).
pub fn limbs(v: u64, n: usize) -> String {
    let mut s = String::from("[");
    for i in 0..n {
        if i > 0 {
            s.push(',');
        }
        s.push_str(&((v >> (16 * i)) & 0xffff).to_string());
    }
    s.push(']');
    s
}

pub fn limbs_json(v: u64, n: usize) -> serde_json::Value {
    serde_json::Value::Array((0..n).map(|i| serde_json::Value::from((v >> (16 * i)) & 0xffff)).collect())
}

/// JSON array of limbs -> u64.  An empty array means "no value".
pub fn from_limbs(v: &serde_json::Value) -> Option<u64> {
    let a = v.as_array()?;
    if a.is_empty() {
        return None;
    }
    let mut r = 0u64;
    for (i, x) in a.iter().enumerate() {
        r |= x.as_u64()? << (16 * i);
    }
    Some(r)
}

/// Iterate over the JSON payloads of TLC `PrintT(<<"TAG", ToJson(..)>>)` lines in a file.
pub fn for_each_case<F: FnMut(serde_json::Value)>(path: &str, tag: &str, mut f: F) {
    let pre = format!("<<\"{}\", \"", tag);
    let file = std::fs::File::open(path).expect("open TLC output");
    let rd = std::io::BufReader::with_capacity(1 << 20, file);
    for line in rd.lines() {
        let line = match line {
            Ok(l) => l,
            Err(_) => continue,
        };
        if let Some(rest) = line.strip_prefix(&pre) {
            let rest = rest.trim_end();
            let body = rest.strip_suffix("\">>").unwrap_or(rest);
            // TLC prints the JSON text as a TLA+ string: undo that one level of escaping in a single pass
            let mut un = String::with_capacity(body.len());
            let mut it = body.chars();
            while let Some(ch) = it.next() {
                if ch == '\\' {
                    match it.next() { Some('n') => un.push('\n'), Some('t') => un.push('\t'), Some(o) => un.push(o), None => {} }
                } else {
                    un.push(ch);
                }
            }
            match serde_json::from_str::<serde_json::Value>(&un) {
                Ok(v) => f(v),
                Err(e) => panic!("bad case line: {} ({})", un, e),
            }
        }
    }
}

/// Collector for the report protocol understood by checklib/core.py.
#[derive(Default)]
pub struct Report {
    pub evaluations: u64,
    pub mismatches: u64,
    pub drift: u64,
    pub classes: std::collections::BTreeMap<String, u64>,
    pub samples: Vec<serde_json::Value>,
    pub distinct: std::collections::HashSet<u64>,
    pub per_fp: std::collections::BTreeMap<String, u64>,
}

impl Report {
    pub fn new() -> Self {
        Self::default()
    }
    pub fn class(&mut self, c: &str) {
        *self.classes.entry(c.to_string()).or_insert(0) += 1;
    }
    pub fn sample(&mut self, v: serde_json::Value) {
        if self.samples.len() < 8 {
            self.samples.push(v);
        }
    }
    pub fn nontrivial<T: std::hash::Hash>(&mut self, key: &T) {
        use std::hash::Hasher;
        let mut h = std::collections::hash_map::DefaultHasher::new();
        key.hash(&mut h);
        self.distinct.insert(h.finish());
    }
    pub fn mismatch(&mut self, fp: &str, detail: serde_json::Value) {
        self.mismatches += 1;
        let n = self.per_fp.entry(fp.to_string()).or_insert(0);
        *n += 1;
        if *n <= 25 {
            let mut o = serde_json::Map::new();
            o.insert("fp".into(), fp.into());
            o.insert("detail".into(), detail);
            println!("MISMATCH {}", serde_json::Value::Object(o));
        }
    }
    pub fn drift(&mut self, detail: serde_json::Value) {
        self.drift += 1;
        if self.drift <= 50 {
            println!("DRIFT {}", detail);
        }
    }
    pub fn finish(&self) {
        let o = serde_json::json!({
            "evaluations": self.evaluations, "mismatches": self.mismatches, "drift": self.drift,
            "classes": self.classes, "mismatch_classes": self.per_fp, "samples": self.samples, "distinct_nontrivial": self.distinct.len(),
        });
        println!("SUMMARY {}", o);
    }
}

pub fn seed() -> u64 {
    std::env::var("VERIF_SEED").ok().and_then(|s| s.parse().ok()).unwrap_or(1)
}
pub fn thorough() -> bool {
    std::env::var("VERIF_TIER").map(|t| t == "thorough").unwrap_or(false)
}

// ---- panic capture: a panic in code under test is data, not a tool failure ----
thread_local! {
    static LAST_PANIC: std::cell::RefCell<String> = std::cell::RefCell::new(String::new());
}
/// Install a hook that records "<file>:<message>" of the last panic on this thread (no line numbers, so
/// the fingerprint survives unrelated edits).
pub fn install_panic_capture() {
    std::panic::set_hook(Box::new(|info| {
        let file = info.location().map(|l| l.file().rsplit('/').next().unwrap_or("").to_string()).unwrap_or_default();
        let msg = if let Some(s) = info.payload().downcast_ref::<&str>() {
            s.to_string()
        } else if let Some(s) = info.payload().downcast_ref::<String>() {
            s.clone()
        } else {
            "?".to_string()
        };
        let short: String = msg.chars().take(80).collect();
        if std::env::var("VERIF_DEBUG").is_ok() {
            eprintln!("panic captured: {}:{} at {:?}", file, short, info.location());
        }
        LAST_PANIC.with(|p| *p.borrow_mut() = format!("{}:{}", file, short));
    }));
}
pub fn last_panic() -> String {
    LAST_PANIC.with(|p| p.borrow().clone())
}
/// Run `f`, turning a panic into Err("<file>:<message>").
pub fn guarded<T>(f: impl FnOnce() -> T) -> Result<T, String> {
    match std::panic::catch_unwind(std::panic::AssertUnwindSafe(f)) {
        Ok(v) => Ok(v),
        Err(_) => Err(last_panic()),
    }
}

pub mod rm;
pub mod walk;
pub mod dumpgen;
pub mod corpus;
pub mod reader;
pub mod rich;
pub mod readercases;
