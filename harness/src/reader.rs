//! C01: drive the whole public reading surface over one byte string.  Everything here may panic / allocate /
//! loop inside the code under test; the caller (a worker process with a counting allocator and a watchdog)
//! turns that into data.
use minidump::system_info::{Cpu, Os};
use minidump::*;
use std::io::Write;

#[derive(Default, Debug, Clone)]
pub struct DriveOut {
    pub opened: bool,
    pub streams_ok: u32,
    pub streams_err: u32,
    pub printed: usize,
    pub errs: Vec<String>,
}

struct Sink(usize);
impl Write for Sink {
    fn write(&mut self, b: &[u8]) -> std::io::Result<usize> {
        self.0 += b.len();
        Ok(b.len())
    }
    fn flush(&mut self) -> std::io::Result<()> {
        Ok(())
    }
}

fn probe_addresses(seed: &[u64]) -> Vec<u64> {
    let mut v = vec![0u64, 1, 0xfff, 0x1000, 0x7fff_ffff, 0x8000_0000, 0xffff_ffff, 0x1_0000_0000, u64::MAX - 1, u64::MAX, 1 << 63];
    for &s in seed {
        v.extend_from_slice(&[s, s.wrapping_add(1), s.wrapping_sub(1)]);
    }
    v
}

pub fn drive(bytes: &[u8]) -> DriveOut {
    let mut o = DriveOut::default();
    let dump = match Minidump::read(bytes) {
        Ok(d) => d,
        Err(_) => return o,
    };
    o.opened = true;
    let mut out = Sink(0);
    let w = &mut out;
    let _ = dump.print(w);
    let types: Vec<u32> = dump.all_streams().map(|d| d.stream_type).collect();
    for t in types.iter().chain([0u32, 3, 0xffff, 0x4767_0001, u32::MAX].iter()) {
        let _ = dump.get_raw_stream(*t).map(|b| b.len());
    }
    let _ = dump.unknown_streams().count();
    let _ = dump.unimplemented_streams().count();
    macro_rules! tally {
        ($r:expr) => {
            match $r {
                Ok(v) => {
                    o.streams_ok += 1;
                    Some(v)
                }
                Err(e) => {
                    o.streams_err += 1;
                    o.errs.push(format!("{}:{:?}", stringify!($r).split("::<").nth(1).unwrap_or("?").split('>').next().unwrap_or("?"), e));
                    None
                }
            }
        };
    }
    let system_info = tally!(dump.get_stream::<MinidumpSystemInfo>());
    let misc_info = tally!(dump.get_stream::<MinidumpMiscInfo>());
    let memory_list = tally!(dump.get_stream::<MinidumpMemoryList<'_>>());
    let memory64_list = tally!(dump.get_stream::<MinidumpMemory64List<'_>>());
    let (os, cpu) = system_info.as_ref().map(|s| (s.os, s.cpu)).unwrap_or((Os::Unknown(0), Cpu::Unknown(0)));
    if let Some(s) = &system_info {
        let _ = s.print(w);
        let _ = s.os_parts();
        let _ = s.csd_version();
        let _ = s.cpu_info();
    }
    if let Some(m) = &misc_info {
        let _ = m.print(w);
        let _ = m.process_create_time();
    }
    let mut seeds: Vec<u64> = vec![];
    if let Some(m) = &memory_list {
        for r in m.iter() {
            seeds.push(r.base_address);
            seeds.push(r.base_address.wrapping_add(r.size));
            let _ = r.memory_range();
            let _ = r.get_memory_at_address::<u64>(r.base_address);
            let _ = r.get_memory_at_address::<u8>(r.base_address.wrapping_add(r.size).wrapping_sub(1));
        }
        let _ = m.by_addr().count();
        let _ = m.print(w, true);
        let _ = m.print(w, false);
    }
    if let Some(m) = &memory64_list {
        for r in m.iter() {
            seeds.push(r.base_address);
            seeds.push(r.base_address.wrapping_add(r.size));
            let _ = r.memory_range();
            let _ = r.get_memory_at_address::<u32>(r.base_address.wrapping_add(r.size).wrapping_sub(2));
        }
        let _ = m.by_addr().count();
        let _ = m.print(w, true);
        let _ = m.print(w, false);
    }
    let unified = dump.get_memory();
    let unified2 = memory64_list.map(UnifiedMemoryList::Memory64).or_else(|| memory_list.map(UnifiedMemoryList::Memory));
    if let Some(u) = &unified {
        let _ = u.iter().count();
        let _ = u.by_addr().count();
        let _ = u.print(w, true);
    }
    if let Some(l) = tally!(dump.get_stream::<MinidumpModuleList>()) {
        let _ = l.print(w);
        let _ = l.main_module().map(|m| m.code_file().len());
        for m in l.iter().chain(l.by_addr()) {
            seeds.push(m.base_address());
            seeds.push(m.base_address().wrapping_add(m.size()));
            let _ = (m.code_file().len(), m.code_identifier(), m.debug_file().map(|d| d.len()), m.debug_identifier(), m.version().map(|v| v.len()));
            let _ = m.print(w);
        }
        for a in probe_addresses(&seeds) {
            let _ = l.module_at_address(a).map(|m| m.base_address());
        }
    }
    if let Some(l) = tally!(dump.get_stream::<MinidumpUnloadedModuleList>()) {
        let _ = l.print(w);
        for m in l.iter().chain(l.by_addr()) {
            seeds.push(m.base_address());
            let _ = (m.code_file().len(), m.code_identifier(), m.debug_file().map(|d| d.len()), m.debug_identifier(), m.version().map(|v| v.len()));
            let _ = m.print(w);
        }
        for a in probe_addresses(&seeds) {
            let _ = l.modules_at_address(a).count();
        }
    }
    if let Some(tl) = tally!(dump.get_stream::<MinidumpThreadList<'_>>()) {
        let _ = tl.print(w, unified.as_ref(), system_info.as_ref(), misc_info.as_ref(), false);
        let _ = tl.print(w, unified2.as_ref(), system_info.as_ref(), misc_info.as_ref(), true);
        let _ = tl.print(w, None, None, None, false);
        for t in tl.threads.iter() {
            let _ = tl.get_thread(t.raw.thread_id).map(|x| x.raw.thread_id);
            if let Some(s) = &system_info {
                if let Some(c) = t.context(s, misc_info.as_ref()) {
                    let _ = c.print(w);
                    let _ = (c.get_instruction_pointer(), c.get_stack_pointer());
                    for r in c.valid_registers() {
                        let _ = r;
                    }
                }
            }
            if let Some(u) = &unified {
                let _ = t.stack_memory(u).map(|m| m.size());
                let _ = t.last_error(cpu, u);
            }
        }
    }
    if let Some(t) = tally!(dump.get_stream::<MinidumpThreadNames>()) {
        let _ = t.print(w);
        for id in [0u32, 1, 7, u32::MAX] {
            let _ = t.get_name(id).map(|n| n.len());
        }
    }
    if let Some(t) = tally!(dump.get_stream::<MinidumpThreadInfoList>()) {
        let _ = t.print(w);
        for id in [0u32, 1, 7, u32::MAX] {
            let _ = t.get_thread_info(id).map(|i| i.raw.thread_id);
        }
    }
    if let Some(h) = tally!(dump.get_stream::<MinidumpHandleDataStream>()) {
        let _ = h.print(w);
        let _ = h.iter().count();
    }
    let info = tally!(dump.get_stream::<MinidumpMemoryInfoList<'_>>());
    let maps = tally!(dump.get_stream::<MinidumpLinuxMaps<'_>>());
    if let Some(m) = &info {
        let _ = m.print(w);
        for i in m.iter().chain(m.by_addr()) {
            seeds.push(i.raw.base_address);
            let _ = (i.memory_range(), i.is_readable(), i.is_writable(), i.is_executable());
            let _ = i.print(w);
        }
        for a in probe_addresses(&seeds) {
            let _ = m.memory_info_at_address(a).map(|i| i.raw.base_address);
        }
    }
    if let Some(m) = &maps {
        let _ = m.print(w);
        let _ = m.memory_map_count();
        for i in m.iter().chain(m.by_addr()) {
            let _ = (i.memory_range(), i.is_readable(), i.is_writable(), i.is_executable());
            let _ = i.print(w);
        }
        for a in probe_addresses(&seeds) {
            let _ = m.memory_info_at_address(a).map(|i| i.map.address);
        }
    }
    if let Some(u) = UnifiedMemoryInfoList::new(info, maps) {
        let _ = u.print(w);
        let _ = (u.iter().count(), u.by_addr().count(), u.info().is_some(), u.maps().is_some());
        for a in probe_addresses(&seeds) {
            let _ = u.memory_info_at_address(a).map(|i| (i.memory_range(), i.is_readable(), i.is_writable(), i.is_executable()));
        }
    }
    if let Some(e) = tally!(dump.get_stream::<MinidumpException>()) {
        let _ = e.print(w, system_info.as_ref(), misc_info.as_ref());
        let _ = e.print(w, None, None);
        let _ = e.get_crashing_thread_id();
        for (o2, c2) in [(os, cpu), (Os::Windows, Cpu::X86), (Os::Windows, Cpu::X86_64), (Os::Linux, Cpu::Arm64), (Os::MacOs, Cpu::X86_64), (Os::MacOs, Cpu::Arm64), (Os::Android, Cpu::Arm), (Os::Unknown(0), Cpu::Unknown(0))] {
            let _ = e.get_crash_address(o2, c2);
            let _ = e.get_crash_reason(o2, c2).to_string();
        }
        if let Some(s) = &system_info {
            if let Some(c) = e.context(s, misc_info.as_ref()) {
                let _ = c.print(w);
            }
        }
    }
    if let Some(a) = tally!(dump.get_stream::<MinidumpAssertion>()) {
        let _ = a.print(w);
        let _ = (a.expression(), a.function(), a.file());
    }
    if let Some(b) = tally!(dump.get_stream::<MinidumpBreakpadInfo>()) {
        let _ = b.print(w);
    }
    if let Some(c) = tally!(dump.get_stream::<MinidumpCrashpadInfo>()) {
        let _ = c.print(w);
    }
    if let Some(m) = tally!(dump.get_stream::<MinidumpMacCrashInfo>()) {
        let _ = m.print(w);
    }
    if let Some(m) = tally!(dump.get_stream::<MinidumpMacBootargs>()) {
        let _ = m.print(w);
    }
    if let Some(s) = tally!(dump.get_stream::<MinidumpLinuxLsbRelease<'_>>()) {
        let _ = (s.iter().map(|(k, v)| k.len() + v.len()).sum::<usize>(), s.raw_bytes().len());
    }
    if let Some(s) = tally!(dump.get_stream::<MinidumpLinuxEnviron<'_>>()) {
        let _ = (s.iter().map(|(k, v)| k.len() + v.len()).sum::<usize>(), s.raw_bytes().len());
    }
    if let Some(s) = tally!(dump.get_stream::<MinidumpLinuxProcStatus<'_>>()) {
        let _ = (s.iter().map(|(k, v)| k.len() + v.len()).sum::<usize>(), s.raw_bytes().len());
    }
    if let Some(s) = tally!(dump.get_stream::<MinidumpLinuxCpuInfo<'_>>()) {
        let _ = (s.iter().map(|(k, v)| k.len() + v.len()).sum::<usize>(), s.raw_bytes().len());
    }
    if let Some(s) = tally!(dump.get_stream::<MinidumpLinuxProcLimits<'_>>()) {
        let _ = (s.iter().map(|l| l.len()).sum::<usize>(), s.raw_bytes().len());
    }
    if let Some(s) = tally!(dump.get_stream::<MinidumpSoftErrors<'_>>()) {
        let _ = s.as_ref().len();
    }
    o.printed = out.0;
    o
}
