//! Minidump writer used by the dump-based checks (C01 C02 C03 C13 C14 C15 C19 C20): builds a dump from an abstract
//! description with the FROZEN vendored writer (vendor/vf-synth), never with /repo's own helper.
use test_assembler::{Endian, Section};
use vf_synth as synth;

#[derive(Clone, Debug, Default)]
pub struct ThreadSpec {
    pub id: u32,
    pub ctx_ok: bool,
    pub name: Option<String>,
    pub ip: u64,
    pub sp: u64,
    pub stack_base: u64,
    pub stack: Vec<u8>,
}
#[derive(Clone, Debug, Default)]
pub struct ExcSpec {
    pub tid: u32,
    pub has_ctx: bool,
    pub ctx_ok: bool,
    pub ctx_ip: u64,
    pub ctx_sp: u64,
    pub code: u32,
    pub flags: u32,
    pub address: u64,
    pub nparams: u32,
    pub info: [u64; 15],
    /// (byte offset in the context, little/big-endian u64 value) patches, e.g. amd64 rbx at 144
    pub ctx_patch: Vec<(usize, u64)>,
}
#[derive(Clone, Debug, Default)]
pub struct RegionSpec { pub base: u64, pub size: u64, pub protection: u32, pub state: u32 }
#[derive(Clone, Debug, Default)]
pub struct ModuleSpec { pub base: u64, pub size: u32, pub name: String }
#[derive(Clone, Debug)]
pub struct DumpSpec {
    pub big_endian: bool,
    /// "windows" | "linux" | "mac" | "android" | "ios"
    pub os: String,
    /// "x86" | "amd64" | "arm64" | "arm" | "ppc64" | "unknown"
    pub cpu: String,
    pub threads: Vec<ThreadSpec>,
    pub has_thread_list: bool,
    pub exception: Option<ExcSpec>,
    /// (dump_thread_id, requesting_thread_id); None = field not valid
    pub breakpad: Option<(Option<u32>, Option<u32>)>,
    pub misc_pid: Option<Option<u32>>, // Some(None): misc info without pid
    /// process create time (seconds since the epoch) in the misc info stream, if any
    pub misc_create_time: Option<u32>,
    pub modules: Vec<ModuleSpec>,
    pub unloaded: Vec<ModuleSpec>,
    pub memory_info: Vec<RegionSpec>,
    pub linux_maps: Option<String>,
    pub proc_status: Option<String>,
    pub proc_limits: Option<String>,
    pub cpuinfo: Option<String>,
    /// CSD version string of the system info (on Linux: the uname text) and the numeric OS version
    pub csd: Option<String>,
    pub os_version: Option<(u32, u32, u32)>,
    pub lsb: Option<String>,
    pub extra_memory: Vec<(u64, Vec<u8>)>,
    /// modules named plugin*.dll share one PDB70 CodeView record with this pdb name
    pub twin_pdb: Option<String>,
}
impl Default for DumpSpec {
    fn default() -> Self {
        DumpSpec { big_endian: false, os: "windows".into(), cpu: "x86".into(), threads: vec![], has_thread_list: true, exception: None, breakpad: None,
                   misc_pid: None, misc_create_time: None, modules: vec![], unloaded: vec![], memory_info: vec![], linux_maps: None, proc_status: None, proc_limits: None, cpuinfo: None, csd: None, os_version: None, lsb: None,
                   extra_memory: vec![], twin_pdb: None }
    }
}

pub fn platform_id(os: &str) -> u32 {
    match os { "windows" => 2, "linux" => 0x8201, "mac" => 0x8101, "android" => 0x8203, "ios" => 0x8102, _ => 0x9999 }
}
pub fn arch_id(cpu: &str) -> u16 {
    match cpu { "x86" => 0, "amd64" => 9, "arm64" => 12, "arm64old" => 0x8003, "arm" => 5, "ppc64" => 0x8002, "ppc" => 3, "sparc" => 0x8001, "mips" => 1, "mips64" => 0x8004, _ => 0xfffe }
}

/// A CPU context for `cpu`; `ok = false` clears the context flags so that the reader rejects it.
pub fn context_section_patched(endian: Endian, cpu: &str, ip: u64, sp: u64, ok: bool, patch: &[(usize, u64)]) -> Section {
    let base = context_section(endian, cpu, ip, sp, ok);
    if patch.is_empty() { return base; }
    let mut bytes = base.get_contents().unwrap();
    for (off, v) in patch {
        let b = if matches!(endian, Endian::Big) { v.to_be_bytes() } else { v.to_le_bytes() };
        bytes[*off..*off + 8].copy_from_slice(&b);
    }
    Section::with_endian(endian).append_bytes(&bytes)
}

pub fn context_section(endian: Endian, cpu: &str, ip: u64, sp: u64, ok: bool) -> Section {
    let (sec, flag_off) = match cpu {
        "amd64" => (synth::amd64_context(endian, ip, sp), 0x30usize),
        "arm64" => (synth::arm64_context(endian, ip, sp), 0usize),
        _ => (synth::x86_context(endian, ip as u32, sp as u32), 0usize),
    };
    if ok { return sec; }
    let mut bytes = sec.get_contents().unwrap();
    for b in &mut bytes[flag_off..flag_off + 4] { *b = 0; }
    Section::with_endian(endian).append_bytes(&bytes)
}

fn find(hay: &[u8], needle: &[u8]) -> Option<usize> {
    hay.windows(needle.len()).position(|w| w == needle)
}

pub fn build(spec: &DumpSpec) -> Vec<u8> {
    let mut out = build_inner(spec);
    // the frozen writer takes the CSD rva as a number: patched in once the layout is known
    if let Some(csd) = spec.csd.as_ref().filter(|c| !c.is_empty()) {
        let big = spec.big_endian;
        let mut needle: Vec<u8> = if big { ((2 * csd.encode_utf16().count()) as u32).to_be_bytes().to_vec() } else { ((2 * csd.encode_utf16().count()) as u32).to_le_bytes().to_vec() };
        needle.extend(csd.encode_utf16().flat_map(|u| if big { u.to_be_bytes() } else { u.to_le_bytes() }));
        let at = find(&out, &needle).expect("csd string");
        let (_, _, streams) = crate::rich::layout(&out);
        let si = streams.iter().find(|s| s.stream_type == 7).expect("system info");
        let b = if big { (at as u32).to_be_bytes() } else { (at as u32).to_le_bytes() };
        out[si.rva + 24..si.rva + 28].copy_from_slice(&b);
    }
    out
}

fn build_inner(spec: &DumpSpec) -> Vec<u8> {
    // two passes: the exception record names its context by file offset, which is only known once the layout is
    let first = build_pass(spec, (0, 0));
    if let Some(e) = &spec.exception {
        if e.has_ctx {
            let endian = if spec.big_endian { Endian::Big } else { Endian::Little };
            let ctx = context_section_patched(endian, &spec.cpu, e.ctx_ip, e.ctx_sp, e.ctx_ok, &e.ctx_patch).get_contents().unwrap();
            let marker = exc_marker(endian);
            let at = find(&first, &marker).expect("exception context marker") + marker.len();
            return build_pass(spec, (ctx.len() as u32, at as u32));
        }
    }
    first
}

fn exc_marker(endian: Endian) -> Vec<u8> {
    Section::with_endian(endian).D64(0x5645_5249_465f_4558).D64(0x435f_4354_585f_4d4b).get_contents().unwrap()
}

fn build_pass(spec: &DumpSpec, exc_ctx: (u32, u32)) -> Vec<u8> {
    let endian = if spec.big_endian { Endian::Big } else { Endian::Little };
    let mut d = synth::SynthMinidump::with_endian(endian);
    let mut si = synth::SystemInfo::new(endian);
    si.processor_architecture = arch_id(&spec.cpu);
    si.platform_id = platform_id(&spec.os);
    if let Some((ma, mi, bu)) = spec.os_version { si.major_version = ma; si.minor_version = mi; si.build_number = bu; }
    d = d.add_system_info(si);
    if let Some(csd) = spec.csd.as_ref().filter(|c| !c.is_empty()) { d = d.add(synth::DumpString::new(csd, endian)); }
    if let Some(mp) = &spec.misc_pid {
        let mut m = synth::MiscStream::new(endian);
        m.process_id = *mp;
        if let Some(t) = spec.misc_create_time {
            m.process_times = Some(synth::MiscFieldsProcessTimes { process_create_time: t, process_user_time: 3, process_kernel_time: 4 });
        }
        d = d.add_stream(m);
    }
    for t in &spec.threads {
        let stack = synth::Memory::with_section(Section::with_endian(endian).append_bytes(&t.stack), t.stack_base);
        let ctx = context_section(endian, &spec.cpu, t.ip, t.sp, t.ctx_ok);
        let th = synth::Thread::new(endian, t.id, &stack, &ctx);
        d = d.add_thread(th).add(ctx).add_memory(stack);
        if let Some(n) = &t.name {
            let s = synth::DumpString::new(n, endian);
            d = d.add_thread_name(synth::ThreadName::new(endian, t.id, Some(&s))).add(s);
        }
    }
    if spec.threads.is_empty() && spec.has_thread_list {
        // an empty thread list is still a thread list
        d = d.add_stream(synth::SimpleStream { stream_type: 3, section: Section::with_endian(endian).D32(0) });
    }
    if let Some(e) = &spec.exception {
        let mut x = synth::Exception::new(endian);
        x.thread_id = e.tid;
        x.exception_record.exception_code = e.code;
        x.exception_record.exception_flags = e.flags;
        x.exception_record.exception_address = e.address;
        x.exception_record.number_parameters = e.nparams;
        x.exception_record.exception_information = e.info;
        x.thread_context = exc_ctx;
        d = d.add_exception(x);
        if e.has_ctx {
            let ctx = context_section_patched(endian, &spec.cpu, e.ctx_ip, e.ctx_sp, e.ctx_ok, &e.ctx_patch);
            let marked = Section::with_endian(endian).append_bytes(&exc_marker(endian)).append_bytes(&ctx.get_contents().unwrap());
            d = d.add(marked);
        }
    }
    if let Some((dump, req)) = &spec.breakpad {
        let validity = (if dump.is_some() { 1 } else { 0 }) | (if req.is_some() { 2 } else { 0 });
        let sec = Section::with_endian(endian).D32(validity).D32(dump.unwrap_or(0)).D32(req.unwrap_or(0));
        d = d.add_stream(synth::SimpleStream { stream_type: 0x4767_0001, section: sec });
    }
    for m in &spec.modules {
        let name = synth::DumpString::new(&m.name, endian);
        let mut module = synth::Module::new(endian, m.base, m.size, &name, 0x5a5a_5a5a, 0, None);
        if let (Some(pdb), true) = (&spec.twin_pdb, m.name.starts_with("plugin")) {
            // CV_INFO_PDB70: "RSDS", GUID, age, NUL-terminated pdb file name
            let cv = Section::with_endian(endian).D32(0x5344_5352).D32(0x0a0b_0c0d).D16(0x0102).D16(0x0304).append_bytes(&[1, 2, 3, 4, 5, 6, 7, 8]).D32(1)
                .append_bytes(pdb.as_bytes()).D8(0);
            module = module.cv_record(&cv);
            d = d.add(cv);
        }
        d = d.add_module(module).add(name);
    }
    for m in &spec.unloaded {
        let name = synth::DumpString::new(&m.name, endian);
        d = d.add_unloaded_module(synth::UnloadedModule::new(endian, m.base, m.size, &name, 0x5a5a_5a5a, 0)).add(name);
    }
    for r in &spec.memory_info {
        d = d.add_memory_info(synth::MemoryInfo::new(endian, r.base, r.base, r.protection, r.size, r.state, r.protection, 0x20000));
    }
    for (base, bytes) in &spec.extra_memory {
        d = d.add_memory(synth::Memory::with_section(Section::with_endian(endian).append_bytes(bytes), *base));
    }
    if let Some(t) = &spec.linux_maps { d = d.set_linux_maps(t.as_bytes()); }
    if let Some(t) = &spec.proc_status { d = d.set_linux_proc_status(t.as_bytes()); }
    if let Some(t) = &spec.proc_limits { d = d.set_linux_proc_limits(t.as_bytes()); }
    if let Some(t) = &spec.cpuinfo { d = d.set_linux_cpu_info(t.as_bytes()); }
    if let Some(t) = &spec.lsb { d = d.set_linux_lsb_release(t.as_bytes()); }
    d.finish().expect("synth dump")
}

// ---- dump descriptions of spec/Processor.tla cases (shared by the C14 replay and the report / determinism recorders) ----
pub const EXC_IP: u64 = 0x400900;
/// return addresses planted in every thread stack and in a region of the memory list that is no thread's stack
pub const RA_THREAD: u64 = 0x400300;
pub const RA_OTHER: u64 = 0x400200;
pub const OTHER_REGION: u64 = 0x20000;
pub fn thread_ip(spot: &str, k: usize) -> u64 {
    match spot { "mod" => 0x400100 + k as u64, "unl" => 0x600100 + k as u64, "unl2" => 0x600900 + k as u64, _ => 0x700000 + k as u64 }
}
pub fn addr_val(class: &str, base: u64) -> u64 { if class == "hi" { 0xffff_ffff_8000_0000 | base } else { base } }
pub fn from_processor_case(c: &serde_json::Value) -> DumpSpec {
    let os = c["plat"][0].as_str().unwrap();
        let cpu = c["plat"][1].as_str().unwrap();
        let mut spec = DumpSpec { os: os.into(), cpu: cpu.into(), ..DumpSpec::default() };
        for (k, t) in c["threads"].as_array().unwrap().iter().enumerate() {
            let id = t["id"].as_u64().unwrap() as u32;
            spec.threads.push(ThreadSpec { id, ctx_ok: t["ctxOk"].as_bool().unwrap(), name: if t["named"] == "no" { None } else { Some(format!("T{}", id)) },
                                           ip: thread_ip(t["spot"].as_str().unwrap(), k), sp: if t["stk"] == "other" { OTHER_REGION } else { 0x10000 + 0x100 * k as u64 }, stack_base: 0x10000 + 0x100 * k as u64, stack: { let mut v = RA_THREAD.to_le_bytes().to_vec(); v.extend_from_slice(&[0u8; 8]); v } });
        }
        let e = &c["exc"];
        if e["k"] == "some" {
            let code = match e["code"].as_str().unwrap() { "av" => 0xC000_0005u32, "inpage" => 0xC000_0006, _ => 0xC000_001D };
            let mut info = [0u64; 15];
            info[0] = e["kind"].as_u64().unwrap();
            info[1] = addr_val(e["info1"].as_str().unwrap(), 0x1000);
            info[2] = 0xC000_009A;
            spec.exception = Some(ExcSpec { tid: e["tid"].as_u64().unwrap() as u32, has_ctx: e["hasCtx"].as_bool().unwrap(), ctx_ok: e["ctxOk"].as_bool().unwrap(), ctx_ip: EXC_IP, ctx_sp: match e["sp"].as_str().unwrap_or("thread") { "other" => OTHER_REGION, "nowhere" => 0x30000, _ => 0x10000 },
                                            code, flags: 0, address: addr_val(e["addr"].as_str().unwrap(), EXC_IP), nparams: e["np"].as_u64().unwrap() as u32, info, ctx_patch: vec![] });
        }
        if c["bp"]["k"] == "some" {
            let f = |v: u64| if v == 0 { None } else { Some(v as u32) };
            spec.breakpad = Some((f(c["bp"]["dump"].as_u64().unwrap()), f(c["bp"]["req"].as_u64().unwrap())));
        }
        spec.misc_pid = match c["misc"].as_str().unwrap() { "pid" | "pid_times" => Some(Some(4242)), "nopid" | "nopid_times" => Some(None), _ => None };
        if matches!(c["misc"].as_str().unwrap(), "pid_times" | "nopid_times") { spec.misc_create_time = Some(1_600_000_000); }
        if c["status"] == "pid" { spec.proc_status = Some("Name:\tx\nPid:\t777\n".into()); }
        spec.extra_memory.push((OTHER_REGION, { let mut v = RA_OTHER.to_le_bytes().to_vec(); v.extend_from_slice(&[0u8; 8]); v }));
        // mtop ends exactly at the top of the address space (base + size = 2^64): it is a module like any other
        spec.modules = vec![ModuleSpec { base: 0x400000, size: 0x1000, name: "m1".into() }, ModuleSpec { base: 0xffff_ffff_ffff_0000, size: 0x1_0000, name: "mtop".into() }];
        // u3 covers none of the probed addresses but sorts between u1 and u2
        spec.unloaded = vec![ModuleSpec { base: 0x600000, size: 0x1000, name: "u1".into() }, ModuleSpec { base: 0x600800, size: 0x1000, name: "u2".into() },
                             ModuleSpec { base: 0x600400, size: 0x100, name: "u3".into() }];
        spec
}
