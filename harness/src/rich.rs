//! Rich, valid template dumps for C01/C02: every one of the 24 stream types, all nine CPU context layouts, both
//! byte orders.  Built with the FROZEN writer (vendor/vf-synth) plus hand-placed raw sections for what it lacks.
use scroll::ctx::SizeWith;
use test_assembler::{Endian, Section};
use vf_common::format as fmt;
use vf_synth as synth;
use vf_synth::DumpSection;

fn se(endian: Endian) -> scroll::Endian {
    if matches!(endian, Endian::Big) { scroll::Endian::Big } else { scroll::Endian::Little }
}

/// Size, offset of the flags word, width of the flags word and CPU flag of each context layout.
pub fn context_shape(cpu: &str, endian: Endian) -> (usize, usize, usize, u64) {
    let e = se(endian);
    match cpu {
        "x86" => (fmt::CONTEXT_X86::size_with(&e), 0, 4, 0x10000 | 0x1 | 0x2),
        "amd64" => (fmt::CONTEXT_AMD64::size_with(&e), 0x30, 4, 0x100000 | 0x1 | 0x2),
        "arm" => (fmt::CONTEXT_ARM::size_with(&e), 0, 4, 0x4000_0000 | 0x2),
        "arm64" => (fmt::CONTEXT_ARM64::size_with(&e), 0, 4, 0x40_0000 | 0x1 | 0x2),
        "arm64old" => (fmt::CONTEXT_ARM64_OLD::size_with(&e), 0, 8, 0x8000_0000 | 0x2),
        "ppc" => (fmt::CONTEXT_PPC::size_with(&e), 0, 4, 0x2000_0000 | 0x1),
        "ppc64" => (fmt::CONTEXT_PPC64::size_with(&e), 0, 8, 0x100_0000 | 0x1),
        "sparc" => (fmt::CONTEXT_SPARC::size_with(&e), 0, 4, 0x1000_0000 | 0x1),
        "mips" => (fmt::CONTEXT_MIPS::size_with(&e), 0, 4, 0x4_0000 | 0x2),
        "mips64" => (fmt::CONTEXT_MIPS::size_with(&e), 0, 4, 0x8_0000 | 0x2),
        _ => (64, 0, 4, 0),
    }
}

/// A context of the right size for `cpu`, flags set, every other byte a position-dependent pattern.
pub fn any_context(endian: Endian, cpu: &str, salt: u8) -> Section {
    let (size, off, width, flag) = context_shape(cpu, endian);
    let mut bytes: Vec<u8> = (0..size).map(|i| (i as u8).wrapping_mul(7).wrapping_add(salt)).collect();
    let f: Vec<u8> = if width == 8 {
        if matches!(endian, Endian::Big) { flag.to_be_bytes().to_vec() } else { flag.to_le_bytes().to_vec() }
    } else if matches!(endian, Endian::Big) { (flag as u32).to_be_bytes().to_vec() } else { (flag as u32).to_le_bytes().to_vec() };
    bytes[off..off + width].copy_from_slice(&f);
    Section::with_endian(endian).append_bytes(&bytes)
}

fn utf16_fixed(endian: Endian, s: &str, units: usize) -> Section {
    let mut sec = Section::with_endian(endian);
    let mut v: Vec<u16> = s.encode_utf16().collect();
    v.resize(units, 0);
    for u in v {
        sec = sec.D16(u);
    }
    sec
}

#[derive(Clone, Debug)]
pub struct StreamAt {
    pub stream_type: u32,
    pub rva: usize,
    pub size: usize,
    pub dir_entry_at: usize,
}

/// (stream_count, directory rva, streams) of a well-formed dump, read with plain byte arithmetic.
pub fn layout(bytes: &[u8]) -> (usize, usize, Vec<StreamAt>) {
    let big = &bytes[0..4] == b"PMDM";
    let rd = |at: usize| -> u32 {
        let b: [u8; 4] = bytes[at..at + 4].try_into().unwrap();
        if big { u32::from_be_bytes(b) } else { u32::from_le_bytes(b) }
    };
    let count = rd(8) as usize;
    let dir = rd(12) as usize;
    let mut v = vec![];
    for i in 0..count {
        let at = dir + 12 * i;
        v.push(StreamAt { stream_type: rd(at), size: rd(at + 4) as usize, rva: rd(at + 8) as usize, dir_entry_at: at });
    }
    (count, dir, v)
}

pub const FLAVOURS: [&str; 10] = ["windows-x86", "linux-amd64", "mac-arm64", "android-arm", "linux-ppc", "linux-ppc64", "linux-sparc", "linux-mips", "ios-arm64old", "windows-amd64-small"];

pub fn template(flavour: &str, big: bool) -> Vec<u8> {
    let endian = if big { Endian::Big } else { Endian::Little };
    let (os, cpu) = flavour.split_once('-').unwrap();
    let cpu = cpu.trim_end_matches("-small");
    let small = flavour.ends_with("-small");
    let mut d = synth::SynthMinidump::with_endian(endian);
    // ---- system info with a CSD string
    let csd = synth::DumpString::new("Service Pack 9 \u{1f980}", endian);
    let mut si = synth::SystemInfo::new(endian);
    si.processor_architecture = crate::dumpgen::arch_id(cpu);
    si.platform_id = crate::dumpgen::platform_id(os);
    si.major_version = 10;
    si.minor_version = 2;
    si.build_number = 19041;
    si.number_of_processors = 8;
    // the frozen writer takes the CSD rva as a number: filled in by patching after the layout is known (see below)
    d = d.add_system_info(si).add(csd);
    // ---- threads, names
    let nthreads = if small { 1 } else { 3 };
    for k in 0..nthreads {
        let stack_bytes: Vec<u8> = (0..(96 + 8 * k)).map(|i| (i * 3 + k) as u8).collect();
        let stack = synth::Memory::with_section(Section::with_endian(endian).append_bytes(&stack_bytes), 0x7ffe_0000 + 0x1000 * k as u64);
        let ctx = any_context(endian, cpu, k as u8);
        let th = synth::Thread::new(endian, 100 + k as u32, &stack, &ctx);
        d = d.add_thread(th).add(ctx).add_memory(stack);
        let name = synth::DumpString::new(&format!("worker-{}-\u{1d11e}", k), endian);
        d = d.add_thread_name(synth::ThreadName::new(endian, 100 + k as u32, Some(&name))).add(name);
    }
    // ---- modules
    let name1 = synth::DumpString::new(if os == "windows" { "C:\\app\\main.exe" } else { "/usr/bin/main" }, endian);
    let cv1 = if os == "windows" {
        Section::with_endian(endian).D32(0x5344_5352).D32(0x0a0b_0c0d).D16(0x0102).D16(0x0304).append_bytes(&[1, 2, 3, 4, 5, 6, 7, 8]).D32(3).append_bytes(b"main.pdb\0")
    } else {
        Section::with_endian(endian).D32(0x4270_454c).append_bytes(&[0x11, 0x22, 0x33, 0x44, 0x55, 0x66, 0x77, 0x88, 0x99, 0xaa, 0xbb, 0xcc, 0xdd, 0xee, 0xff, 0x01, 0x02, 0x03, 0x04, 0x05])
    };
    let misc1 = Section::with_endian(endian).D32(1).D32(24).D8(0).append_bytes(&[0, 0, 0]).append_bytes(b"main.dbg\0\0\0\0");
    let m1 = synth::Module::new(endian, 0x40_0000, 0x2_0000, &name1, 0x5a5a_5a5a, 0x1234, None).cv_record(&cv1).misc_record(&misc1);
    d = d.add_module(m1).add(name1).add(cv1).add(misc1);
    if !small {
        let name2 = synth::DumpString::new("libtop.so", endian);
        let cv2 = Section::with_endian(endian).D32(0x3031_424e).D32(0).D32(0x4455_6677).D32(2).append_bytes(b"libtop.pdb\0");
        let m2 = synth::Module::new(endian, 0xffff_ffff_fffe_0000, 0x1_0000, &name2, 0x1111_2222, 0, None).cv_record(&cv2);
        d = d.add_module(m2).add(name2).add(cv2);
        let name3 = synth::DumpString::new("nocv.dll", endian);
        d = d.add_module(synth::Module::new(endian, 0x50_0000, 0x1000, &name3, 0x3333_4444, 0, None)).add(name3);
        let un = synth::DumpString::new("gone.dll", endian);
        d = d.add_unloaded_module(synth::UnloadedModule::new(endian, 0x60_0000, 0x3000, &un, 0x5a5a_5a5a, 7)).add(un);
        let un2 = synth::DumpString::new("gone2.dll", endian);
        d = d.add_unloaded_module(synth::UnloadedModule::new(endian, 0x60_1000, 0x3000, &un2, 0x5a5a_5a5b, 8)).add(un2);
    }
    // ---- memory: 32-bit list for the stacks above, plus (not small) a 64-bit list, memory info
    if !small {
        let m = synth::Memory::with_section(Section::with_endian(endian).append_bytes(&[0xabu8; 40]), 0xffff_ffff_ffff_ff00);
        d = d.add_memory(m);
        if os != "windows" {
            let m64a = synth::Memory::with_section(Section::with_endian(endian).append_bytes(&[0x5au8; 64]), 0x1_0000_0000);
            let m64b = synth::Memory::with_section(Section::with_endian(endian).append_bytes(&[0xa5u8; 24]), 0x2_0000_0000);
            d = d.add_memory64(m64a).add_memory64(m64b);
        }
        d = d.add_memory_info(synth::MemoryInfo::new(endian, 0x40_0000, 0x40_0000, 0x20, 0x2_0000, 0x1000, 0x20, 0x100_0000));
        d = d.add_memory_info(synth::MemoryInfo::new(endian, 0x7ffe_0000, 0x7ffe_0000, 0x04, 0x3000, 0x1000, 0x04, 0x2_0000));
        d = d.add_memory_info(synth::MemoryInfo::new(endian, 0xffff_ffff_ffff_0000, 0xffff_ffff_ffff_0000, 0x02, 0x1_0000, 0x1000, 0x02, 0x2_0000));
    }
    // ---- exception (context attached in a second pass: needs its own file offset)
    // handled by the caller through `with_exception`
    // ---- misc info
    let mut misc = synth::MiscStream::new(endian);
    misc.process_id = Some(4242);
    misc.process_times = Some(synth::MiscFieldsProcessTimes { process_create_time: 1_600_000_000, process_user_time: 7, process_kernel_time: 9 });
    if !small {
        misc.power_info = Some(synth::MiscFieldsPowerInfo { processor_max_mhz: 3000, processor_current_mhz: 2800, processor_mhz_limit: 3000, processor_max_idle_state: 2, processor_current_idle_state: 1 });
        misc.process_integrity_level = Some(0x2000);
        misc.process_execute_flags = Some(1);
        misc.protected_process = Some(0);
        // valid transition dates, so that printing them goes all the way (a zeroed SYSTEMTIME is "<invalid date>")
        let mut tz = synth::MiscFieldsTimeZone::default();
        tz.time_zone_id = 2;
        tz.time_zone.bias = 480;
        tz.time_zone.standard_date = vf_common::format::SYSTEMTIME { year: 2021, month: 11, day_of_week: 0, day: 7, hour: 2, minute: 0, second: 0, milliseconds: 0 };
        tz.time_zone.daylight_date = vf_common::format::SYSTEMTIME { year: 2021, month: 3, day_of_week: 0, day: 14, hour: 2, minute: 0, second: 0, milliseconds: 0 };
        tz.time_zone.daylight_bias = -60;
        misc.time_zone = Some(tz);
        let mut bs = synth::MiscFieldsBuildString::default();
        for (i, u) in "19041.1.amd64fre".encode_utf16().enumerate() {
            bs.build_string[i] = u;
        }
        misc.build_strings = Some(bs);
    }
    d = d.add_stream(misc);
    // ---- breakpad info, assertion
    d = d.add_stream(synth::SimpleStream { stream_type: 0x4767_0001, section: Section::with_endian(endian).D32(3).D32(100).D32(101) });
    if !small {
        let a = utf16_fixed(endian, "x != nullptr", 128).append_section(utf16_fixed(endian, "frob()", 128)).append_section(utf16_fixed(endian, "frob.cc", 128)).D32(42).D32(1);
        d = d.add_stream(synth::SimpleStream { stream_type: 0x4767_0002, section: a });
        // ---- thread info list (extended list header)
        let mut t = Section::with_endian(endian).D32(12).D32(64).D32(2);
        for k in 0..2u64 {
            t = t.D32(100 + k as u32).D32(0).D32(0).D32(0).D64(0x01d6_0000_0000_0000 + k).D64(0).D64(1000 * k).D64(2000 * k).D64(0x40_1000 + k).D64(0xff);
        }
        d = d.add_stream(synth::SimpleStream { stream_type: 17, section: t });
        // ---- handle data, version 2 descriptors with an object-information chain
        let tn = synth::DumpString::new("Event", endian);
        let on = synth::DumpString::new("\\BaseNamedObjects\\x", endian);
        let info2 = Section::with_endian(endian).D32(0).D32(3).D32(4).D32(0xdead_beef);
        let info1 = Section::with_endian(endian).D32(info2.file_offset()).D32(1).D32(0);
        let h = Section::with_endian(endian).D32(16).D32(40).D32(2).D32(0)
            .D64(0x44).D32(tn.file_offset()).D32(on.file_offset()).D32(1).D32(0x1f_0003).D32(2).D32(3).D32(info1.file_offset()).D32(0)
            .D64(0x48).D32(0).D32(0).D32(0).D32(0).D32(1).D32(1).D32(0).D32(0);
        d = d.add_stream(synth::SimpleStream { stream_type: 12, section: h }).add(tn).add(on).add(info1).add(info2);
        // ---- crashpad info
        let module = synth::ModuleCrashpadInfo::new(0, endian).add_list_annotation("list-a").add_list_annotation("list-b").add_simple_annotation("mk", "mv")
            .add_annotation_object("obj-s", synth::AnnotationValue::String("value".into())).add_annotation_object("obj-c", synth::AnnotationValue::Custom(7, vec![1, 2, 3]))
            .add_annotation_object("obj-i", synth::AnnotationValue::Invalid);
        let cp = synth::CrashpadInfo::new(endian).add_simple_annotation("k1", "v1").add_simple_annotation("k2", "v2").add_module(module);
        d = d.add_crashpad_info(cp);
    }
    // ---- Linux text streams
    if matches!(os, "linux" | "android") || !small {
        d = d.set_linux_maps(b"00400000-00420000 r-xp 00000000 08:01 123 /usr/bin/main\n7ffe0000-7ffe3000 rw-p 00000000 00:00 0 [stack]\nffffffffffff0000-ffffffffffffffff r--p 00000000 00:00 0 \n");
        d = d.set_linux_lsb_release(b"DISTRIB_ID=\"Ubuntu\"\nDISTRIB_RELEASE=20.04\nDISTRIB_DESCRIPTION=\"Ubuntu 20.04\"\n");
        d = d.set_linux_proc_status(b"Name:\tmain\nPid:\t4242\nThreads:\t3\n");
        d = d.set_linux_proc_limits(b"Limit                     Soft Limit           Hard Limit           Units     \nMax cpu time              unlimited            unlimited            seconds   \nMax open files            1024                 4096                 files     \n");
        d = d.set_linux_cpu_info(b"processor\t: 0\nvendor_id\t: GenuineIntel\nmodel name\t: \"Some CPU\"\nmicrocode\t: 0xea\n\nprocessor\t: 1\n");
        d = d.set_linux_environ(b"HOME=/root\0PATH=\"/usr/bin\"\0EMPTY=\0");
        d = d.set_soft_errors("[{\"StopInitOnError\": \"x\"}]");
        d = d.add_stream(synth::SimpleStream { stream_type: 0x4767_0006, section: Section::with_endian(endian).append_bytes(b"/usr/bin/main\0--flag\0") });
    }
    // ---- macOS streams
    if matches!(os, "mac" | "ios") || !small {
        let mut rec = Section::with_endian(endian).D64(0x4d7a_0001).D64(5).D64(77).D64(0).D64(3);
        for s in ["/usr/lib/x.dylib", "message one", "sig", "bt", "message two"] {
            rec = rec.append_bytes(s.as_bytes()).D8(0);
        }
        let mut head = Section::with_endian(endian).D32(0x4d7a_0001).D32(1).D32(40).D32(rec.file_size()).D32(rec.file_offset());
        for _ in 0..19 {
            head = head.D32(0).D32(0);
        }
        d = d.add_stream(synth::SimpleStream { stream_type: 0x4d7a_0001, section: head }).add(rec);
        let ba = synth::DumpString::new("-v keepsyms=1", endian);
        let b = Section::with_endian(endian).D32(0x4d7a_0002).D64(ba.file_offset());
        d = d.add_stream(synth::SimpleStream { stream_type: 0x4d7a_0002, section: b }).add(ba);
    }
    let mut out = d.finish().expect("template");
    // the system-info CSD rva (the frozen writer takes it as a number, so it is patched in once the layout is known)
    let needle: Vec<u8> = "Service Pack 9".encode_utf16().flat_map(|u| if big { u.to_be_bytes() } else { u.to_le_bytes() }).collect();
    let at = out.windows(needle.len()).position(|w| w == &needle[..]).expect("csd string") - 4;
    let (_, _, streams) = layout(&out);
    let si = streams.iter().find(|s| s.stream_type == 7).expect("system info");
    let b = if big { (at as u32).to_be_bytes() } else { (at as u32).to_le_bytes() };
    out[si.rva + 24..si.rva + 28].copy_from_slice(&b);
    out
}

/// The template plus an exception stream whose context is a real context of the dump's CPU.
pub fn template_with_exception(flavour: &str, big: bool, nparams: u32) -> Vec<u8> {
    // an exception stream is a fixed struct with a location descriptor: append it and its context at the end of the
    // finished template, adding one directory entry (the directory is moved to the end as well)
    let base = template(flavour, big);
    let endian = if big { Endian::Big } else { Endian::Little };
    let (_, cpu) = flavour.split_once('-').unwrap();
    let cpu = cpu.trim_end_matches("-small");
    let (count, dir, _streams) = layout(&base);
    let ctx = any_context(endian, cpu, 0x33).get_contents().unwrap();
    let mut out = base.clone();
    while out.len() % 8 != 0 {
        out.push(0);
    }
    let ctx_at = out.len();
    out.extend_from_slice(&ctx);
    let exc_at = out.len();
    let mut e = Section::with_endian(endian).D32(101).D32(0).D32(0xC000_0005).D32(0).D64(0).D64(0x40_1234).D32(nparams).D32(0);
    for i in 0..15u64 {
        e = e.D64(if i == 0 { 1 } else { 0x1000 + i });
    }
    e = e.D32(ctx.len() as u32).D32(ctx_at as u32);
    let eb = e.get_contents().unwrap();
    out.extend_from_slice(&eb);
    let new_dir = out.len();
    out.extend_from_slice(&base[dir..dir + 12 * count]);
    out.extend_from_slice(&Section::with_endian(endian).D32(6).D32(eb.len() as u32).D32(exc_at as u32).get_contents().unwrap());
    let put = |out: &mut Vec<u8>, at: usize, v: u32| {
        let b = if big { v.to_be_bytes() } else { v.to_le_bytes() };
        out[at..at + 4].copy_from_slice(&b);
    };
    put(&mut out, 8, (count + 1) as u32);
    put(&mut out, 12, new_dir as u32);
    out
}
