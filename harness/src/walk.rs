//! Materialise an abstract stack-walk instance (register context, stack words, modules, symbol text) as real
//! minidump objects, run the real `minidump_unwind::walk_stack`, and project the resulting frames.
//! Projections use only public, alias-aware accessors.
use minidump::system_info::{Cpu, Os};
use minidump::*;
use minidump_common::format as md;
use minidump_unwind::{string_symbol_supplier, walk_stack, CallStack, FrameTrust, SymbolProvider, Symbolizer, SystemInfo};
use std::collections::{BTreeMap, HashMap, HashSet};
use std::future::Future;
use std::pin::Pin;
use std::sync::atomic::{AtomicU64, Ordering};
use std::sync::Arc;
use std::task::{Context, Poll, Wake, Waker};

#[derive(Clone, Copy, Debug, PartialEq, Eq)]
pub enum Arch { Amd64, X86, Arm64, Arm64Old, Arm, Mips, Mips64 }

pub struct WalkInput {
    pub arch: Arch,
    pub os: Os,
    /// register name -> value for the context frame (others are 0)
    pub regs: Vec<(String, u64)>,
    /// None = MinidumpContextValidity::All
    pub valid: Option<Vec<String>>,
    pub stack_base: u64,
    pub stack_bytes: Vec<u8>,
    pub modules: Vec<(String, u64, u32)>,
    pub symbols: HashMap<String, String>,
    /// registers to report per frame
    pub track: Vec<&'static str>,
    /// stop (and flag) after this many frames: an unbounded walk is observed, not waited for
    pub frame_cap: usize,
}

#[derive(Debug, Clone, PartialEq)]
pub struct FrameObs {
    pub ip: u64,
    pub instr: u64,
    pub sp: u64,
    pub regs: BTreeMap<String, Option<u64>>,
    pub trust: &'static str,
    pub module: Option<String>,
    pub function: Option<String>,
    pub psize: Option<u32>,
    pub fbase: Option<u64>,
}
pub struct WalkObs { pub frames: Vec<FrameObs>, pub capped: bool, pub fill_calls: u64 }

struct NoopWake;
impl Wake for NoopWake { fn wake(self: Arc<Self>) {} }
/// The walk never really suspends (in-memory symbols): poll to completion.
pub fn block_on<F: Future>(mut f: Pin<Box<F>>) -> F::Output {
    let waker = Waker::from(Arc::new(NoopWake));
    let mut cx = Context::from_waker(&waker);
    loop {
        if let Poll::Ready(v) = f.as_mut().poll(&mut cx) { return v; }
    }
}

pub fn cpu_of(a: Arch) -> Cpu {
    match a { Arch::Amd64 => Cpu::X86_64, Arch::X86 => Cpu::X86, Arch::Arm64 | Arch::Arm64Old => Cpu::Arm64, Arch::Arm => Cpu::Arm, Arch::Mips => Cpu::Mips, Arch::Mips64 => Cpu::Mips64 }
}

fn zeroed<'a, T: scroll::ctx::TryFromCtx<'a, scroll::Endian, [u8], Error = scroll::Error>>() -> T {
    use scroll::Pread;
    static ZEROS: [u8; 4096] = [0; 4096];
    ZEROS.pread_with::<T>(0, scroll::LE).expect("zero context")
}

pub fn make_context(arch: Arch, regs: &[(String, u64)], valid: &Option<Vec<String>>) -> MinidumpContext {
    let mut raw = match arch {
        Arch::Amd64 => MinidumpRawContext::Amd64(md::CONTEXT_AMD64::default()),
        Arch::X86 => MinidumpRawContext::X86(md::CONTEXT_X86::default()),
        Arch::Arm64 => MinidumpRawContext::Arm64(md::CONTEXT_ARM64::default()),
        Arch::Arm64Old => MinidumpRawContext::OldArm64(md::CONTEXT_ARM64_OLD::default()),
        Arch::Arm => MinidumpRawContext::Arm(md::CONTEXT_ARM::default()),
        Arch::Mips => MinidumpRawContext::Mips(zeroed::<md::CONTEXT_MIPS>()),
        Arch::Mips64 => {
            let mut c = zeroed::<md::CONTEXT_MIPS>();
            c.context_flags = 0x8_0000; // CONTEXT_MIPS64: selects the 64-bit walker
            MinidumpRawContext::Mips(c)
        }
    };
    for (n, v) in regs {
        let ok = match &mut raw {
            MinidumpRawContext::Amd64(c) => c.set_register(n, *v),
            MinidumpRawContext::X86(c) => c.set_register(n, *v as u32),
            MinidumpRawContext::Arm64(c) => c.set_register(n, *v),
            MinidumpRawContext::OldArm64(c) => c.set_register(n, *v),
            MinidumpRawContext::Arm(c) => c.set_register(n, *v as u32),
            MinidumpRawContext::Mips(c) => c.set_register(n, *v),
            _ => None,
        };
        assert!(ok.is_some(), "unknown register {} for {:?}", n, arch);
    }
    let probe = MinidumpContext::from_raw(raw.clone());
    let validity = match valid {
        None => MinidumpContextValidity::All,
        Some(names) => {
            let set: HashSet<&'static str> = names.iter().map(|n| {
                // memoize to the static canonical name, as the unwinders do
                probe.general_purpose_registers().iter().copied().find(|r| r == n).unwrap_or_else(|| Box::leak(n.clone().into_boxed_str()))
            }).collect();
            MinidumpContextValidity::Some(set)
        }
    };
    MinidumpContext { raw, valid: validity }
}

/// Wraps the real symbol provider and counts fill_symbol calls (one per produced frame).
struct Counting<P> { inner: P, fills: AtomicU64 }
#[async_trait::async_trait]
impl<P: SymbolProvider + Sync + Send> SymbolProvider for Counting<P> {
    async fn fill_symbol(&self, module: &(dyn Module + Sync), frame: &mut (dyn minidump_unwind::FrameSymbolizer + Send)) -> Result<(), minidump_unwind::FillSymbolError> {
        self.fills.fetch_add(1, Ordering::SeqCst);
        self.inner.fill_symbol(module, frame).await
    }
    async fn walk_frame(&self, module: &(dyn Module + Sync), walker: &mut (dyn minidump_unwind::FrameWalker + Send)) -> Option<()> {
        self.inner.walk_frame(module, walker).await
    }
    async fn get_file_path(&self, module: &(dyn Module + Sync), kind: minidump_unwind::FileKind) -> Result<std::path::PathBuf, minidump_unwind::FileError> {
        self.inner.get_file_path(module, kind).await
    }
}

pub fn trust_str(t: FrameTrust) -> &'static str { t.as_str() }

pub fn run_walk(inp: &WalkInput) -> WalkObs {
    let context = make_context(inp.arch, &inp.regs, &inp.valid);
    let modules = MinidumpModuleList::from_modules(inp.modules.iter().map(|(n, b, s)| MinidumpModule::new(*b, *s, n)).collect());
    let system_info = SystemInfo { os: inp.os, os_version: None, os_build: None, cpu: cpu_of(inp.arch), cpu_info: None, cpu_microcode_version: None, cpu_count: 1 };
    let mem = MinidumpMemory { desc: Default::default(), base_address: inp.stack_base, size: inp.stack_bytes.len() as u64, bytes: &inp.stack_bytes, endian: scroll::LE };
    let provider = Counting { inner: Symbolizer::new(string_symbol_supplier(inp.symbols.clone())), fills: AtomicU64::new(0) };
    let mut stack = CallStack::with_context(context);
    let cap = inp.frame_cap;
    let capped = Arc::new(std::sync::atomic::AtomicBool::new(false));
    let capped2 = capped.clone();
    // an unbounded walk is cut by panicking out of the per-frame callback; the panic is caught by the caller's guard
    let res = std::panic::catch_unwind(std::panic::AssertUnwindSafe(|| {
        block_on(Box::pin(walk_stack(0, move |idx: usize, _f: &minidump_unwind::StackFrame| { if idx + 1 >= cap { capped2.store(true, Ordering::SeqCst); panic!("VERIF frame cap"); } },
                                     &mut stack, Some(UnifiedMemory::Memory(&mem)), &modules, &system_info, &provider)));
    }));
    let was_capped = capped.load(Ordering::SeqCst);
    if res.is_err() && !was_capped {
        std::panic::resume_unwind(Box::new(crate::last_panic()));
    }
    let frames = stack.frames.iter().map(|f| {
        let mut regs = BTreeMap::new();
        for r in &inp.track { regs.insert(r.to_string(), f.context.get_register(r)); }
        FrameObs { ip: f.resume_address, instr: f.instruction, sp: f.context.get_stack_pointer(), regs, trust: trust_str(f.trust),
                   module: f.module.as_ref().map(|m| m.name.clone()), function: f.function_name.clone(), psize: f.parameter_size, fbase: f.function_base }
    }).collect();
    WalkObs { frames, capped: was_capped, fill_calls: provider.fills.load(Ordering::SeqCst) }
}

pub fn words_to_bytes(words: &[u64], word: usize) -> Vec<u8> {
    let mut v = Vec::with_capacity(words.len() * word);
    for w in words {
        if word == 8 { v.extend_from_slice(&w.to_le_bytes()); } else { v.extend_from_slice(&(*w as u32).to_le_bytes()); }
    }
    v
}

pub struct ArchSpec { pub arch: Arch, pub word: usize, pub adj: u64, pub leaf: u8, pub ip: &'static str, pub sp: &'static str, pub fp: &'static str, pub track: Vec<&'static str> }
pub fn arch_spec(name: &str) -> ArchSpec {
    match name {
        "amd64" => ArchSpec { arch: Arch::Amd64, word: 8, adj: 1, leaf: 0, ip: "rip", sp: "rsp", fp: "rbp", track: vec!["rbp"] },
        "x86" => ArchSpec { arch: Arch::X86, word: 4, adj: 1, leaf: 0, ip: "eip", sp: "esp", fp: "ebp", track: vec!["ebp", "ebx", "esi", "edi"] },
        "arm64" => ArchSpec { arch: Arch::Arm64, word: 8, adj: 4, leaf: 1, ip: "pc", sp: "sp", fp: "fp", track: vec!["fp", "lr"] },
        "arm64old" => ArchSpec { arch: Arch::Arm64Old, word: 8, adj: 4, leaf: 1, ip: "pc", sp: "sp", fp: "fp", track: vec!["fp", "lr"] },
        "arm" => ArchSpec { arch: Arch::Arm, word: 4, adj: 2, leaf: 1, ip: "pc", sp: "sp", fp: "fp", track: vec!["fp", "lr"] },
        "mips" => ArchSpec { arch: Arch::Mips, word: 4, adj: 8, leaf: 1, ip: "pc", sp: "sp", fp: "fp", track: vec!["fp", "ra"] },
        "mips64" => ArchSpec { arch: Arch::Mips64, word: 8, adj: 8, leaf: 1, ip: "pc", sp: "sp", fp: "fp", track: vec!["fp", "ra"] },
        _ => panic!("arch {}", name),
    }
}
pub fn obs_record(spec: &ArchSpec, inp: &WalkInput, words: &[u64], obs: Result<WalkObs, String>, ctx_ip: u64) -> serde_json::Value {
    let modinfo = |name: &Option<String>| -> serde_json::Value {
        match name.as_ref().and_then(|n| inp.modules.iter().find(|m| &m.0 == n)) {
            Some(m) => serde_json::json!({"has": 1, "base": crate::limbs_json(m.1, 4), "size": crate::limbs_json(m.2 as u64, 4)}),
            None => serde_json::json!({"has": 0, "base": crate::limbs_json(0, 4), "size": crate::limbs_json(0, 4)}),
        }
    };
    match obs {
        Err(p) => serde_json::json!({"panic": 1, "panic_msg": p, "ptr": spec.word, "adj": spec.adj, "leaf": spec.leaf, "ctx_ip": crate::limbs_json(ctx_ip, 4), "base": crate::limbs_json(inp.stack_base, 4),
                         "words": [], "nbytes": inp.stack_bytes.len(), "frames": [], "capped": 0}),
        Ok(o) => {
            let frames: Vec<serde_json::Value> = o.frames.iter().map(|f| serde_json::json!({"ip": crate::limbs_json(f.ip, 4), "instr": crate::limbs_json(f.instr, 4), "sp": crate::limbs_json(f.sp, 4), "trust": f.trust,
                "mod": modinfo(&f.module), "fn": {"has": if f.function.is_some() { 1 } else { 0 }, "base": crate::limbs_json(f.fbase.unwrap_or(0), 4)}})).collect();
            serde_json::json!({"panic": 0, "panic_msg": "", "ptr": spec.word, "adj": spec.adj, "leaf": spec.leaf, "ctx_ip": crate::limbs_json(ctx_ip, 4), "base": crate::limbs_json(inp.stack_base, 4),
                   "words": words.iter().map(|w| crate::limbs_json(*w, 4)).collect::<Vec<_>>(), "nbytes": inp.stack_bytes.len(), "frames": frames, "capped": if o.capped { 1 } else { 0 }})
        }
    }
}

