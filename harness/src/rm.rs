//! C08 bindings: build each kind of address-range table of the real crates from a list of
//! (base, size, value) entries and observe its by-address listing and lookups.
//! Pure plumbing: no range arithmetic is done here except what is needed to render inputs.
use crate::{guarded, limbs_json};
use breakpad_symbols::SymbolFile;
use minidump::*;
use minidump_common::traits::IntoRangeMapSafe;
use range_map::Range;
use serde_json::{json, Value};
use vf_synth as synth;

#[derive(Clone, Debug)]
pub struct Entry {
    pub base: u64,
    pub size: u64,
    pub val: u64, // positive tag
}

/// What the real table looked like: listing entries as (base, size, tag) or (start, end, tag) and probe hits.
#[derive(Debug, Default, Clone, PartialEq)]
pub struct Obs {
    pub listing: Vec<(u64, u64, u64)>, // (start, end_inclusive, tag) as reported by the table's own ranges, or (base,size,tag) when `listing_bs`
    pub listing_bs: bool,
    pub probes: Vec<(u64, Vec<u64>)>,
    pub multi: bool,
    pub panic: Option<String>,
}

pub const BINDINGS: [&str; 15] = [
    "trait", "modules", "unloaded", "memory", "memory64", "meminfo", "maps", "dump_modules", "func", "lines", "cfi", "win_fd", "win_fpo",
    "unified_meminfo", "unified_maps",
];

/// The documented range of an entry as an Option<Range> -- used ONLY to feed the generic trait directly
/// (binding "trait"), where the caller supplies ranges; all other bindings go through the crate's own constructors.
fn doc_range(e: &Entry) -> Option<Range<u64>> {
    if e.size == 0 {
        return None;
    }
    e.base.checked_add(e.size - 1).map(|end| Range::new(e.base, end))
}

pub fn fits(binding: &str, entries: &[Entry]) -> bool {
    match binding {
        "trait" | "memory" | "memory64" | "meminfo" | "maps" | "unified_meminfo" | "unified_maps" => true,
        _ => entries.iter().all(|e| e.size <= u32::MAX as u64),
    }
}

pub fn observe(binding: &str, entries: &[Entry], probes: &[u64]) -> Obs {
    let r = guarded(|| observe_inner(binding, entries, probes));
    match r {
        Ok(o) => o,
        Err(p) => Obs { panic: Some(p), multi: binding == "unloaded", ..Obs::default() },
    }
}

fn sym_obs<V: Clone + std::fmt::Debug + Eq>(map: &range_map::RangeMap<u64, V>, probes: &[u64], tag: impl Fn(&V) -> u64) -> Obs {
    let mut o = Obs::default();
    for (r, v) in map.ranges_values() {
        o.listing.push((r.start, r.end, tag(v)));
    }
    for &a in probes {
        o.probes.push((a, map.get(a).map(|v| vec![tag(v)]).unwrap_or_default()));
    }
    o
}

fn observe_inner(binding: &str, entries: &[Entry], probes: &[u64]) -> Obs {
    let mut o = Obs::default();
    match binding {
        "trait" => {
            let map = entries.iter().map(|e| (doc_range(e), e.val)).collect::<Vec<_>>().into_rangemap_safe();
            return sym_obs(&map, probes, |v| *v);
        }
        "modules" => {
            let list = MinidumpModuleList::from_modules(
                entries.iter().map(|e| MinidumpModule::new(e.base, e.size as u32, &format!("m{}", e.val))).collect(),
            );
            let tag = |m: &MinidumpModule| m.name[1..].parse::<u64>().unwrap();
            o.listing_bs = true;
            for m in list.by_addr() {
                o.listing.push((m.raw.base_of_image, m.raw.size_of_image as u64, tag(m)));
            }
            for &a in probes {
                o.probes.push((a, list.module_at_address(a).map(|m| vec![tag(m)]).unwrap_or_default()));
            }
        }
        "unloaded" => {
            let list = MinidumpUnloadedModuleList::from_modules(
                entries.iter().map(|e| MinidumpUnloadedModule::new(e.base, e.size as u32, &format!("m{}", e.val))).collect(),
            );
            let tag = |m: &MinidumpUnloadedModule| m.name[1..].parse::<u64>().unwrap();
            o.listing_bs = true;
            o.multi = true;
            for m in list.by_addr() {
                o.listing.push((m.raw.base_of_image, m.raw.size_of_image as u64, tag(m)));
            }
            for &a in probes {
                o.probes.push((a, list.modules_at_address(a).map(tag).collect()));
            }
        }
        "memory" | "memory64" => {
            static BUF: [u8; 4096] = [0; 4096];
            let base_ptr = BUF.as_ptr() as usize;
            if binding == "memory" {
                let list = MinidumpMemoryList::from_regions(
                    entries.iter().map(|e| MinidumpMemoryBase {
                        desc: Default::default(), base_address: e.base, size: e.size,
                        bytes: &BUF[e.val as usize..e.val as usize], endian: scroll::LE,
                    }).collect());
                o.listing_bs = true;
                for m in list.by_addr() {
                    o.listing.push((m.base_address, m.size, (m.bytes.as_ptr() as usize - base_ptr) as u64));
                }
                for &a in probes {
                    o.probes.push((a, list.memory_at_address(a).map(|m| vec![(m.bytes.as_ptr() as usize - base_ptr) as u64]).unwrap_or_default()));
                }
            } else {
                let list = MinidumpMemory64List::from_regions(
                    entries.iter().map(|e| MinidumpMemoryBase {
                        desc: Default::default(), base_address: e.base, size: e.size,
                        bytes: &BUF[e.val as usize..e.val as usize], endian: scroll::LE,
                    }).collect());
                o.listing_bs = true;
                for m in list.by_addr() {
                    o.listing.push((m.base_address, m.size, (m.bytes.as_ptr() as usize - base_ptr) as u64));
                }
                for &a in probes {
                    o.probes.push((a, list.memory_at_address(a).map(|m| vec![(m.bytes.as_ptr() as usize - base_ptr) as u64]).unwrap_or_default()));
                }
            }
        }
        "meminfo" | "maps" | "dump_modules" | "unified_meminfo" | "unified_maps" => {
            let endian = test_assembler::Endian::Little;
            let mut d = synth::SynthMinidump::with_endian(endian);
            if binding == "meminfo" || binding == "unified_meminfo" {
                for e in entries {
                    d = d.add_memory_info(synth::MemoryInfo::new(endian, e.base, e.val, 4, e.size, 0x1000, 4, 0x20000));
                }
            } else if binding == "maps" || binding == "unified_maps" {
                let mut text = String::new();
                for e in entries {
                    // inclusive end; an empty entry is rendered with end < start when possible
                    let (s, en) = maps_bounds(e);
                    text.push_str(&format!("{:x}-{:x} r-xp {:08x} 00:00 0  /m\n", s, en, e.val));
                }
                d = d.set_linux_maps(text.as_bytes());
            } else {
                for e in entries {
                    let name = synth::DumpString::new(&format!("m{}", e.val), endian);
                    let m = synth::Module::new(endian, e.base, e.size as u32, &name, 0, 0, None);
                    d = d.add_module(m).add(name);
                }
            }
            let bytes = d.finish().expect("synth dump");
            let dump = Minidump::read(&bytes[..]).expect("generated dump reads");
            if binding == "unified_meminfo" || binding == "unified_maps" {
                // the same tables behind the interface the processor uses
                let tag = |u: &UnifiedMemoryInfo| match u { UnifiedMemoryInfo::Info(m) => (m.raw.base_address, m.raw.region_size, m.raw.allocation_base, true), UnifiedMemoryInfo::Map(m) => (m.map.address.0, m.map.address.1, m.map.offset, false) };
                let list = if binding == "unified_meminfo" { UnifiedMemoryInfoList::new(Some(dump.get_stream().unwrap_or_default()), None) } else { UnifiedMemoryInfoList::new(None, Some(dump.get_stream().unwrap_or_default())) }.expect("unified list");
                o.listing_bs = binding == "unified_meminfo";
                for u in list.by_addr() { let t = tag(&u); o.listing.push((t.0, t.1, t.2)); }
                for &a in probes { o.probes.push((a, list.memory_info_at_address(a).map(|u| vec![tag(&u).2]).unwrap_or_default())); }
            } else if binding == "meminfo" {
                let list: MinidumpMemoryInfoList = dump.get_stream().unwrap_or_default();
                o.listing_bs = true;
                for m in list.by_addr() {
                    o.listing.push((m.raw.base_address, m.raw.region_size, m.raw.allocation_base));
                }
                for &a in probes {
                    o.probes.push((a, list.memory_info_at_address(a).map(|m| vec![m.raw.allocation_base]).unwrap_or_default()));
                }
            } else if binding == "maps" {
                let list: MinidumpLinuxMaps = dump.get_stream().unwrap_or_default();
                for m in list.by_addr() {
                    o.listing.push((m.map.address.0, m.map.address.1, m.map.offset));
                }
                for &a in probes {
                    o.probes.push((a, list.memory_info_at_address(a).map(|m| vec![m.map.offset]).unwrap_or_default()));
                }
            } else {
                let list: MinidumpModuleList = dump.get_stream().unwrap_or_default();
                let tag = |m: &MinidumpModule| m.name[1..].parse::<u64>().unwrap();
                o.listing_bs = true;
                for m in list.by_addr() {
                    o.listing.push((m.raw.base_of_image, m.raw.size_of_image as u64, tag(m)));
                }
                for &a in probes {
                    o.probes.push((a, list.module_at_address(a).map(|m| vec![tag(m)]).unwrap_or_default()));
                }
            }
        }
        "func" | "lines" | "cfi" | "win_fd" | "win_fpo" => {
            let mut text = String::from("MODULE Linux x86 000 m\nFILE 1 a.c\n");
            match binding {
                "func" => for e in entries { text.push_str(&format!("FUNC {:x} {:x} 0 f{}\n", e.base, e.size, e.val)); },
                "lines" => {
                    text.push_str("FUNC 0 ffffffff 0 outer\n");
                    for e in entries { text.push_str(&format!("{:x} {:x} {} 1\n", e.base, e.size, e.val)); }
                }
                "cfi" => for e in entries { text.push_str(&format!("STACK CFI INIT {:x} {:x} .cfa: {} .ra: 1\n", e.base, e.size, e.val)); },
                "win_fd" => for e in entries { text.push_str(&format!("STACK WIN 4 {:x} {:x} {:x} 0 0 0 0 0 1 $eip 4 =\n", e.base, e.size, e.val)); },
                _ => for e in entries { text.push_str(&format!("STACK WIN 0 {:x} {:x} {:x} 0 0 0 0 0 0 1\n", e.base, e.size, e.val)); },
            }
            let sym = SymbolFile::from_bytes(text.as_bytes()).expect("generated symbol file parses");
            return match binding {
                "func" => sym_obs(&sym.functions, probes, |f| f.name[1..].parse::<u64>().unwrap()),
                "lines" => {
                    let f = sym.functions.get(0).expect("outer function");
                    sym_obs(&f.lines, probes, |l| l.line as u64)
                }
                "cfi" => sym_obs(&sym.cfi_stack_info, probes, |c| c.init.rules.split_whitespace().nth(1).unwrap().parse::<u64>().unwrap()),
                "win_fd" => sym_obs(&sym.win_stack_framedata_info, probes, |w| w.prologue_size as u64),
                _ => sym_obs(&sym.win_stack_fpo_info, probes, |w| w.prologue_size as u64),
            };
        }
        _ => panic!("unknown binding"),
    }
    o
}

/// /proc/<pid>/maps bounds (inclusive end, as the crate treats them) for an entry.
pub fn maps_bounds(e: &Entry) -> (u64, u64) {
    // an entry without a valid (base, size) range is rendered as a line with end < start
    match if e.size == 0 { None } else { e.base.checked_add(e.size - 1) } {
        Some(end) => (e.base, end),
        None => if e.base > 0 { (e.base, e.base - 1) } else { (1, 0) },
    }
}

/// Observation record for Trace_RangeMap.tla.
pub fn obs_json(binding: &str, entries: &[Entry], o: &Obs) -> Value {
    let ent: Vec<Value> = entries.iter().map(|e| {
        if binding == "maps" {
            let (s, en) = maps_bounds(e);
            json!({"k": "se", "s": limbs_json(s, 4), "e": limbs_json(en, 4), "v": e.val})
        } else {
            json!({"k": "bs", "b": limbs_json(e.base, 4), "n": limbs_json(e.size, 4), "v": e.val})
        }
    }).collect();
    let listing: Vec<Value> = o.listing.iter().map(|&(a, b, v)| {
        if o.listing_bs { json!({"k": "bs", "b": limbs_json(a, 4), "n": limbs_json(b, 4), "v": v}) }
        else { json!({"k": "se", "s": limbs_json(a, 4), "e": limbs_json(b, 4), "v": v}) }
    }).collect();
    let probes: Vec<Value> = o.probes.iter().map(|(a, h)| json!({"a": limbs_json(*a, 4), "hits": h})).collect();
    json!({"bind": binding, "panic": if o.panic.is_some() { 1 } else { 0 }, "panic_msg": o.panic.clone().unwrap_or_default(), "entries": ent, "listing": listing,
           "probes": probes, "multi": if o.multi { 1 } else { 0 }})
}
