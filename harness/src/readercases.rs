//! DumpReader.tla case -> concrete substitution cases over the rich templates.
//! A case names a protocol class and one tag per adversarial field; this module knows where those fields live in
//! the template files (found with plain byte arithmetic over the frozen writer's output) and what each tag means
//! for a real file of length L.
use crate::rich::{layout, StreamAt};
use serde_json::{json, Value};

fn rd(bytes: &[u8], at: usize, width: usize) -> u64 {
    let big = &bytes[0..4] == b"PMDM";
    let mut v = 0u64;
    for i in 0..width {
        let b = bytes[at + if big { i } else { width - 1 - i }] as u64;
        v = (v << 8) | b;
    }
    v
}

/// The real number a tag stands for; None = leave the field as it is.
fn num(tag: &str, ok: u64, len: usize, width: usize) -> Option<u64> {
    let l = len as u64;
    let (half, max) = if width == 8 { (1u64 << 63, u64::MAX) } else { (1u64 << 31, (1u64 << 32) - 1) };
    Some(match tag {
        "ok" => return None,
        "zero" => 0, "one" => 1, "Lm1" => l - 1, "L" => l, "Lp1" => l + 1, "half" => half, "max" => max,
        "okp1" => ok + 1, "okm1" => ok.wrapping_sub(1), "okp4" => ok + 4, "okm4" => ok.wrapping_sub(4), "okp8" => ok + 8, "three" => 3,
        "d32" => 32, "d40" => 40, "n15" => 15, "n16" => 16, "n2" => 2, "n20" => 20, "n21" => 21, "v4" => 4, "v5" => 5, "v6" => 6, "unknown" => 99,
        _ => panic!("unknown tag {}", tag),
    })
}

fn stream(streams: &[StreamAt], ty: u32) -> Option<&StreamAt> {
    streams.iter().find(|s| s.stream_type == ty)
}

const STREAM_NAME: [(u32, &str); 12] = [(3, "MinidumpThreadList"), (4, "MinidumpModuleList"), (5, "MinidumpMemoryList"), (24, "MinidumpThreadNames"), (14, "MinidumpUnloadedModuleList"),
    (16, "MinidumpMemoryInfoList"), (17, "MinidumpThreadInfoList"), (12, "MinidumpHandleDataStream"), (9, "MinidumpMemory64List"), (6, "MinidumpException"),
    (0x4d7a_0001, "MinidumpMacCrashInfo"), (7, "MinidumpSystemInfo")];
pub fn name_of(ty: u32) -> &'static str {
    STREAM_NAME.iter().find(|(t, _)| *t == ty).map(|(_, n)| *n).unwrap_or("?")
}

pub fn instantiate(c: &Value, tpl: &[(String, Vec<u8>)]) -> Vec<Value> {
    let cls = c["cls"].as_str().unwrap();
    let f = &c["f"];
    let tag = |k: &str| f[k].as_str().unwrap();
    let mut out = vec![];
    let on: Vec<usize> = tpl.iter().enumerate().filter(|(_, (n, _))| if cls == "mem64" { n.starts_with("linux-amd64") } else { n.starts_with("windows-x86") }).map(|(i, _)| i).collect();
    for t in on {
        let bytes = &tpl[t].1;
        let len = bytes.len();
        let (_, _, streams) = layout(bytes);
        let mut emit = |ty: u32, patches: Vec<(usize, usize, Option<u64>)>| {
            let p: Vec<Value> = patches.into_iter().filter_map(|(o, w, v)| v.map(|v| json!([o, w, v]))).collect();
            out.push(json!({"k": "multi", "t": t, "p": p, "meta": {"cls": cls, "f": f, "pred": c["outcome"], "stream": name_of(ty)}}));
        };
        let p4 = |at: usize, tg: &str| (at, 4usize, num(tg, rd(bytes, at, 4), len, 4));
        let p8 = |at: usize, tg: &str| (at, 8usize, num(tg, rd(bytes, at, 8), len, 8));
        match cls {
            "dir" => {
                let s = stream(&streams, 3).unwrap();
                emit(3, vec![p4(8, tag("stream_count")), p4(12, tag("dir_rva")), p4(s.dir_entry_at + 4, tag("size")), p4(s.dir_entry_at + 8, tag("rva"))]);
            }
            "counted" => {
                for ty in [3u32, 4, 5, 24] {
                    let s = stream(&streams, ty).unwrap();
                    emit(ty, vec![p4(s.rva, tag("count")), p4(s.dir_entry_at + 4, tag("dsize"))]);
                }
            }
            "exlist" => {
                for ty in [14u32, 16, 17] {
                    let s = stream(&streams, ty).unwrap();
                    emit(ty, vec![p4(s.rva, tag("hsize")), p4(s.rva + 4, tag("esize")), p4(s.rva + 8, tag("count"))]);
                }
            }
            "handle" => {
                let s = stream(&streams, 12).unwrap();
                let info_field = s.rva + 16 + 32;
                let info1 = rd(bytes, info_field, 4) as usize;
                let info2 = rd(bytes, info1, 4) as usize;
                let mut p = vec![p4(s.rva + 4, tag("dsize")), p4(s.rva + 8, tag("count")), p4(info_field, tag("info"))];
                match tag("next") {
                    "self" => p.push((info1, 4, Some(info1 as u64))),
                    "back" => p.push((info2, 4, Some(info1 as u64))),
                    tg => p.push(p4(info1, tg)),
                }
                p.push(p4(info1 + 4, tag("type")));
                emit(12, p);
            }
            "mem64" => {
                let s = stream(&streams, 9).unwrap();
                emit(9, vec![p8(s.rva, tag("count")), p8(s.rva + 8, tag("base")), p8(s.rva + 24, tag("size0"))]);
            }
            "exception" => {
                let s = stream(&streams, 6).unwrap();
                emit(6, vec![p4(s.rva + 32, tag("nparams")), p4(s.rva + 160, tag("csize")), p4(s.rva + 164, tag("crva"))]);
            }
            "maccrash" => {
                let s = stream(&streams, 0x4d7a_0001).unwrap();
                let rec = rd(bytes, s.rva + 16, 4) as usize;
                emit(0x4d7a_0001, vec![p4(s.rva + 4, tag("rcount")), p4(s.rva + 8, tag("start")), p4(s.rva + 12, tag("rsize")), p4(s.rva + 16, tag("rrva")), p8(rec + 8, tag("version"))]);
            }
            "string" => {
                let s = stream(&streams, 24).unwrap();
                let name = rd(bytes, s.rva + 8, 8) as usize;
                emit(24, vec![p8(s.rva + 8, tag("rva")), p4(name, tag("len"))]);
            }
            _ => panic!("unknown class {}", cls),
        }
    }
    out
}
