//! Seeded corpus of (minidump, per-module symbol text) pairs for the whole-pipeline checks (C03 C13 C15 C20):
//! every CPU / OS the writer supports, threads with stacks full of planted pointers, CFI / STACK WIN symbol text,
//! hostile strings (quotes, control characters, non-BMP, lossy UTF-16), duplicate thread ids, unreadable contexts,
//! /proc streams with many rows, and byte-level corruption of all of it.
use crate::dumpgen::*;
use rand::rngs::StdRng;
use rand::{Rng, SeedableRng};
use std::collections::HashMap;

pub struct Item {
    pub name: String,
    pub cpu: String,
    pub dump: Vec<u8>,
    pub symbols: HashMap<String, String>,
    pub corrupted: bool,
}

const HOSTILE: [&str; 12] = ["plain", "qu\"ote", "back\\slash", "tab\there", "nl\nline", "ctl\u{1}\u{1f}", "emoji\u{1F600}", "bmp\u{20AC}\u{4e2d}", "", "</script>&amp;", "draw(Gr\u{f6}\u{df}e, int)", "ns::f<\u{4e2d}, T>(a\u{300}, b)"];

fn words_le(ws: &[u64], w: usize) -> Vec<u8> {
    let mut v = vec![];
    for x in ws { if w == 8 { v.extend_from_slice(&x.to_le_bytes()); } else { v.extend_from_slice(&(*x as u32).to_le_bytes()); } }
    v
}

pub fn symbols_for(rng: &mut StdRng, cpu: &str, os: &str) -> String {
    let (spn, fpn, w) = match cpu { "amd64" => ("$rsp", "$rbp", 8i64), "x86" => ("$esp", "$ebp", 4), "arm" => ("sp", "r11", 4), _ => ("sp", "x29", 8) };
    let f1 = HOSTILE[rng.gen_range(0..HOSTILE.len())].replace('\n', " ");
    let mut s = format!("MODULE {} {} 000 m1\nFILE 1 /src/{}.c\nINLINE_ORIGIN 0 inl\"ined\nFUNC 100 100 10 {}\nINLINE 0 7 1 0 120 8\n100 40 11 1\n140 c0 12 1\nFUNC 300 100 8 g\u{1F600}\nPUBLIC 800 0 pub_{}\n",
                        if os == "windows" { "windows" } else { "Linux" }, cpu, f1.replace(' ', "_"), if f1.contains('(') { f1.clone() } else { format!("fn_{}(int, char*)", f1) }, f1);
    match rng.gen_range(0..6) {
        0 => s.push_str(&format!("STACK CFI INIT 100 100 .cfa: {} {} + .ra: .cfa {} - ^ {}: .cfa {} - ^\n", spn, 2 * w, w, fpn, 2 * w)),
        1 => s.push_str(&format!("STACK CFI INIT 100 100 .cfa: {} {} + .ra: .cfa {} - ^\nSTACK CFI 120 .cfa: {} {} +\n", spn, w, w, spn, 2 * w)),
        2 => s.push_str(&format!("STACK CFI INIT 100 100 .cfa: {} {} + .ra: 4194640\n", spn, w)),
        // two labels that alias one register: the order they are applied in must not matter for the report
        3 if cpu == "arm64" => s.push_str("STACK CFI INIT 100 100 .cfa: sp 16 + .ra: .cfa -8 + ^ x29: .cfa -16 + ^ fp: .cfa -16 + ^\n"),
        // several optional register rules, some of which fail (slot outside the captured stack)
        4 => s.push_str(&format!("STACK CFI INIT 100 100 .cfa: {} {} + .ra: .cfa {} - ^ {}: .cfa 65536 + ^ {}: .cfa {} - ^\n", spn, 2 * w, w, if cpu == "amd64" { "$rbx" } else if cpu == "x86" { "$ebx" } else { "x19" }, fpn, 2 * w)),
        _ => {}
    }
    if cpu == "x86" && os == "windows" {
        s.push_str("STACK WIN 4 300 100 0 0 c 0 4 0 1 $T0 .raSearch = $eip $T0 ^ = $esp $T0 4 + =\nSTACK WIN 0 100 40 0 0 c 8 0 0 0 1\n");
    }
    // records whose range starts exactly on the last byte of the one before (ranges are inclusive: that is an overlap),
    // exact duplicates, and adjacent ones
    match rng.gen_range(0..4) {
        0 => s.push_str(&format!("FUNC 1ff 20 0 tail_overlap\nFUNC 3ff 1 0 one_byte\nSTACK CFI INIT 1ff 20 .cfa: {} {} + .ra: .cfa {} - ^\nPUBLIC 800 0 dup_public\n", spn, w, w)),
        1 => s.push_str(&format!("FUNC 100 100 10 duplicate\nFUNC 200 10 0 adjacent\nSTACK CFI INIT 100 100 .cfa: {} {} + .ra: .cfa {} - ^\n", spn, w, w)),
        2 if cpu == "x86" => s.push_str("STACK WIN 4 3ff 10 0 0 c 0 4 0 1 $T0 .raSearch = $eip $T0 ^ = $esp $T0 4 + =\nSTACK WIN 0 13f 10 0 0 c 8 0 0 0 1\n"),
        _ => {}
    }
    s
}

fn one(rng: &mut StdRng, k: usize) -> Item {
    let cpus = ["x86", "amd64", "arm64", "ppc64", "arm", "unknown", "amd64", "x86"];  // an unknown-width CPU right after a 32-bit one
    let oses = ["windows", "linux", "mac", "android", "ios", "linux", "windows", "other"];
    let cpu = cpus[k % cpus.len()];
    let os = oses[(k / 3) % oses.len()];
    let w = if matches!(cpu, "x86" | "arm") { 4 } else { 8 };
    let ctx_cpu = match cpu { "amd64" | "arm64" | "x86" => cpu, _ => "x86" }; // the writer has these three context layouts
    let mut spec = DumpSpec { os: os.into(), cpu: cpu.into(), big_endian: k % 11 == 7, ..DumpSpec::default() };
    let nthreads = [1usize, 2, 3, 0, 5][k % 5];
    let code = [0x400150u64, 0x400151, 0x400350, 0x4001ff, 0x400810, 0x500010, 0x600100, 0, 0x400050, 0x410150];
    for t in 0..nthreads {
        let nwords = [4usize, 16, 48][rng.gen_range(0..3)];
        let base = 0x10000 + 0x1000 * t as u64;
        let words: Vec<u64> = (0..nwords).map(|_| match rng.gen_range(0..8) { 0..=2 => code[rng.gen_range(0..code.len())], 3 => base + (rng.gen_range(0..nwords) * w) as u64, 4 => 0, _ => rng.gen_range(0..0x1000) }).collect();
        let id = if rng.gen_bool(0.2) { 1 } else { t as u32 + 1 };
        let mut th = ThreadSpec { id, ctx_ok: !rng.gen_bool(0.15), name: if rng.gen_bool(0.6) { Some(HOSTILE[rng.gen_range(0..HOSTILE.len())].to_string()) } else { None },
                                  ip: code[rng.gen_range(0..code.len())], sp: base + (rng.gen_range(0..3) * w) as u64, stack_base: base, stack: words_le(&words, w) };
        if cpu != ctx_cpu { th.ctx_ok = rng.gen_bool(0.5); }
        spec.threads.push(th);
    }
    if rng.gen_bool(0.75) {
        let mut info = [0u64; 15];
        info[0] = [0, 1, 8, 99][rng.gen_range(0..4)];
        info[1] = [0x10, 0x10010, 0xffff_ffff_ffff_ffff, 0x0000_8000_0000_0000, 0][rng.gen_range(0..5)];
        info[2] = 0xC000_009A;
        let code_ = match os { "linux" | "android" => [11u32, 7, 6, 4, 0x4000_0000][rng.gen_range(0..5)], "mac" | "ios" => [1u32, 2, 3, 6, 99][rng.gen_range(0..5)],
                               _ => [0xC000_0005u32, 0xC000_0006, 0xC000_0409, 0x8000_0003, 0x1234_5678, 0xC000_001D][rng.gen_range(0..6)] };
        spec.exception = Some(ExcSpec { tid: [1, 2, 9][rng.gen_range(0..3)], has_ctx: rng.gen_bool(0.7), ctx_ok: rng.gen_bool(0.85), ctx_ip: code[rng.gen_range(0..code.len())], ctx_sp: 0x10000,
                                        code: code_, flags: [0u32, 1, 2, 0x80][rng.gen_range(0..4)], address: info[1], nparams: [0u32, 1, 2, 3, 15][rng.gen_range(0..5)], info, ctx_patch: vec![] });
        if cpu != ctx_cpu { if let Some(e) = spec.exception.as_mut() { e.has_ctx = false; } }
    }
    if rng.gen_bool(0.3) { spec.breakpad = Some((if rng.gen_bool(0.5) { Some(rng.gen_range(1..4)) } else { None }, if rng.gen_bool(0.5) { Some(rng.gen_range(1..4)) } else { None })); }
    if rng.gen_bool(0.4) { spec.misc_pid = Some(if rng.gen_bool(0.7) { Some(rng.gen()) } else { None }); }
    let mname = if rng.gen_bool(0.3) { format!("C:\\dir\\{}.dll", HOSTILE[rng.gen_range(0..HOSTILE.len())]) } else { "m1".to_string() };
    spec.modules = vec![ModuleSpec { base: 0x400000, size: 0x1000, name: mname.clone() }, ModuleSpec { base: 0x500000, size: 0x1000, name: "m2".into() }];
    let twins = rng.gen_bool(0.25);
    if twins {
        spec.modules.push(ModuleSpec { base: 0x410000, size: 0x1000, name: "plugin.dll".into() });
        spec.modules.push(ModuleSpec { base: 0x420000, size: 0x1000, name: "plugin_copy.dll".into() });
        spec.twin_pdb = Some("plugin.pdb".into());
        // thread 0 starts in m1 (whose look-up may be delayed) and returns into plugin.dll; thread 1 runs in plugin_copy.dll:
        // which of the twins is looked up first depends on the supplier schedule
        if spec.threads.len() >= 2 {
            spec.threads[0].ip = 0x400350; spec.threads[0].ctx_ok = true; spec.threads[0].sp = spec.threads[0].stack_base;
            let ra = if w == 8 { 0x410150u64.to_le_bytes().to_vec() } else { 0x410150u32.to_le_bytes().to_vec() };
            if spec.threads[0].stack.len() >= ra.len() { spec.threads[0].stack[..ra.len()].copy_from_slice(&ra); }
            spec.threads[1].ip = 0x420150; spec.threads[1].ctx_ok = true;
            spec.exception = None;
        }
    }
    // two different libraries that share a leaf name and carry no identifiers; each has its own symbols.  Thread 0 starts in m1
    // (whose look-up may be delayed) and returns into the first; thread 1 runs in the second.
    let leaf_twins = !twins && rng.gen_bool(0.25);
    if leaf_twins {
        spec.modules.push(ModuleSpec { base: 0x430000, size: 0x1000, name: "/system/lib64/libcodec.so".into() });
        spec.modules.push(ModuleSpec { base: 0x440000, size: 0x1000, name: "/vendor/lib64/libcodec.so".into() });
        if spec.threads.len() >= 2 {
            spec.threads[0].ip = 0x400350; spec.threads[0].ctx_ok = true; spec.threads[0].sp = spec.threads[0].stack_base;
            let ra = if w == 8 { 0x430150u64.to_le_bytes().to_vec() } else { 0x430150u32.to_le_bytes().to_vec() };
            if spec.threads[0].stack.len() >= ra.len() { spec.threads[0].stack[..ra.len()].copy_from_slice(&ra); }
            spec.threads[1].ip = 0x440150; spec.threads[1].ctx_ok = true;
            spec.exception = None;
        }
    }
    // the bytes of the crashing instruction are in the dump (amd64): reads, writes, read-modify-writes, jumps through memory, garbage
    if cpu == "amd64" && rng.gen_bool(0.5) {
        let ops: [&[u8]; 9] = [&[0xff, 0x04, 0x24], &[0x88, 0x04, 0x24], &[0x8a, 0x04, 0x24], &[0x48, 0x8b, 0x00], &[0xff, 0x20], &[0xc3], &[0x0f, 0x0b], &[0x83, 0x04, 0x24, 0x01], &[0xff, 0xff, 0xff]];
        let op = ops[rng.gen_range(0..ops.len())];
        let mut bytes = op.to_vec();
        bytes.resize(16, 0x90);
        let at = 0x400150u64;
        spec.extra_memory.push((at, bytes));
        if let Some(e) = spec.exception.as_mut() {
            e.has_ctx = true; e.ctx_ok = true; e.ctx_ip = at; e.ctx_sp = 0x10008;
            if rng.gen_bool(0.5) { e.address = 0x10008; e.info[1] = 0x10008; }
        }
    }
    if w == 4 && rng.gen_bool(0.3) { spec.modules.push(ModuleSpec { base: 0xfff0_0000, size: 0x20_0000, name: "high.dll".into() }); }
    if rng.gen_bool(0.3) { spec.modules.push(ModuleSpec { base: 0x400800, size: 0x1000, name: "overlap".into() }); }
    if rng.gen_bool(0.5) { spec.unloaded = vec![ModuleSpec { base: 0x600000, size: 0x1000, name: "u1".into() }, ModuleSpec { base: 0x600080, size: 0x1000, name: HOSTILE[rng.gen_range(0..HOSTILE.len())].into() }]; }
    if rng.gen_bool(0.4) { spec.memory_info = vec![RegionSpec { base: 0x10000, size: 0x8000, protection: 4, state: 0x1000 }, RegionSpec { base: 0x400000, size: 0x1000, protection: 0x20, state: 0x1000 }]; }
    if matches!(os, "linux" | "android") {
        if rng.gen_bool(0.6) { spec.linux_maps = Some("00010000-00018000 rw-p 00000000 00:00 0 [stack]\n00400000-00401000 r-xp 00000000 08:01 1 /bin/m1\n".into()); }
        if rng.gen_bool(0.6) { spec.proc_status = Some(format!("Name:\t{}\nPid:\t{}\n", HOSTILE[rng.gen_range(0..5)], rng.gen_range(1..99999))); }
        if rng.gen_bool(0.7) {
            spec.proc_limits = Some("Limit                     Soft Limit           Hard Limit           Units     \nMax cpu time              unlimited            unlimited            seconds   \nMax file size             unlimited            unlimited            bytes     \nMax data size             unlimited            unlimited            bytes     \nMax stack size            8388608              unlimited            bytes     \nMax core file size        0                    unlimited            bytes     \nMax resident set          unlimited            unlimited            bytes     \nMax processes             127235               127235               processes \nMax open files            1024                 1048576              files     \nMax locked memory         8388608              8388608              bytes     \nMax address space         unlimited            unlimited            bytes     \n".into());
        }
        if rng.gen_bool(0.15) { spec.proc_limits = Some(["Limit Soft Hard Units\nMax cpu time\n", "Limit                     Soft Limit           Hard Limit           Units     \nMax cpu time              unlimited\n", "\n\nx\n", "Limit\nMax open files            1024                 1048576\n"][rng.gen_range(0..4)].into()); }
        if rng.gen_bool(0.5) { spec.lsb = Some("DISTRIB_ID=\"Ubu\\\"ntu\"\nDISTRIB_RELEASE=22.04\n".into()); }
    }
    let mut symbols = HashMap::new();
    if rng.gen_bool(0.8) { symbols.insert(mname, symbols_for(rng, ctx_cpu, os)); }
    if twins { let t = symbols_for(rng, ctx_cpu, os); symbols.insert("plugin.dll".into(), t.clone()); if rng.gen_bool(0.5) { symbols.insert("plugin_copy.dll".into(), t); } }
    if leaf_twins {
        symbols.insert("/system/lib64/libcodec.so".into(), format!("MODULE Linux {} 000 libcodec.so\nFUNC 100 100 0 system_codec_decode\n", ctx_cpu));
        symbols.insert("/vendor/lib64/libcodec.so".into(), format!("MODULE Linux {} 000 libcodec.so\nFUNC 100 100 0 vendor_codec_decode\n", ctx_cpu));
    }
    let mut dump = build(&spec);
    let mut corrupted = false;
    if k % 4 == 3 {
        corrupted = true;
        for _ in 0..rng.gen_range(1..6) {
            let i = rng.gen_range(0..dump.len());
            match rng.gen_range(0..3) { 0 => dump[i] ^= 1 << rng.gen_range(0..8), 1 => dump[i] = 0xff, _ => { let j = (i + 4).min(dump.len()); for b in &mut dump[i..j] { *b = 0xff; } } }
        }
        if rng.gen_bool(0.2) { let cut = rng.gen_range(32..dump.len()); dump.truncate(cut); }
        // (the symbol file to damage is chosen by name order, not by the map's iteration order: the corpus is a function of the seed)
        let first_key = { let mut ks: Vec<&String> = symbols.keys().collect(); ks.sort(); ks.first().map(|k| (*k).clone()) };
        if rng.gen_bool(0.3) { if let Some(s) = first_key.and_then(|k| symbols.get_mut(&k)) { let mut b = s.clone().into_bytes(); if !b.is_empty() { let i = rng.gen_range(0..b.len()); b[i] = b'\n'; } *s = String::from_utf8_lossy(&b).into_owned(); } }
    }
    Item { name: format!("gen{}-{}-{}{}", k, cpu, os, if corrupted { "-corrupt" } else { "" }), cpu: cpu.to_string(), dump, symbols, corrupted }
}

/// Crash analysis paths that need a particular constellation: many registers near a one-bit neighbour of the crash
/// address (the bit-flip confidence table), and a /proc/maps row that covers the whole address space (guard-page sizes).
fn analysis_items() -> Vec<Item> {
    let mut v = vec![];
    // (1) amd64 Windows read violation at an unmapped address one bit away from the stack region; every general-purpose
    //     register points into that region
    for nregs in [3usize, 5, 9, 14] {
        let mut spec = DumpSpec { os: "windows".into(), cpu: "amd64".into(), ..DumpSpec::default() };
        spec.threads.push(ThreadSpec { id: 1, ctx_ok: true, name: None, ip: 0x400150, sp: 0x10008, stack_base: 0x10000, stack: vec![0u8; 64] });
        spec.modules = vec![ModuleSpec { base: 0x400000, size: 0x1000, name: "m1".into() }];
        spec.memory_info = vec![RegionSpec { base: 0x10000, size: 0x8000, protection: 4, state: 0x1000 }, RegionSpec { base: 0x400000, size: 0x1000, protection: 0x20, state: 0x1000 }];
        spec.extra_memory.push((0x400150, vec![0x8a, 0x03, 0x90, 0x90, 0x90, 0x90, 0x90, 0x90, 0x90, 0x90, 0x90, 0x90, 0x90, 0x90, 0x90, 0x90])); // mov al, [rbx]
        let bad = 0x10010u64 | (1u64 << 36);
        let mut info = [0u64; 15];
        info[0] = 0;
        info[1] = bad;
        let offs = [120usize, 128, 136, 160, 168, 176, 184, 192, 200, 208, 216, 224, 232, 240];
        let mut patch = vec![(144usize, bad)];
        for (i, off) in offs.iter().enumerate().take(nregs) { patch.push((*off, 0x10010 + 8 * i as u64)); }
        spec.exception = Some(ExcSpec { tid: 1, has_ctx: true, ctx_ok: true, ctx_ip: 0x400150, ctx_sp: 0x10008, code: 0xC000_0005, flags: 0, address: 0x400150, nparams: 2, info, ctx_patch: patch });
        v.push(Item { name: format!("analysis-bitflip-{}regs", nregs), cpu: "amd64".into(), dump: build(&spec), symbols: HashMap::new(), corrupted: false });
    }
    // (1a) the crashing instruction has a two-register memory operand and both registers are one bit away from mapped memory:
    //      the order in which their candidates are reported must not depend on anything but the dump
    for (k, (op, base_off, index_off, scale)) in [(&[0x48u8, 0x8b, 0x04, 0xcb][..], 144usize, 128usize, 8u64), (&[0x48, 0x8b, 0x04, 0xbe][..], 168, 176, 4), (&[0x48, 0x8b, 0x04, 0x1a][..], 136, 144, 1),
                                                     (&[0x48, 0x8b, 0x04, 0x0e][..], 168, 128, 1), (&[0x48, 0x8b, 0x04, 0x3b][..], 144, 176, 1), (&[0x48, 0x8b, 0x04, 0xd1][..], 128, 136, 8)].into_iter().enumerate() {
        let mut spec = DumpSpec { os: "windows".into(), cpu: "amd64".into(), ..DumpSpec::default() };
        spec.threads.push(ThreadSpec { id: 1, ctx_ok: true, name: None, ip: 0x400150, sp: 0x10008, stack_base: 0x10000, stack: vec![0u8; 64] });
        spec.modules = vec![ModuleSpec { base: 0x400000, size: 0x1000, name: "m1".into() }];
        spec.memory_info = vec![RegionSpec { base: 0x10000, size: 0x8000, protection: 4, state: 0x1000 }, RegionSpec { base: 0x400000, size: 0x1000, protection: 0x20, state: 0x1000 }];
        let mut bytes = op.to_vec();
        bytes.resize(16, 0x90);
        spec.extra_memory.push((0x400150, bytes)); // mov rax, [base + index*scale] for six register pairs
        let (b, i) = (0x10010u64 | (1u64 << 36), 0x10020u64 | (1u64 << 41));
        let mut info = [0u64; 15];
        info[1] = b.wrapping_add(i.wrapping_mul(scale));
        spec.exception = Some(ExcSpec { tid: 1, has_ctx: true, ctx_ok: true, ctx_ip: 0x400150, ctx_sp: 0x10008, code: 0xC000_0005, flags: 0, address: 0x400150, nparams: 2, info,
                                        ctx_patch: vec![(base_off, b), (index_off, i)] });
        v.push(Item { name: format!("analysis-bitflip-two-registers-{}", k), cpu: "amd64".into(), dump: build(&spec), symbols: HashMap::new(), corrupted: false });
    }
    // (1c) a call that is the last instruction of its module: the return address is the first byte of the module mapped right behind it
    //      (and, in the second item, of nothing); the frame belongs to the module of the call
    for (k, second) in [true, false].into_iter().enumerate() {
        for cpu in ["amd64", "x86"] {
            let mut spec = DumpSpec { os: "linux".into(), cpu: cpu.into(), ..DumpSpec::default() };
            let mut stack = vec![0u8; 64];
            stack[8..16].copy_from_slice(&0x401000u64.to_le_bytes());
            stack[4..8].copy_from_slice(&0x401000u32.to_le_bytes());
            spec.threads.push(ThreadSpec { id: 1, ctx_ok: true, name: None, ip: 0x400150, sp: 0x10000, stack_base: 0x10000, stack });
            spec.modules = vec![ModuleSpec { base: 0x400000, size: 0x1000, name: "a.so".into() }];
            if second { spec.modules.push(ModuleSpec { base: 0x401000, size: 0x1000, name: "b.so".into() }); }
            v.push(Item { name: format!("analysis-call-at-module-end-{}-{}", cpu, k), cpu: cpu.into(), dump: build(&spec), symbols: HashMap::new(), corrupted: false });
        }
    }
    // (1d) STACK WIN program strings whose arithmetic sits on the edges of 32-bit values (evaluated for the context frame), and crashing
    //      instructions whose memory operand touches the last bytes of the address space
    for (k, pro) in ["$T1 -2147483648 -1 / =", "$T1 -2147483648 -1 % =", "$T1 4 0 / =", "$T1 4 0 % =", "$T1 1 0 @ =", "$T1 4294967295 1 + =", "$T1 -1 -1 * =", "$T1 0 1 - ="].into_iter().enumerate() {
        let mut spec = DumpSpec { os: "windows".into(), cpu: "x86".into(), ..DumpSpec::default() };
        let mut stack = vec![0u8; 64];
        stack[0..4].copy_from_slice(&0x400120u32.to_le_bytes());
        spec.threads.push(ThreadSpec { id: 1, ctx_ok: true, name: None, ip: 0x400310, sp: 0x10000, stack_base: 0x10000, stack });
        spec.modules = vec![ModuleSpec { base: 0x400000, size: 0x1000, name: "m1".into() }];
        let mut symbols = HashMap::new();
        symbols.insert("m1".to_string(), format!("MODULE windows x86 000 m1\nFUNC 100 100 0 f\nFUNC 300 100 0 g\nSTACK WIN 4 300 100 0 0 0 0 0 0 1 {} $T0 .raSearch = $eip $T0 ^ = $esp $T0 4 + =\n", pro));
        v.push(Item { name: format!("analysis-stackwin-arith-{}", k), cpu: "x86".into(), dump: build(&spec), symbols, corrupted: false });
    }
    for (k, (op, val)) in [(&[0x48u8, 0x8b, 0x03][..], 0xffff_ffff_ffff_fff8u64), (&[0x48, 0x8b, 0x03][..], 0xffff_ffff_ffff_fffc), (&[0x8a, 0x03][..], 0xffff_ffff_ffff_ffff),
                           (&[0x48, 0x89, 0x03][..], 0xffff_ffff_ffff_fffd), (&[0x48, 0x8b, 0x43, 0x7f][..], 0xffff_ffff_ffff_ff81), (&[0xff, 0x03][..], 0xffff_ffff_ffff_fffe)].into_iter().enumerate() {
        for (code, info0) in [(0xC000_0005u32, 0u64), (0xC000_0005, 1)] {
            let mut spec = DumpSpec { os: "windows".into(), cpu: "amd64".into(), ..DumpSpec::default() };
            spec.threads.push(ThreadSpec { id: 1, ctx_ok: true, name: None, ip: 0x400150, sp: 0x10008, stack_base: 0x10000, stack: vec![0u8; 64] });
            spec.modules = vec![ModuleSpec { base: 0x400000, size: 0x1000, name: "m1".into() }];
            spec.memory_info = vec![RegionSpec { base: 0x10000, size: 0x8000, protection: 4, state: 0x1000 }, RegionSpec { base: 0x400000, size: 0x1000, protection: 0x20, state: 0x1000 }];
            let mut bytes = op.to_vec();
            bytes.resize(16, 0x90);
            spec.extra_memory.push((0x400150, bytes)); // mov rax,[rbx] / mov al,[rbx] / mov [rbx],rax / mov rax,[rbx+0x7f] / inc dword [rbx]
            let mut info = [0u64; 15];
            info[0] = info0;
            info[1] = val;
            spec.exception = Some(ExcSpec { tid: 1, has_ctx: true, ctx_ok: true, ctx_ip: 0x400150, ctx_sp: 0x10008, code, flags: 0, address: 0x400150, nparams: 2, info, ctx_patch: vec![(144usize, val)] });
            v.push(Item { name: format!("analysis-access-at-top-{}-{}", k, info0), cpu: "amd64".into(), dump: build(&spec), symbols: HashMap::new(), corrupted: false });
        }
    }
    // (1e) /proc/cpuinfo with a microcode line of every shape: a version, no 0x prefix, nothing, non-ASCII, too short, too long
    for (k, mc) in ["microcode\t: 0x2f\n", "microcode\t: 7\n", "microcode\t:\n", "microcode\t: 0\u{e9}1\n", "microcode\t: 0x\n", "microcode\t: 0xfffffffffffffffff\n", "microcode\t: x\n", ""].into_iter().enumerate() {
        let mut spec = DumpSpec { os: "linux".into(), cpu: "amd64".into(), ..DumpSpec::default() };
        spec.threads.push(ThreadSpec { id: 1, ctx_ok: true, name: None, ip: 0x400150, sp: 0x10008, stack_base: 0x10000, stack: vec![0u8; 64] });
        spec.modules = vec![ModuleSpec { base: 0x400000, size: 0x1000, name: "m1".into() }];
        spec.cpuinfo = Some(format!("processor\t: 0\nvendor_id\t: GenuineIntel\nmodel name\t: cpu\n{}flags\t\t: fpu\n\nprocessor\t: 1\n", mc));
        v.push(Item { name: format!("analysis-cpuinfo-microcode-{}", k), cpu: "amd64".into(), dump: build(&spec), symbols: HashMap::new(), corrupted: false });
    }
    // (1f) a null pointer in disguise: the base register of the crashing instruction's memory operand is zero (adjusted address = offset)
    for (k, (op, off)) in [(&[0x8au8, 0x43, 0x10][..], 0x10u64), (&[0x48, 0x8b, 0x83, 0x00, 0x01, 0x00, 0x00][..], 0x100), (&[0x48, 0x89, 0x43, 0x08][..], 8)].into_iter().enumerate() {
        let mut spec = DumpSpec { os: "windows".into(), cpu: "amd64".into(), ..DumpSpec::default() };
        spec.threads.push(ThreadSpec { id: 1, ctx_ok: true, name: None, ip: 0x400150, sp: 0x10008, stack_base: 0x10000, stack: vec![0u8; 64] });
        spec.modules = vec![ModuleSpec { base: 0x400000, size: 0x1000, name: "m1".into() }];
        spec.memory_info = vec![RegionSpec { base: 0x10000, size: 0x8000, protection: 4, state: 0x1000 }, RegionSpec { base: 0x400000, size: 0x1000, protection: 0x20, state: 0x1000 }];
        let mut bytes = op.to_vec();
        bytes.resize(16, 0x90);
        spec.extra_memory.push((0x400150, bytes)); // mov al,[rbx+0x10] / mov rax,[rbx+0x100] / mov [rbx+8],rax with rbx = 0
        let mut info = [0u64; 15];
        info[0] = if k == 2 { 1 } else { 0 };
        info[1] = off;
        spec.exception = Some(ExcSpec { tid: 1, has_ctx: true, ctx_ok: true, ctx_ip: 0x400150, ctx_sp: 0x10008, code: 0xC000_0005, flags: 0, address: 0x400150, nparams: 2, info, ctx_patch: vec![(144usize, 0)] });
        v.push(Item { name: format!("analysis-null-plus-offset-{}", k), cpu: "amd64".into(), dump: build(&spec), symbols: HashMap::new(), corrupted: false });
    }
    // (1g) symbol files whose INLINE records point at things that were never declared (origin id, call-site file id), with the
    //      context frame inside the inlined range
    for (k, inl) in ["INLINE 0 7 1 9 120 8\n", "INLINE 0 7 9 0 120 8\nINLINE 1 8 9 9 120 4\n", "INLINE 0 7 1 0 120 8\nINLINE 1 8 1 9 120 8\nINLINE 2 9 1 0 120 8\n"].into_iter().enumerate() {
        let mut spec = DumpSpec { os: "linux".into(), cpu: "amd64".into(), ..DumpSpec::default() };
        spec.threads.push(ThreadSpec { id: 1, ctx_ok: true, name: None, ip: 0x400122, sp: 0x10008, stack_base: 0x10000, stack: vec![0u8; 64] });
        spec.modules = vec![ModuleSpec { base: 0x400000, size: 0x1000, name: "m1".into() }];
        let mut symbols = HashMap::new();
        symbols.insert("m1".to_string(), format!("MODULE Linux x86_64 000 m1\nFILE 1 a.c\nINLINE_ORIGIN 0 inlined\nFUNC 100 100 0 outer\n{}100 40 11 1\n", inl));
        v.push(Item { name: format!("analysis-inline-undeclared-{}", k), cpu: "amd64".into(), dump: build(&spec), symbols, corrupted: false });
    }
    // (1h) Linux dumps whose numeric OS version is 0.0.0, so that everything comes from the uname text: every number of tokens, runs of blanks
    for (k, csd) in ["Linux", "Linux 5.4.0-42-generic", "Linux 3.10.0 Linux/GNU", "Linux 5.4.0-42-generic #46-Ubuntu SMP Fri Jul 10 00:24:02 UTC 2020 x86_64",
                     "Linux 5.4.0 #1 SMP Sat Nov  7 10:00:00 UTC 2020 x86_64", " ", "Linux  ", "5.4.0", "Linux 5.4.0-42-generic x86_64"].into_iter().enumerate() {
        let mut spec = DumpSpec { os: "linux".into(), cpu: "amd64".into(), ..DumpSpec::default() };
        spec.threads.push(ThreadSpec { id: 1, ctx_ok: true, name: None, ip: 0x400150, sp: 0x10008, stack_base: 0x10000, stack: vec![0u8; 64] });
        spec.modules = vec![ModuleSpec { base: 0x400000, size: 0x1000, name: "m1".into() }];
        spec.csd = Some(csd.to_string());
        spec.os_version = Some((0, 0, 0));
        v.push(Item { name: format!("analysis-uname-{}", k), cpu: "amd64".into(), dump: build(&spec), symbols: HashMap::new(), corrupted: false });
    }
    // (1i) memory operands whose base sits at the middle of the address space, with a displacement across it
    for (k, (op, val)) in [(&[0x48u8, 0x8b, 0x43, 0x10][..], 0x7fff_ffff_ffff_fff8u64), (&[0x48, 0x8b, 0x43, 0xf8][..], 0x8000_0000_0000_0000), (&[0x48, 0x8b, 0x43, 0x7f][..], 0x7fff_ffff_ffff_ffff),
                           (&[0x48, 0x8b, 0x83, 0x00, 0x00, 0x00, 0x80][..], 0x8000_0000_0000_0010)].into_iter().enumerate() {
        let mut spec = DumpSpec { os: "windows".into(), cpu: "amd64".into(), ..DumpSpec::default() };
        spec.threads.push(ThreadSpec { id: 1, ctx_ok: true, name: None, ip: 0x400150, sp: 0x10008, stack_base: 0x10000, stack: vec![0u8; 64] });
        spec.modules = vec![ModuleSpec { base: 0x400000, size: 0x1000, name: "m1".into() }];
        spec.memory_info = vec![RegionSpec { base: 0x10000, size: 0x8000, protection: 4, state: 0x1000 }, RegionSpec { base: 0x400000, size: 0x1000, protection: 0x20, state: 0x1000 }];
        let mut bytes = op.to_vec();
        bytes.resize(16, 0x90);
        spec.extra_memory.push((0x400150, bytes));
        let mut info = [0u64; 15];
        info[1] = val;
        spec.exception = Some(ExcSpec { tid: 1, has_ctx: true, ctx_ok: true, ctx_ip: 0x400150, ctx_sp: 0x10008, code: 0xC000_0005, flags: 0, address: 0x400150, nparams: 2, info, ctx_patch: vec![(144usize, val)] });
        v.push(Item { name: format!("analysis-operand-across-the-middle-{}", k), cpu: "amd64".into(), dump: build(&spec), symbols: HashMap::new(), corrupted: false });
    }
    // (1j) more frames than any report would want to show: an x86 frame-pointer chain of 1100 frames
    {
        let n = 1100usize;
        let mut stack = vec![0u8; 8 * n + 16];
        for i in 0..n {
            let at = 8 * i;
            let next = if i + 1 < n { 0x20000u32 + 8 * (i as u32 + 1) } else { 0 };
            stack[at..at + 4].copy_from_slice(&next.to_le_bytes());
            stack[at + 4..at + 8].copy_from_slice(&0x400120u32.to_le_bytes());
        }
        let mut spec = DumpSpec { os: "linux".into(), cpu: "x86".into(), ..DumpSpec::default() };
        spec.threads.push(ThreadSpec { id: 1, ctx_ok: true, name: None, ip: 0x400150, sp: 0x20000, stack_base: 0x20000, stack });
        spec.modules = vec![ModuleSpec { base: 0x400000, size: 0x1000, name: "m1".into() }];
        v.push(Item { name: "analysis-long-frame-pointer-chain".into(), cpu: "x86".into(), dump: build(&spec), symbols: HashMap::new(), corrupted: false });
    }
    // (1k) two libraries that share a leaf name and carry no identifiers, looked up from two threads; the symbol file of one of them does not
    //      parse.  The per-module symbol flags of the report must not depend on which look-up finishes first.
    for (k, broken) in ["/system/lib64/libcodec.so", "/vendor/lib64/libcodec.so"].into_iter().enumerate() {
        let mut spec = DumpSpec { os: "linux".into(), cpu: "amd64".into(), ..DumpSpec::default() };
        let mut stack = vec![0u8; 64];
        stack[..8].copy_from_slice(&0x430150u64.to_le_bytes());
        spec.threads.push(ThreadSpec { id: 1, ctx_ok: true, name: None, ip: 0x400350, sp: 0x10000, stack_base: 0x10000, stack });
        spec.threads.push(ThreadSpec { id: 2, ctx_ok: true, name: None, ip: 0x440150, sp: 0x11000, stack_base: 0x11000, stack: vec![0u8; 64] });
        spec.modules = vec![ModuleSpec { base: 0x400000, size: 0x1000, name: "m1".into() }, ModuleSpec { base: 0x430000, size: 0x1000, name: "/system/lib64/libcodec.so".into() },
                            ModuleSpec { base: 0x440000, size: 0x1000, name: "/vendor/lib64/libcodec.so".into() }];
        let mut symbols = HashMap::new();
        symbols.insert("m1".to_string(), "MODULE Linux x86_64 000 m1\nFUNC 300 100 0 g\n".to_string());
        for name in ["/system/lib64/libcodec.so", "/vendor/lib64/libcodec.so"] {
            let text = if name == broken { "MODULE Linux x86_64 000 libcodec.so\nFUNC\n100 100 0 broken\n".to_string() } else { "MODULE Linux x86_64 000 libcodec.so\nFUNC 100 100 0 codec_decode\n".to_string() };
            symbols.insert(name.to_string(), text);
        }
        v.push(Item { name: format!("analysis-same-leaf-one-corrupt-{}", k), cpu: "amd64".into(), dump: build(&spec), symbols, corrupted: false });
    }
    // (1b) the dump header has no time stamp (zeroed here) but the process start time is known: anything
    //      derived from "the time of the crash" must come from the dump, not from the clock.  The name asks the determinism
    //      recorder to let a second pass before the last run.
    {
        let mut spec = DumpSpec { os: "windows".into(), cpu: "amd64".into(), ..DumpSpec::default() };
        spec.threads.push(ThreadSpec { id: 1, ctx_ok: true, name: None, ip: 0x400150, sp: 0x10008, stack_base: 0x10000, stack: vec![0u8; 64] });
        spec.modules = vec![ModuleSpec { base: 0x400000, size: 0x1000, name: "m1".into() }];
        spec.misc_pid = Some(Some(77));
        spec.misc_create_time = Some(1_600_000_000);
        let mut dump = build(&spec);
        for b in &mut dump[20..24] { *b = 0; } // MINIDUMP_HEADER.time_date_stamp
        v.push(Item { name: "analysis-clock-sleep".into(), cpu: "amd64".into(), dump, symbols: HashMap::new(), corrupted: false });
    }
    // (2) Linux amd64 crash on a memory access, no memory-info stream, /proc/maps rows incl. one that spans everything
    for maps in ["0-ffffffffffffffff rw-p 00000000 00:00 0\n", "00000000-ffffffffffffffff ---p 00000000 00:00 0 [everything]\n00010000-00018000 rw-p 00000000 00:00 0 [stack]\n",
                 "ffffffffffff0000-ffffffffffffffff rw-p 00000000 00:00 0\n0-1000 ---p 00000000 00:00 0\n"] {
        for op in [&[0x8au8, 0x04, 0x24][..], &[0xff, 0x04, 0x24], &[0x48, 0x8b, 0x00], &[0xff, 0x20]] {
            let mut spec = DumpSpec { os: "linux".into(), cpu: "amd64".into(), ..DumpSpec::default() };
            spec.threads.push(ThreadSpec { id: 1, ctx_ok: true, name: None, ip: 0x400150, sp: 0x10008, stack_base: 0x10000, stack: vec![0u8; 64] });
            spec.modules = vec![ModuleSpec { base: 0x400000, size: 0x1000, name: "m1".into() }];
            spec.linux_maps = Some(maps.to_string());
            let mut bytes = op.to_vec();
            bytes.resize(16, 0x90);
            spec.extra_memory.push((0x400150, bytes));
            spec.exception = Some(ExcSpec { tid: 1, has_ctx: true, ctx_ok: true, ctx_ip: 0x400150, ctx_sp: 0x10008, code: 11, flags: 1, address: 0x10008, nparams: 0, info: [0u64; 15],
                                            ctx_patch: vec![(120usize, 0xffff_ffff_ffff_fff8)] }); // rax near the top of the address space
            v.push(Item { name: format!("analysis-maps-{}-{:02x}", maps.len(), op[0]), cpu: "amd64".into(), dump: build(&spec), symbols: HashMap::new(), corrupted: false });
        }
    }
    v
}

pub fn corpus(seed: u64, n: usize) -> Vec<Item> {
    let mut rng = StdRng::seed_from_u64(seed ^ 0xC0_4B05);
    let mut v: Vec<Item> = (0..n).map(|k| one(&mut rng, k)).collect();
    v.extend(analysis_items());
    v
}
