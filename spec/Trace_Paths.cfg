SPECIFICATION TSpec
CONSTANTS
  Tokens <- TokenSet
  MaxTok = 0
POSTCONDITION PostOk
CHECK_DEADLOCK FALSE
