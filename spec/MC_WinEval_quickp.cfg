SPECIFICATION Spec
CONSTANTS
  MaxLen = 3
  Tok = {"+","-","=","^",".undef","$T0","$eip","$esp","$ebp","$ebx",".raSearch",".raSearchStart",".cbLocals","l4","lm1","=l4"}
  InstIds = {"normal","grand","espwrap","ebpwrap"}
  Prefixes <- PrefixesStd
INVARIANTS TypeOK OnlyOuts NoImplicit Emit
CHECK_DEADLOCK FALSE
