SPECIFICATION Spec
CONSTANTS
  Clients = {"a"}
  N = 2
  MaxUrls = 1
  Statuses = {200, 404, 503}
  DropPts = {0, 1, 2, 3, 4}
  TmpOks = {TRUE, FALSE}
  MoveOks = {TRUE, FALSE}
  CacheOks = {TRUE, FALSE}
  Kinds = {"sym", "file"}
  Pres = {TRUE, FALSE}
INVARIANTS TypeOK CacheComplete NoStrayTemp NoEntryOnFailure AloneFailedLeavesNothing Emit
CHECK_DEADLOCK FALSE
