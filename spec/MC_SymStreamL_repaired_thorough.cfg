SPECIFICATION Spec
CONSTANTS
  InitCap = 2
  MaxCap = 32
  Repaired = TRUE
  LineLens = {1, 2, 7, 15, 17}
  MaxLines = 4
  TailLens = {0, 1, 3}
INVARIANTS WindowBounded OkMeansAll ChunkIndependent Beh
VIEW View
CHECK_DEADLOCK FALSE
