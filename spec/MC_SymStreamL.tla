---- MODULE MC_SymStreamL ----
(***************************************************************************)
(* SymStream at the real capacity RATIO (MaxCap = 16 * InitCap): inputs are  *)
(* given by line lengths (incl. terminator) plus an optional unterminated    *)
(* tail, every chunk schedule.  Because the loop is homogeneous-linear in    *)
(* (InitCap, MaxCap, line lengths, chunk sizes), a behaviour found here,     *)
(* multiplied by 5120, is a behaviour of the real (10 KiB, 160 KiB) loop;    *)
(* counterexamples are emitted as CEX lines and replayed on the real code.   *)
(***************************************************************************)
EXTENDS SymStream, Json
CONSTANTS LineLens, MaxLines, TailLens
VARIABLES input, S, sched
vars == <<input, S, sched>>
LineSeqs == UNION {[1..k -> LineLens] : k \in 0..MaxLines}
RECURSIVE Cum(_,_,_)
Cum(ls, i, acc) == IF i > Len(ls) THEN <<>> ELSE <<acc + ls[i]>> \o Cum(ls, i + 1, acc + ls[i])
Total(ls) == IF Len(ls) = 0 THEN 0 ELSE Cum(ls, 1, 0)[Len(ls)]
Inputs == {[len |-> Total(ls) + t, nls |-> Cum(ls, 1, 0), bad |-> {}] : ls \in LineSeqs, t \in TailLens}
Init == input \in Inputs /\ S = St0 /\ sched = <<>>
Next == /\ ~S.done
        /\ \E n \in Returns(SpaceOffered(input, S), input.len - S.fed) : S' = Iter(input, S, n).st /\ sched' = Append(sched, n)
        /\ UNCHANGED input
Spec == Init /\ [][Next]_vars
Precond == MaxLine(input) < MaxCap \div 2
ChunkIndependent == (S.done /\ Precond) => <<S.out, S.eline>> = WholeOutcome(input)
WindowBounded == S.cap <= MaxCap /\ S.end - S.pos = S.fed - S.total
OkMeansAll == (S.done /\ S.out = "ok") => S.total = input.len
\* VIEW: the schedule is history only
View == <<input, S>>
\* every complete behaviour (input + chunk schedule), replayed on the real code at scale 5120
Beh == S.done => PrintT(<<"BEH", ToJson([nls |-> input.nls, len |-> input.len, sched |-> sched, out |-> S.out])>>)
\* print every chunk-dependent terminal state as a replayable counterexample (used with the unrepaired loop)
Cex == (S.done /\ Precond /\ <<S.out, S.eline>> # WholeOutcome(input)) =>
          PrintT(<<"CEX", ToJson([nls |-> input.nls, len |-> input.len, sched |-> sched, out |-> S.out, whole |-> WholeOutcome(input)[1]])>>)
====
