---- MODULE Cli ----
(***************************************************************************)
(* minidump-stackwalk's option machine (minidump-stackwalk/src/main.rs and   *)
(* its --help): which report goes to which sink, and the exit status.        *)
(*   mode flags  : --human --json --cyborg <file> --dump   (one at most:     *)
(*                 clap argument group)                                      *)
(*   modifiers   : --brief (human, cyborg and dump only), --pretty (json and *)
(*                 cyborg only)                                              *)
(*   --output-file <f> : receives what standard output would                 *)
(*   --log-file <f>    : receives the logger's diagnostics instead of stderr   *)
(*   symbol sources    : positional paths, --symbols-path, --symbols-url with  *)
(*                       --symbols-cache / --symbols-tmp or their defaults     *)
(*   input class : a readable minidump; a file that is not a minidump;       *)
(*                 an empty file; a missing path; a directory                *)
(* Reports are abstract tokens; the harness obtains the bytes of each token  *)
(* from the library called in-process with the same options.                 *)
(* A behaviour sets options one at a time and finally runs the tool.         *)
(***************************************************************************)
EXTENDS Naturals, Sequences, FiniteSets, TLC, Json
Modes == {"human", "json", "cyborg", "dump"}
Inputs == {"valid", "unprocessable", "notadump", "empty", "missing", "directory"}
VARIABLES modes, brief, pretty, outfile, features, input, symbols, rfa, sink, logf, ran
vars == <<modes, brief, pretty, outfile, features, input, symbols, rfa, sink, logf, ran>>
Init == modes = {} /\ brief = FALSE /\ pretty = FALSE /\ outfile = FALSE /\ features = "stable-basic" /\ input = "valid" /\ symbols = "none" /\ rfa = FALSE /\ sink = "ok" /\ logf = "none" /\ ran = FALSE
AddMode == ~ran /\ Cardinality(modes) < 2 /\ \E m \in Modes \ modes : modes' = modes \cup {m} /\ UNCHANGED <<brief, pretty, outfile, features, input, symbols, rfa, sink, logf, ran>>
SetBrief == ~ran /\ ~brief /\ brief' = TRUE /\ UNCHANGED <<modes, pretty, outfile, features, input, symbols, rfa, sink, logf, ran>>
SetPretty == ~ran /\ ~pretty /\ pretty' = TRUE /\ UNCHANGED <<modes, brief, outfile, features, input, symbols, rfa, sink, logf, ran>>
SetOutfile == ~ran /\ ~outfile /\ outfile' = TRUE /\ UNCHANGED <<modes, brief, pretty, features, input, symbols, rfa, sink, logf, ran>>
SetFeatures == ~ran /\ sink = "ok" /\ logf = "none" /\ features = "stable-basic" /\ modes \subseteq {"json"} /\ ~brief /\ features' \in {"stable-all", "unstable-all"} /\ UNCHANGED <<modes, brief, pretty, outfile, input, symbols, rfa, sink, logf, ran>>
SetInput == ~ran /\ input = "valid" /\ input' \in Inputs \ {"valid"} /\ UNCHANGED <<modes, brief, pretty, outfile, features, symbols, rfa, sink, logf, ran>>
SetSymbols == ~ran /\ sink = "ok" /\ logf = "none" /\ symbols = "none" /\ modes \subseteq {"json", "human", "cyborg"} /\ ~brief /\ ~outfile /\ input = "valid" /\ symbols' \in {"positional", "flag", "both", "http_cache", "http_default"}
              /\ UNCHANGED <<modes, brief, pretty, outfile, features, input, rfa, sink, logf, ran>>
\* --recover-function-args is an analysis option of the library: it changes what the reports contain, never which report goes where
SetRfa == ~ran /\ sink = "ok" /\ logf = "none" /\ ~rfa /\ ~outfile /\ ~pretty /\ features = "stable-basic" /\ input = "valid" /\ rfa' = TRUE /\ UNCHANGED <<modes, brief, pretty, outfile, features, input, symbols, sink, logf, ran>>
\* a sink whose file cannot be created (its directory does not exist); --log-file, creatable or not
SetSink == ~ran /\ sink = "ok" /\ symbols = "none" /\ ~rfa /\ features = "stable-basic" /\ sink' \in (IF "cyborg" \in modes THEN {"cyborg_bad"} ELSE {}) \cup (IF outfile THEN {"outfile_bad", "outfile_full"} ELSE {})
           /\ UNCHANGED <<modes, brief, pretty, outfile, features, input, symbols, rfa, logf, ran>>
SetLog == ~ran /\ logf = "none" /\ symbols = "none" /\ ~rfa /\ features = "stable-basic" /\ sink = "ok" /\ logf' \in {"ok", "bad"} /\ UNCHANGED <<modes, brief, pretty, outfile, features, input, symbols, rfa, sink, ran>>
Run == ~ran /\ ran' = TRUE /\ UNCHANGED <<modes, brief, pretty, outfile, features, input, symbols, rfa, sink, logf>>
Next == AddMode \/ SetBrief \/ SetPretty \/ SetOutfile \/ SetFeatures \/ SetInput \/ SetSymbols \/ SetRfa \/ SetSink \/ SetLog \/ Run
Spec == Init /\ [][Next]_vars
\* ---- the documented behaviour ----
GroupOk == Cardinality(modes) <= 1                                 \* clap rejects two mode flags (usage error)
Dump == "dump" \in modes
Cyborg == "cyborg" \in modes
Json == "json" \in modes \/ Cyborg
Human == Cyborg \/ (~Json /\ ~Dump)
PrettyOk == pretty => Json
BriefOk == brief => (Human \/ Dump)
Accepted == GroupOk /\ PrettyOk /\ BriefOk
Readable == input \in {"valid", "unprocessable"}                    \* Minidump::read succeeds
JsonTok == IF pretty THEN "json_pretty" ELSE "json"
HumanTok == IF brief THEN "text_brief" ELSE "text"
\* where the diagnostic of a failure goes: messages of the tool's logger follow --log-file, everything else is on standard error
Logged == IF logf = "ok" THEN "log" ELSE "stderr"
Silent(d) == [exit |-> "one", primary |-> <<>>, cyborg |-> <<>>, diag |-> d]
Outcome0 ==
  IF ~GroupOk THEN [exit |-> "usage", primary |-> <<>>, cyborg |-> <<>>]
  ELSE IF logf = "bad" THEN Silent("stderr")                         \* the log file is opened first
  ELSE IF ~Accepted THEN Silent(Logged)
  ELSE IF ~Readable THEN Silent(Logged)
  ELSE IF sink \in {"cyborg_bad", "outfile_bad"} THEN Silent("stderr")                          \* both sinks are created before anything is written
  ELSE IF Dump THEN [exit |-> "zero", primary |-> <<IF brief THEN "dump_brief" ELSE "dump">>, cyborg |-> <<>>]      \* the raw dump needs no processing
  ELSE IF input = "unprocessable" THEN Silent(Logged)
  ELSE IF Cyborg THEN [exit |-> "zero", primary |-> <<HumanTok>>, cyborg |-> <<JsonTok>>]
  ELSE IF Json THEN [exit |-> "zero", primary |-> <<JsonTok>>, cyborg |-> <<>>]
  ELSE [exit |-> "zero", primary |-> <<HumanTok>>, cyborg |-> <<>>]
\* an output file that can be created but not written to (a full device): the report cannot be delivered, so the run fails
Outcome1 == IF sink = "outfile_full" /\ Outcome0.exit = "zero" THEN Silent("stderr") ELSE Outcome0
Outcome == IF "diag" \in DOMAIN Outcome1 THEN Outcome1 ELSE [exit |-> Outcome1.exit, primary |-> Outcome1.primary, cyborg |-> Outcome1.cyborg, diag |-> IF Outcome1.exit = "zero" THEN "none" ELSE "stderr"]
\* ---- design-level properties ----
\* a failing run never produces a report; a successful one produces exactly one report on the primary sink
FailureIsSilent == Outcome.exit # "zero" => (Outcome.primary = <<>> /\ Outcome.cyborg = <<>>)
SuccessHasPrimary == Outcome.exit = "zero" => Len(Outcome.primary) = 1
CyborgOnlyWithCyborg == Outcome.cyborg # <<>> => Cyborg
Emit == ran => PrintT(<<"CASE", ToJson([modes |-> modes, brief |-> brief, pretty |-> pretty, outfile |-> outfile, features |-> features, input |-> input,
                                          symbols |-> symbols, rfa |-> rfa, sink |-> sink, logf |-> logf, out |-> Outcome])>>)
====
