---- MODULE Cli ----
(***************************************************************************)
(* minidump-stackwalk's option machine (minidump-stackwalk/src/main.rs and   *)
(* its --help): which report goes to which sink, and the exit status.        *)
(*   mode flags  : --human --json --cyborg <file> --dump   (one at most:     *)
(*                 clap argument group)                                      *)
(*   modifiers   : --brief (human, cyborg and dump only), --pretty (json and *)
(*                 cyborg only)                                              *)
(*   --output-file <f> : receives what standard output would                 *)
(*   input class : a readable minidump; a file that is not a minidump;       *)
(*                 an empty file; a missing path; a directory                *)
(* Reports are abstract tokens; the harness obtains the bytes of each token  *)
(* from the library called in-process with the same options.                 *)
(* A behaviour sets options one at a time and finally runs the tool.         *)
(***************************************************************************)
EXTENDS Naturals, Sequences, FiniteSets, TLC, Json
Modes == {"human", "json", "cyborg", "dump"}
Inputs == {"valid", "unprocessable", "notadump", "empty", "missing", "directory"}
VARIABLES modes, brief, pretty, outfile, features, input, symbols, rfa, ran
vars == <<modes, brief, pretty, outfile, features, input, symbols, rfa, ran>>
Init == modes = {} /\ brief = FALSE /\ pretty = FALSE /\ outfile = FALSE /\ features = "stable-basic" /\ input = "valid" /\ symbols = "none" /\ rfa = FALSE /\ ran = FALSE
AddMode == ~ran /\ Cardinality(modes) < 2 /\ \E m \in Modes \ modes : modes' = modes \cup {m} /\ UNCHANGED <<brief, pretty, outfile, features, input, symbols, rfa, ran>>
SetBrief == ~ran /\ ~brief /\ brief' = TRUE /\ UNCHANGED <<modes, pretty, outfile, features, input, symbols, rfa, ran>>
SetPretty == ~ran /\ ~pretty /\ pretty' = TRUE /\ UNCHANGED <<modes, brief, outfile, features, input, symbols, rfa, ran>>
SetOutfile == ~ran /\ ~outfile /\ outfile' = TRUE /\ UNCHANGED <<modes, brief, pretty, features, input, symbols, rfa, ran>>
SetFeatures == ~ran /\ features = "stable-basic" /\ modes \subseteq {"json"} /\ ~brief /\ features' \in {"stable-all", "unstable-all"} /\ UNCHANGED <<modes, brief, pretty, outfile, input, symbols, rfa, ran>>
SetInput == ~ran /\ input = "valid" /\ input' \in Inputs \ {"valid"} /\ UNCHANGED <<modes, brief, pretty, outfile, features, symbols, rfa, ran>>
SetSymbols == ~ran /\ symbols = "none" /\ modes \subseteq {"json", "human", "cyborg"} /\ ~brief /\ ~outfile /\ input = "valid" /\ symbols' \in {"positional", "flag", "both"}
              /\ UNCHANGED <<modes, brief, pretty, outfile, features, input, rfa, ran>>
\* --recover-function-args is an analysis option of the library: it changes what the reports contain, never which report goes where
SetRfa == ~ran /\ ~rfa /\ ~outfile /\ ~pretty /\ features = "stable-basic" /\ input = "valid" /\ rfa' = TRUE /\ UNCHANGED <<modes, brief, pretty, outfile, features, input, symbols, ran>>
Run == ~ran /\ ran' = TRUE /\ UNCHANGED <<modes, brief, pretty, outfile, features, input, symbols, rfa>>
Next == AddMode \/ SetBrief \/ SetPretty \/ SetOutfile \/ SetFeatures \/ SetInput \/ SetSymbols \/ SetRfa \/ Run
Spec == Init /\ [][Next]_vars
\* ---- the documented behaviour ----
GroupOk == Cardinality(modes) <= 1                                 \* clap rejects two mode flags (usage error)
Dump == "dump" \in modes
Cyborg == "cyborg" \in modes
Json == "json" \in modes \/ Cyborg
Human == Cyborg \/ (~Json /\ ~Dump)
PrettyOk == pretty => Json
BriefOk == brief => (Human \/ Dump)
Accepted == GroupOk /\ PrettyOk /\ BriefOk
Readable == input \in {"valid", "unprocessable"}                    \* Minidump::read succeeds
JsonTok == IF pretty THEN "json_pretty" ELSE "json"
HumanTok == IF brief THEN "text_brief" ELSE "text"
Outcome ==
  IF ~GroupOk THEN [exit |-> "usage", primary |-> <<>>, cyborg |-> <<>>]
  ELSE IF ~Accepted THEN [exit |-> "one", primary |-> <<>>, cyborg |-> <<>>]
  ELSE IF ~Readable THEN [exit |-> "one", primary |-> <<>>, cyborg |-> <<>>]
  ELSE IF Dump THEN [exit |-> "zero", primary |-> <<IF brief THEN "dump_brief" ELSE "dump">>, cyborg |-> <<>>]      \* the raw dump needs no processing
  ELSE IF input = "unprocessable" THEN [exit |-> "one", primary |-> <<>>, cyborg |-> <<>>]
  ELSE IF Cyborg THEN [exit |-> "zero", primary |-> <<HumanTok>>, cyborg |-> <<JsonTok>>]
  ELSE IF Json THEN [exit |-> "zero", primary |-> <<JsonTok>>, cyborg |-> <<>>]
  ELSE [exit |-> "zero", primary |-> <<HumanTok>>, cyborg |-> <<>>]
\* ---- design-level properties ----
\* a failing run never produces a report; a successful one produces exactly one report on the primary sink
FailureIsSilent == Outcome.exit # "zero" => (Outcome.primary = <<>> /\ Outcome.cyborg = <<>>)
SuccessHasPrimary == Outcome.exit = "zero" => Len(Outcome.primary) = 1
CyborgOnlyWithCyborg == Outcome.cyborg # <<>> => Cyborg
Emit == ran => PrintT(<<"CASE", ToJson([modes |-> modes, brief |-> brief, pretty |-> pretty, outfile |-> outfile, features |-> features, input |-> input,
                                          symbols |-> symbols, rfa |-> rfa, out |-> Outcome])>>)
====
