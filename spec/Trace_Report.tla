---- MODULE Trace_Report ----
(***************************************************************************)
(* C15: the JSON report of a process state, as documented in                 *)
(* minidump-processor/json-schema.md.  The harness has already required the  *)
(* bytes to be UTF-8 and to parse as JSON (field "lexical"), and projected   *)
(* the value to a tagged form TLC can read: {t: null | b | n | big | f | s | *)
(* a | o, v: ...} (no JSON null, no integer above 2^31).  One record per     *)
(* report: [id, lexical, width, req, report, modules] where modules is the   *)
(* module list of the library's ProcessState (base / size as limbs).         *)
(* Schema(r): names, types and enumerations; Hex(x): "0x" + lowercase hex    *)
(* digits, padded to the platform width; Consistent(r): the redundant fields *)
(* agree.                                                                    *)
(***************************************************************************)
EXTENDS Words, FiniteSets, TLC, Json, IOUtils
Rec == ndJsonDeserialize(IOEnv.VERIF_TRACE)
VARIABLE l
F(o, k) == o.v[k]
Has(o, k) == o.t = "o" /\ k \in DOMAIN o.v
IsNull(x) == x.t = "null"
Opt(o, k, P(_)) == Has(o, k) => (IsNull(F(o, k)) \/ P(F(o, k)))          \* every field is optional and may be null
IsStr(x) == x.t = "s"   IsNum(x) == x.t \in {"n", "big"}   IsBool(x) == x.t = "b"   IsArr(x) == x.t = "a"   IsObj(x) == x.t = "o"
HexDigits == {"0","1","2","3","4","5","6","7","8","9","a","b","c","d","e","f"}
HexVal1(c) == CASE c = "0" -> 0 [] c = "1" -> 1 [] c = "2" -> 2 [] c = "3" -> 3 [] c = "4" -> 4 [] c = "5" -> 5 [] c = "6" -> 6 [] c = "7" -> 7
                [] c = "8" -> 8 [] c = "9" -> 9 [] c = "a" -> 10 [] c = "b" -> 11 [] c = "c" -> 12 [] c = "d" -> 13 [] c = "e" -> 14 [] c = "f" -> 15
\* a hexstring: "0x" + at least w lowercase hex digits (exactly w unless the value needs more), fits u64
HexW(x, w) == /\ x.t = "s" /\ Len(x.v) >= w + 2 /\ Len(x.v) <= 18 /\ SubSeq(x.v, 1, 2) = "0x"
              /\ \A i \in 3..Len(x.v) : SubSeq(x.v, i, i) \in HexDigits
              /\ (Len(x.v) > w + 2 => SubSeq(x.v, 3, 3) # "0")
Limb(s, k) == LET n == Len(s)  hi == n - 4 * (k + 1) IN
   LET d(j) == IF hi + j >= 3 /\ hi + j <= n THEN HexVal1(SubSeq(s, hi + j, hi + j)) ELSE 0 IN d(1) * 4096 + d(2) * 256 + d(3) * 16 + d(4)
Limbs(s) == <<Limb(s, 0), Limb(s, 1), Limb(s, 2), Limb(s, 3)>>
Trusts == {"context", "cfi", "frame_pointer", "scan", "cfi_scan", "prewalked", "non"}
CpuArchs == {"x86", "amd64", "ppc", "ppc64", "sparc", "arm", "arm64", "mips", "mips64", "unknown"}
FrameSchema(fr, w) ==
   /\ IsObj(fr) /\ Opt(fr, "frame", IsNum) /\ Opt(fr, "trust", LAMBDA x : IsStr(x) /\ x.v \in Trusts)
   /\ Opt(fr, "offset", LAMBDA x : HexW(x, w)) /\ Opt(fr, "module", IsStr) /\ Opt(fr, "module_offset", LAMBDA x : HexW(x, w))
   /\ Opt(fr, "function", IsStr) /\ Opt(fr, "function_offset", LAMBDA x : HexW(x, w)) /\ Opt(fr, "file", IsStr) /\ Opt(fr, "line", IsNum)
   /\ Opt(fr, "missing_symbols", IsBool) /\ Opt(fr, "inlines", IsArr) /\ Opt(fr, "unloaded_modules", IsArr)
   /\ Opt(fr, "registers", LAMBDA x : IsObj(x) /\ \A rn \in DOMAIN x.v : HexW(x.v[rn], w))
   /\ (Has(fr, "inlines") /\ IsArr(F(fr, "inlines")) => \A k \in 1..Len(F(fr, "inlines").v) : LET q == F(fr, "inlines").v[k] IN
          IsObj(q) /\ Opt(q, "function", IsStr) /\ Opt(q, "file", IsStr) /\ Opt(q, "line", IsNum))
   /\ (Has(fr, "unloaded_modules") /\ IsArr(F(fr, "unloaded_modules")) => \A k \in 1..Len(F(fr, "unloaded_modules").v) : LET q == F(fr, "unloaded_modules").v[k] IN
          IsObj(q) /\ Opt(q, "module", IsStr) /\ Opt(q, "offsets", LAMBDA x : IsArr(x) /\ \A z \in 1..Len(x.v) : HexW(x.v[z], w)))
ThreadSchema(th, w) == /\ IsObj(th) /\ Opt(th, "thread_name", IsStr) /\ Opt(th, "thread_id", IsNum) /\ Opt(th, "last_error_value", IsStr)
                       /\ Opt(th, "frame_count", IsNum) /\ Opt(th, "threads_index", IsNum)
                       /\ Opt(th, "frames", LAMBDA x : IsArr(x) /\ \A k \in 1..Len(x.v) : FrameSchema(x.v[k], w))
Schema(R, w) ==
   /\ IsObj(R) /\ Opt(R, "status", IsStr) /\ Opt(R, "pid", IsNum) /\ Opt(R, "thread_count", IsNum) /\ Opt(R, "main_module", IsNum)
   /\ Opt(R, "linux_memory_map_count", IsNum)
   /\ Opt(R, "crash_info", LAMBDA c : IsObj(c) /\ Opt(c, "type", IsStr) /\ Opt(c, "address", LAMBDA x : HexW(x, w)) /\ Opt(c, "crashing_thread", IsNum)
          /\ Opt(c, "assertion", IsStr) /\ Opt(c, "instruction", IsStr)
          /\ Opt(c, "adjusted_address", LAMBDA a : IsObj(a) /\ Opt(a, "kind", IsStr) /\ Opt(a, "address", LAMBDA x : HexW(x, w)) /\ Opt(a, "offset", LAMBDA x : HexW(x, w)))
          /\ Opt(c, "possible_bit_flips", LAMBDA a : IsArr(a) /\ \A k \in 1..Len(a.v) : LET b == a.v[k] IN
                 IsObj(b) /\ Opt(b, "address", LAMBDA x : HexW(x, w)) /\ Opt(b, "confidence", LAMBDA x : x.t = "f" /\ x.v = 1) /\ Opt(b, "source_register", IsStr))
          /\ Opt(c, "memory_accesses", LAMBDA a : IsArr(a) /\ \A k \in 1..Len(a.v) : LET b == a.v[k] IN
                 IsObj(b) /\ Opt(b, "address", LAMBDA x : HexW(x, w)) /\ Opt(b, "size", IsNum) /\ Opt(b, "access_type", LAMBDA x : IsStr(x) /\ x.v \in {"read", "write", "readwrite"}))
          /\ Opt(c, "crash_inconsistencies", IsArr))
   /\ Opt(R, "system_info", LAMBDA s : IsObj(s) /\ Opt(s, "os", IsStr) /\ Opt(s, "os_ver", IsStr) /\ Opt(s, "cpu_info", IsStr) /\ Opt(s, "cpu_count", IsNum)
          /\ Opt(s, "cpu_arch", LAMBDA x : IsStr(x) /\ x.v \in CpuArchs) /\ Opt(s, "cpu_microcode_version", LAMBDA x : IsStr(x)))
   /\ Opt(R, "threads", LAMBDA a : IsArr(a) /\ \A k \in 1..Len(a.v) : ThreadSchema(a.v[k], w))
   /\ Opt(R, "crashing_thread", LAMBDA t : ThreadSchema(t, w))
   /\ Opt(R, "modules", LAMBDA a : IsArr(a) /\ \A k \in 1..Len(a.v) : LET m == a.v[k] IN
          IsObj(m) /\ Opt(m, "base_addr", LAMBDA x : HexW(x, w)) /\ Opt(m, "end_addr", LAMBDA x : HexW(x, w)) /\ Opt(m, "filename", IsStr) /\ Opt(m, "debug_file", IsStr)
          /\ Opt(m, "debug_id", IsStr) /\ Opt(m, "code_id", IsStr) /\ Opt(m, "version", IsStr) /\ Opt(m, "loaded_symbols", IsBool) /\ Opt(m, "missing_symbols", IsBool)
          /\ Opt(m, "corrupt_symbols", IsBool))
   /\ Opt(R, "unloaded_modules", LAMBDA a : IsArr(a) /\ \A k \in 1..Len(a.v) : LET m == a.v[k] IN
          IsObj(m) /\ Opt(m, "base_addr", LAMBDA x : HexW(x, w)) /\ Opt(m, "end_addr", LAMBDA x : HexW(x, w)) /\ Opt(m, "filename", IsStr))
\* ---- consistency of the redundant fields ----
Num(x) == x.v
Threads(R) == F(R, "threads").v
Counts(R) == /\ F(R, "thread_count") = [t |-> "n", v |-> Len(Threads(R))]
             /\ \A i \in 1..Len(Threads(R)) : LET th == Threads(R)[i]  frs == F(th, "frames").v IN
                  /\ F(th, "frame_count") = [t |-> "n", v |-> Len(frs)]
                  /\ \A j \in 1..Len(frs) : F(frs[j], "frame") = [t |-> "n", v |-> j - 1]
ModBase(R, name) == LET Ms == F(R, "modules").v  S == {i \in 1..Len(Ms) : F(Ms[i], "filename").t = "s" /\ F(Ms[i], "filename").v = name} IN
   IF Cardinality(S) # 1 THEN <<>> ELSE Limbs(F(Ms[CHOOSE i \in S : TRUE], "base_addr").v)          \* ambiguous names: not judged
Offsets(R) == \A i \in 1..Len(Threads(R)) : \A j \in 1..Len(F(Threads(R)[i], "frames").v) : LET fr == F(Threads(R)[i], "frames").v[j] IN
   (~IsNull(F(fr, "module")) /\ ModBase(R, F(fr, "module").v) # <<>>) =>
        /\ ~IsNull(F(fr, "module_offset"))
        /\ Limbs(F(fr, "module_offset").v) = Sub(Limbs(F(fr, "offset").v), ModBase(R, F(fr, "module").v))
        /\ (~IsNull(F(fr, "function_offset")) => ~Lt(Limbs(F(fr, "module_offset").v), Limbs(F(fr, "function_offset").v)))   \* function base >= module base
\* "missing_symbols: whether we had symbols for this frame (currently redundant with `function`)"
MissingSymbolsMirror(R) == \A i \in 1..Len(Threads(R)) : \A j \in 1..Len(F(Threads(R)[i], "frames").v) : LET fr == F(Threads(R)[i], "frames").v[j] IN
   (Has(fr, "missing_symbols") /\ IsBool(F(fr, "missing_symbols"))) =>
        (F(fr, "missing_symbols").v <=> (~Has(fr, "function") \/ IsNull(F(fr, "function"))))
\* a frame is attributed to the module that contains its address ("offset"): when exactly one listed module covers the address the frame
\* names it, and a frame that names a (uniquely named) module lies inside it.  end_addr is exclusive.
Covering(R, off) == LET Ms == F(R, "modules").v IN {i \in 1..Len(Ms) : /\ F(Ms[i], "base_addr").t = "s" /\ F(Ms[i], "end_addr").t = "s"
                                                                      /\ Le(Limbs(F(Ms[i], "base_addr").v), off) /\ Lt(off, Limbs(F(Ms[i], "end_addr").v))}
ModuleAttribution(R) == \A i \in 1..Len(Threads(R)) : \A j \in 1..Len(F(Threads(R)[i], "frames").v) : LET fr == F(Threads(R)[i], "frames").v[j] IN
   (Has(fr, "offset") /\ F(fr, "offset").t = "s" /\ Has(R, "modules") /\ IsArr(F(R, "modules"))) =>
      LET off == Limbs(F(fr, "offset").v)  cov == Covering(R, off)  Ms == F(R, "modules").v IN
        /\ (Cardinality(cov) = 1 => LET m == Ms[CHOOSE k \in cov : TRUE] IN (F(m, "filename").t = "s" => (~IsNull(F(fr, "module")) /\ F(fr, "module").v = F(m, "filename").v)))
        /\ (cov = {} => IsNull(F(fr, "module")))
IpNames == {"eip", "rip", "pc", "srr0"}
\* the crashing-thread copy is the indexed thread plus the registers of frame 0
Copy(R, req) == IF ~Has(R, "crashing_thread") \/ IsNull(F(R, "crashing_thread")) THEN req = 0 \/ Len(F(Threads(R)[req], "frames").v) >= 0
   ELSE LET ct == F(R, "crashing_thread")  ti == Num(F(ct, "threads_index")) + 1  th == Threads(R)[ti]
            cf == F(ct, "frames").v  tf == F(th, "frames").v IN
        /\ ti = req
        /\ Num(F(F(R, "crash_info"), "crashing_thread")) + 1 = ti
        /\ F(ct, "frame_count") = F(th, "frame_count") /\ F(ct, "thread_name") = F(th, "thread_name") /\ Len(cf) = Len(tf)
        /\ \A j \in 2..Len(cf) : cf[j] = tf[j]
        /\ Len(cf) >= 1 =>
             /\ \A k \in DOMAIN tf[1].v : k \in DOMAIN cf[1].v /\ cf[1].v[k] = tf[1].v[k]
             /\ DOMAIN cf[1].v = DOMAIN tf[1].v \cup {"registers"}
             /\ IsObj(F(cf[1], "registers"))
             /\ \E rn \in IpNames \cap DOMAIN F(cf[1], "registers").v : Limbs(F(cf[1], "registers").v[rn].v) = Limbs(F(cf[1], "offset").v)
\* the modules array mirrors the library's module list: same order, names, base and end = base + size
Mirrors(R, mods) == LET Ms == F(R, "modules").v IN
   /\ Len(Ms) = Len(mods)
   /\ \A i \in 1..Len(mods) : /\ F(Ms[i], "filename").v = mods[i].filename
                              /\ Limbs(F(Ms[i], "base_addr").v) = mods[i].base
                              /\ (~AddOverflows(mods[i].base, mods[i].size) => Limbs(F(Ms[i], "end_addr").v) = Add(mods[i].base, mods[i].size))
Verdict(i, r) ==
  /\ (r.lexical # "ok" => PrintT(<<"VERDICT", i, "ValidUtf8Json">>))
  /\ (r.lexical = "ok" =>
       /\ (~Schema(r.report, r.width) => PrintT(<<"VERDICT", i, "Schema">>))
       /\ (Schema(r.report, r.width) =>
            /\ (~Counts(r.report) => PrintT(<<"VERDICT", i, "CountsAndNumbering">>))
            /\ (~Offsets(r.report) => PrintT(<<"VERDICT", i, "Offsets">>))
            /\ (~MissingSymbolsMirror(r.report) => PrintT(<<"VERDICT", i, "MissingSymbolsMirror">>))
            /\ (~ModuleAttribution(r.report) => PrintT(<<"VERDICT", i, "ModuleAttribution">>))
            /\ (~Copy(r.report, r.req) => PrintT(<<"VERDICT", i, "CrashingThreadCopy">>))
            /\ (~Mirrors(r.report, r.modules) => PrintT(<<"VERDICT", i, "ModulesMirror">>))))
TInit == l = 1
TNext == l <= Len(Rec) /\ Verdict(l, Rec[l]) /\ l' = l + 1
TSpec == TInit /\ [][TNext]_l
PostOk == /\ PrintT(<<"TRACE", "matched", TLCGet("stats").diameter - 1, "of", Len(Rec)>>)
          /\ TLCGet("stats").diameter - 1 = Len(Rec)
====
