---- MODULE Trace_SymStream ----
(***************************************************************************)
(* Trace validation of SymbolFile::parse at the REAL constants.  The events  *)
(* are what a wrapping reader and callback see from outside (no hook):       *)
(*   Start {len, nls, maxline, whole, expect_ok}  a new parse; the input's   *)
(*         newline positions; the outcome of parsing the whole buffer        *)
(*   Read  {space, ret}   the slice length offered to the reader (= cap-end) *)
(*         and what it returned                                              *)
(*   Cb    {len, okbytes} a slice handed to the data callback; okbytes = 1   *)
(*         iff its bytes are the next bytes of the input                     *)
(*   End   {out, line, same} result; same = 1 iff the table equals the       *)
(*         whole-buffer table (both ok)                                      *)
(* Each step consumes all events of one loop iteration and requires them to  *)
(* be exactly those SymStream!Iter predicts.  Which line the parser rejects  *)
(* is the environment's choice, read off the End event.  Monitors (C09/C10)  *)
(* are invariants over every state of the validated trace.                   *)
(***************************************************************************)
EXTENDS SymStream, Json, IOUtils
Rec == ndJsonDeserialize(IOEnv.VERIF_TRACE)
VARIABLES l, S, input, meta, reads, l0
tvars == <<l, S, input, meta, reads, l0>>
NoInput == [len |-> 0, nls |-> <<>>, bad |-> {}]
NoMeta == [id |-> 0, maxline |-> 0, whole |-> "none", expect_ok |-> 0, same |-> 1, okbytes |-> 1, wb |-> TRUE, active |-> FALSE]
TInit == l = 1 /\ S = [St0 EXCEPT !.done = TRUE] /\ input = NoInput /\ meta = NoMeta /\ reads = 0 /\ l0 = 1 /\ TLCSet(1, 1)
\* ---- monitors (C09 / C10), evaluated on the state after each iteration; sticky until the parse ends, when every
\*      failed monitor is printed as a VERDICT line (the trace continues, so one run classifies all parses) ----
WindowOk(st, inp) == st.cap <= MaxCap /\ st.end <= st.cap /\ st.end - st.pos = st.fed - st.total /\ st.fed <= inp.len
Verdicts(id, st, inp, mt, nreads) ==
  /\ (~mt.wb => PrintT(<<"VERDICT", id, "WindowBounded">>))                                   \* C09
  /\ (nreads > 4 * inp.len + 64 => PrintT(<<"VERDICT", id, "ReadsBounded">>))                 \* C09
  /\ ((mt.expect_ok = 1 /\ st.out # "ok") => PrintT(<<"VERDICT", id, "LongLineDropped">>))    \* C09
  /\ (mt.okbytes # 1 => PrintT(<<"VERDICT", id, "CallbackPrefix">>))                          \* C10
  /\ ((st.out = "ok" /\ st.total # inp.len) => PrintT(<<"VERDICT", id, "OkMeansAll">>))       \* C10
  /\ ((mt.maxline < 81920 /\ ((st.out = "ok") # (mt.whole = "ok") \/ (st.out = "ok" /\ mt.same # 1)))
        => PrintT(<<"VERDICT", id, "ChunkIndependent">>))                                      \* C10
TStart == /\ l <= Len(Rec) /\ Rec[l].ev = "Start" /\ (S.done \/ ~meta.active)
          /\ S' = St0 /\ input' = [len |-> Rec[l].len, nls |-> Rec[l].nls, bad |-> {}]
          /\ meta' = [id |-> Rec[l].id, maxline |-> Rec[l].maxline, whole |-> Rec[l].whole, expect_ok |-> Rec[l].expect_ok, same |-> 1, okbytes |-> 1, wb |-> TRUE, active |-> TRUE]
          /\ reads' = 0 /\ l' = l + 1 /\ l0' = l + 1
\* events of the iteration that starts at Rec[l]: optional recovery callback, then the read
EvMatches(e, r) == /\ r.ev = e.ev
                   /\ (e.ev = "Read" => r.space = e.space /\ r.ret = e.ret)
                   /\ (e.ev = "Cb" => r.len = e.len)
                   /\ (e.ev = "End" => r.out = e.out /\ r.line = e.line)
\* the iteration starting at Rec[l] as SymStream predicts it from the read it contains
ItAt == LET k == IF S.rec THEN l + 1 ELSE l IN
        IF ~(k <= Len(Rec) /\ Rec[k].ev = "Read") THEN [ok |-> FALSE]
        ELSE LET n == Rec[k].ret
                 \* the environment's choice of a rejected line, read off the event that follows the read
                 after == Fill(Recover(input, S).st, n)
                 i == FirstLine(input, after.total + 1)
                 bad == IF k + 1 <= Len(Rec) /\ Rec[k+1].ev = "End" /\ Rec[k+1].out = "err_parse"
                        THEN {i + (Rec[k+1].line - after.plines)} ELSE {}
                 it == Iter([input EXCEPT !.bad = bad], S, n)
                 m == Len(it.evs) IN
             [ok |-> /\ l + m - 1 <= Len(Rec)
                     /\ \A q \in 1..m : EvMatches(it.evs[q], Rec[l + q - 1])
                     /\ n \in Returns(Space(Recover(input, S).st), input.len - S.fed),     \* the reader obeyed its contract
              it |-> it, m |-> m]
TIter == /\ meta.active /\ ~S.done /\ ItAt.ok
         /\ LET it == ItAt.it  m == ItAt.m IN
               /\ S' = it.st /\ l' = l + m /\ reads' = reads + 1
               /\ LET mt == [meta EXCEPT !.okbytes = IF \A q \in 1..m : (it.evs[q].ev = "Cb" => Rec[l + q - 1].okbytes = 1) THEN @ ELSE 0,
                                          !.same = IF it.st.done THEN Rec[l + m - 1].same ELSE @,
                                          !.wb = @ /\ WindowOk(it.st, input)] IN
                    /\ meta' = mt
                    /\ (it.st.done => Verdicts(mt.id, it.st, input, mt, reads + 1))
         /\ UNCHANGED <<input, l0>>
\* The recorded iteration is NOT a behaviour of SymStream (the loop was changed, or it panicked / was stopped).
\* That alone is drift, not a violation: the monitors are re-evaluated from the events of this parse alone
\* (no buffer model), a DRIFT line is printed, and validation resumes at the next Start.
RECURSIVE EndIdx(_)
EndIdx(k) == IF k > Len(Rec) THEN Len(Rec) ELSE IF Rec[k].ev = "End" THEN k ELSE EndIdx(k + 1)
RECURSIVE Scan(_,_,_,_,_,_,_)     \* k, last, fed, cb, nreads, maxwin, okb  ->  [fed, cb, nreads, maxwin, okb, maxspace]
Scan(k, last, fed, cb, nr, mw, okb) ==
   IF k > last THEN [fed |-> fed, cb |-> cb, nr |-> nr, mw |-> mw, okb |-> okb]
   ELSE IF Rec[k].ev = "Read" THEN LET f2 == fed + Rec[k].ret  w == f2 - cb  sp == Rec[k].space IN
            Scan(k + 1, last, f2, cb, nr + 1, IF sp > mw THEN (IF w > sp THEN w ELSE sp) ELSE (IF w > mw THEN w ELSE mw), okb)
   ELSE IF Rec[k].ev = "Cb" THEN Scan(k + 1, last, fed, cb + Rec[k].len, nr, mw, IF Rec[k].okbytes = 1 THEN okb ELSE 0)
   ELSE Scan(k + 1, last, fed, cb, nr, mw, okb)
TResync == /\ meta.active /\ ~S.done /\ ~ItAt.ok
           /\ LET e == EndIdx(l)
                  sc == Scan(l0, e, 0, 0, 0, 0, 1)
                  last == Rec[e]
                  out == IF last.ev = "End" THEN last.out ELSE "none"
                  st == [St0 EXCEPT !.out = out, !.total = sc.cb, !.done = TRUE]
                  mt == [meta EXCEPT !.okbytes = sc.okb, !.same = IF last.ev = "End" THEN last.same ELSE 1, !.wb = sc.mw <= MaxCap] IN
              /\ PrintT(<<"DRIFT", meta.id, l>>)
              /\ (out \in {"panic", "hang", "none"} => PrintT(<<"VERDICT", meta.id, "Total_" \o out>>))
              /\ Verdicts(mt.id, st, input, mt, sc.nr)
              /\ S' = [S EXCEPT !.done = TRUE] /\ meta' = [mt EXCEPT !.active = FALSE] /\ l' = e + 1
           /\ UNCHANGED <<input, reads, l0>>
TNext == TStart \/ TIter \/ TResync
TSpec == TInit /\ [][TNext]_tvars
Progress == TLCSet(1, IF TLCGet(1) < l THEN l ELSE TLCGet(1))
PostOk == /\ PrintT(<<"TRACE", "matched", TLCGet(1) - 1, "of", Len(Rec)>>)
          /\ TLCGet(1) = Len(Rec) + 1
====
