SPECIFICATION Spec
CONSTANTS
  NW = 4
  Mode = "any"
  MaxDepth = 1
  Pads = {0}
  Bits = 32
INVARIANTS WellFormed Bounded Emit
CHECK_DEADLOCK FALSE
