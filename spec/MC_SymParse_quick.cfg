SPECIFICATION Spec
CONSTANTS
  MaxLen = 4
  Alphabet = {"module", "info", "urlA", "urlB", "file1a", "file1b", "origin0", "pub800a", "pub800b", "pub1ff", "f1", "f1x", "f3", "f2", "fz", "l1", "l0", "l2", "l1b", "inl", "inlbad", "cfi", "d120", "d110", "winfd", "winfpo", "blank", "garbage"}
INVARIANTS TablesSane Emit
CHECK_DEADLOCK FALSE
