SPECIFICATION Spec
CONSTANTS
  NW = 36
  Mode = "built"
  MaxDepth = 5
  Pads = {0, 1}
  Bits = 64
INVARIANTS WellFormed Bounded MatchesBuild Emit
CHECK_DEADLOCK FALSE
