SPECIFICATION Spec
CONSTANTS
  MaxLen = 4
  Tok = {"+","-","*","/","%","@","^",".cfa",".undef","drax","brbx","dnope","bnope","t7","tm1","t8","t0","tmin","tbig","t4104"}
INVARIANTS TypeOK MachineIsEval NoSelfCfa UndefFails Emit
CHECK_DEADLOCK FALSE
