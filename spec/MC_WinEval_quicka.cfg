SPECIFICATION Spec
CONSTANTS
  MaxLen = 5
  Tok = {"/","%","*","-","+","@","=","$eip","l4","l8","lm1","lmin","l0","l3"}
  InstIds = {"normal"}
  Prefixes <- PrefixesNone
INVARIANTS TypeOK OnlyOuts NoImplicit Emit
CHECK_DEADLOCK FALSE
