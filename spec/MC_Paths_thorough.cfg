SPECIFICATION Spec
CONSTANTS
  Tokens <- TokenSet
  MaxTok = 5
INVARIANTS SpecContained Emit
CHECK_DEADLOCK FALSE
