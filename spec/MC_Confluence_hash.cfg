SPECIFICATION Spec
CONSTANTS
  Threads = {1, 2, 3}
  Keys = {1, 2, 3}
  Lookups <- L3
  CollectInCompletionOrder = FALSE
  SnapshotStatsEarly = FALSE
  EmitHashOrder = TRUE
INVARIANT Confluent
CHECK_DEADLOCK FALSE
