SPECIFICATION Spec
CONSTANT MaxBuild = 3
INVARIANTS VersionNeverEmpty UnameOnlyOnLinuxZero BuildPartClean StoredBuildIsTrimmed Emit
CHECK_DEADLOCK FALSE
