SPECIFICATION TSpec
CONSTANTS
  InitCap = 10240
  MaxCap = 163840
  Repaired = TRUE
CONSTRAINT Progress
POSTCONDITION PostOk
CHECK_DEADLOCK FALSE
