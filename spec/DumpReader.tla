---- MODULE DumpReader ----
(***************************************************************************)
(* The minidump reader as a validation protocol (minidump/src/minidump.rs). *)
(* A file of L bytes; a stream of SL bytes; every count / size / offset      *)
(* field the reader consumes is an adversarial number.  One action per       *)
(* validation step; the model accounts what the reader asks the allocator    *)
(* for *before* it has seen the bytes that would back the request (alloc,   *)
(* in elements x in-memory element size) and how many records it visits      *)
(* (work).  Guards names the validation steps that are in force; the tree    *)
(* as repaired has all of them, each mutant configuration drops one and      *)
(* must violate an invariant (that is how the model shows what each check    *)
(* is for).                                                                  *)
(*                                                                           *)
(* Numbers: the model's machine word is scaled (Half stands for 2^31, Max    *)
(* for 2^32-1; both are >> L, which is all the reader's comparisons can       *)
(* see); usize arithmetic is exact, as on a 64-bit host.                     *)
(*                                                                           *)
(* Protocol classes (one per family of MinidumpStream::read):                *)
(*   dir       header + directory walk + location_slice of one stream        *)
(*   counted   u32 count, entries, the 0-or-4-byte padding rule              *)
(*   exlist    header size, entry size, count                                *)
(*   handle    exlist whose entry size selects a layout, + rva chain          *)
(*   mem64     u64 count, base rva, consecutive slices                       *)
(*   exception fixed struct: parameter count indexes a 15-element array      *)
(*   maccrash  fixed header, <= 20 locations, versioned records              *)
(*   string    length-prefixed UTF-16 string by rva                          *)
(* C01: AllocBacked, WorkBounded, NoPanic.                                   *)
(***************************************************************************)
EXTENDS Naturals, Sequences, FiniteSets, TLC, Json
CONSTANTS Classes, Guards, L
AllGuards == {"count_in_bound", "descriptor_size", "chain_bound", "info_type", "param_bound", "record_cap", "slice_checked"}
Half == 1048576
Max == 2097151
\* the boundary values of the property, plus "ok" = the value a well-formed file has
Tags == {"zero", "one", "Lm1", "L", "Lp1", "half", "max", "ok"}
Num(tag, ok) == CASE tag = "zero" -> 0 [] tag = "one" -> 1 [] tag = "Lm1" -> L - 1 [] tag = "L" -> L [] tag = "Lp1" -> L + 1
                  [] tag = "half" -> Half [] tag = "max" -> Max [] tag = "ok" -> ok [] tag = "okp1" -> ok + 1 [] tag = "okm1" -> ok - 1
                  [] tag = "okp4" -> ok + 4 [] tag = "okm4" -> ok - 4 [] tag = "okp8" -> ok + 8 [] tag = "three" -> 3
                  [] tag = "d32" -> 32 [] tag = "d40" -> 40 [] tag = "n15" -> 15 [] tag = "n16" -> 16 [] tag = "n2" -> 2
                  [] tag = "n20" -> 20 [] tag = "n21" -> 21 [] tag = "v4" -> 4 [] tag = "v5" -> 5 [] tag = "v6" -> 6
                  [] tag = "self" -> ok [] tag = "back" -> ok [] tag = "unknown" -> 99 [] OTHER -> 0
\* ---- layout of the well-formed template the fields are substituted into (model units: bytes)
R0 == 256            \* rva of the stream
E(c) == CASE c = "counted" -> 48 [] c = "exlist" -> 24 [] c = "handle" -> 40 [] c = "mem64" -> 16 [] OTHER -> 1
M(c) == CASE c = "counted" -> 96 [] c = "exlist" -> 64 [] c = "handle" -> 128 [] c = "mem64" -> 48 [] OTHER -> 1     \* in-memory bytes per element (upper bounds)
OkCount == 2
OkSL(c) == CASE c = "counted" -> 4 + OkCount * 48 [] c = "exlist" -> 12 + OkCount * 24 [] c = "handle" -> 16 + OkCount * 40
             [] c = "mem64" -> 16 + OkCount * 16 [] c = "exception" -> 168 [] c = "maccrash" -> 172 [] c = "dir" -> 100 [] c = "string" -> 16
K == 8               \* allowed allocation per byte of file before the data has been read
VARIABLES cls, f, stage, alloc, work, outcome, n, link
vars == <<cls, f, stage, alloc, work, outcome, n, link>>
\* the field space of each class: which fields are adversarial and which values they take
Fields(c) ==
  CASE c = "dir" -> [stream_count : Tags, dir_rva : Tags, size : Tags, rva : Tags]
    [] c = "counted" -> [count : Tags \cup {"okp1", "okm1"}, dsize : {"ok", "okp4", "okm4", "okp8", "zero", "three", "Lp1", "max"}]
    [] c = "exlist" -> [hsize : Tags \cup {"okp4"}, esize : Tags \cup {"okp1"}, count : Tags \cup {"okp1"}]
    [] c = "handle" -> [dsize : {"zero", "one", "d32", "d40", "L", "max"}, count : {"ok", "okp1", "L", "half", "max"},
                        info : {"zero", "ok", "Lp1", "max"}, next : {"zero", "ok", "self", "back", "Lp1", "max"}, type : {"ok", "unknown", "max"}]
    [] c = "mem64" -> [count : Tags \cup {"okp1"}, base : Tags, size0 : Tags]
    [] c = "exception" -> [nparams : {"zero", "one", "n2", "n15", "n16", "half", "max"}, csize : Tags, crva : Tags]
    [] c = "maccrash" -> [rcount : {"zero", "one", "n2", "n20", "n21", "half", "max"}, start : Tags \cup {"okp1", "okm1"}, rsize : Tags, rrva : Tags,
                          version : {"zero", "one", "v4", "v5", "v6", "max"}]
    [] c = "string" -> [rva : Tags, len : Tags \cup {"okp1"}]
Init == /\ cls \in Classes /\ f \in Fields(cls)
        /\ stage = "start" /\ alloc = 0 /\ work = 0 /\ outcome = "running" /\ n = 0 /\ link = 0
Has(g) == g \in Guards
Fin(o) == /\ outcome' = o /\ stage' = "done" /\ UNCHANGED <<cls, f, n, link>>
Slice(rva, size) == rva + size <= L          \* location_slice: checked_add, then bytes.get(start..end)
\* ---------------------------------------------------------------- dir
DirCount == Num(f.stream_count, 3)
DirRva == Num(f.dir_rva, L - 36)
DirWalk == /\ cls = "dir" /\ stage = "start"
           /\ IF n < DirCount /\ DirRva + 12 * (n + 1) <= L
              THEN n' = n + 1 /\ work' = work + 1 /\ UNCHANGED <<cls, f, stage, alloc, outcome, link>>       \* one directory entry
              ELSE IF n < DirCount THEN Fin("read_err") /\ UNCHANGED <<alloc, work>>                        \* MissingDirectory: the file does not open
              ELSE stage' = "slice" /\ UNCHANGED <<cls, f, alloc, work, outcome, n, link>>
DirSlice == /\ cls = "dir" /\ stage = "slice"
            /\ IF f.stream_count = "ok" /\ f.dir_rva = "ok"
               THEN (IF Slice(Num(f.rva, R0), Num(f.size, 100)) THEN (IF f.rva = "ok" /\ f.size = "ok" THEN Fin("ok") ELSE Fin("any")) ELSE Fin("err"))
               ELSE Fin("any")            \* the directory is read from somewhere else: whatever is there, the file opens
            /\ UNCHANGED <<alloc, work>>
\* ---------------------------------------------------------------- counted / exlist / handle header
SL == IF cls = "counted" THEN Num(f.dsize, OkSL(cls)) ELSE OkSL(cls)
HSize == CASE cls = "counted" -> 4 [] cls = "exlist" -> Num(f.hsize, 12) [] cls = "handle" -> 16 [] cls = "mem64" -> 16
ESize == CASE cls = "counted" -> 48 [] cls = "exlist" -> Num(f.esize, 24) [] cls = "handle" -> Num(f.dsize, 40) [] cls = "mem64" -> 16
Count == Num(f.count, OkCount)
ListHeader ==
  /\ cls \in {"counted", "exlist", "handle"} /\ stage = "start"
  /\ IF cls = "counted" /\ ~Slice(R0, SL) /\ Has("slice_checked") THEN Fin("err") /\ UNCHANGED <<alloc, work>>
     ELSE IF SL < (IF cls = "counted" THEN 4 ELSE 12) THEN Fin("err") /\ UNCHANGED <<alloc, work>>              \* header does not fit
     ELSE IF cls = "exlist" /\ ESize # 24 THEN Fin("err") /\ UNCHANGED <<alloc, work>>                        \* entry size must be the known one
     ELSE IF cls = "handle" /\ Has("descriptor_size") /\ ESize \notin {32, 40} THEN Fin("err") /\ UNCHANGED <<alloc, work>>
     ELSE IF Has("count_in_bound") /\ Count * ESize + HSize > SL THEN Fin("err") /\ UNCHANGED <<alloc, work>>
     ELSE IF cls = "counted" /\ Has("count_in_bound") /\ (SL - (Count * ESize + HSize)) \notin {0, 4} THEN Fin("err") /\ UNCHANGED <<alloc, work>>
     ELSE IF cls = "exlist" /\ HSize < 12 THEN Fin("err") /\ UNCHANGED <<alloc, work>>                         \* header_padding underflow
     ELSE /\ alloc' = Count * M(cls)                                                                          \* Vec::with_capacity(count)
          /\ stage' = "entries" /\ UNCHANGED <<cls, f, work, outcome, n, link>>
Pad == IF cls = "counted" /\ SL >= Count * ESize + HSize /\ SL - (Count * ESize + HSize) = 4 THEN 4 ELSE 0
\* entries read from a shifted position are other bytes: what the per-entry follow-ups make of them is not modelled
Shifted == (cls = "counted" /\ Pad = 4) \/ (cls = "exlist" /\ HSize # 12)
ListEntries ==
  /\ cls \in {"counted", "exlist", "handle"} /\ stage = "entries"
  /\ IF n >= Count THEN Fin(IF Shifted /\ Count > 0 THEN "any" ELSE "ok") /\ UNCHANGED <<alloc, work>>
     ELSE IF cls = "handle" /\ ESize \notin {32, 40} THEN Fin("err") /\ UNCHANGED <<alloc, work>>             \* unknown descriptor layout
     ELSE IF HSize + Pad + (n + 1) * ESize > SL THEN Fin("err") /\ UNCHANGED <<alloc, work>>                  \* gread past the stream
     ELSE IF cls = "handle" /\ ESize = 40 /\ n = 0
          THEN stage' = "chain" /\ link' = 0 /\ work' = work + 1 /\ UNCHANGED <<cls, f, alloc, outcome, n>>
          ELSE n' = n + 1 /\ work' = work + 1 /\ UNCHANGED <<cls, f, stage, alloc, outcome, link>>
\* ---------------------------------------------------------------- handle object-information chain
\* link = number of records pushed so far; the chain of the template is info1 -> info2 -> 0
InfoRva == Num(f.info, 1000)
NextOf(k) == IF k = 0 THEN (IF f.next = "self" THEN InfoRva ELSE IF f.next = "ok" \/ f.next = "back" THEN 1012 ELSE Num(f.next, 0))
             ELSE (IF f.next = "back" THEN InfoRva ELSE 0)
RvaOf(k) == IF k = 0 THEN InfoRva ELSE IF f.next = "self" THEN InfoRva ELSE IF k = 1 THEN NextOf(0) ELSE NextOf(1)
ChainStep ==
  /\ cls = "handle" /\ stage = "chain"
  /\ LET cur == IF link = 0 THEN InfoRva ELSE IF f.next \in {"self", "back"} THEN (IF link % 2 = 1 /\ f.next = "back" THEN 1012 ELSE InfoRva) ELSE (IF link = 1 THEN NextOf(0) ELSE 0) IN
     IF cur = 0 \/ cur + 12 > L \/ (Has("chain_bound") /\ link >= L \div 12)
     THEN stage' = "entries" /\ n' = n + 1 /\ UNCHANGED <<cls, f, alloc, work, outcome, link>>                 \* chain ends; next descriptor
     ELSE IF link = 0 /\ f.type # "ok"
          THEN IF Has("info_type") THEN stage' = "entries" /\ n' = n + 1 /\ UNCHANGED <<cls, f, alloc, work, outcome, link>>
               ELSE Fin("panic") /\ UNCHANGED <<alloc, work>>                                                \* from_u32(..).unwrap()
          ELSE /\ link' = link + 1 /\ work' = work + 1 /\ alloc' = alloc + 32                                \* object_infos.push
               /\ UNCHANGED <<cls, f, stage, outcome, n>>
\* ---------------------------------------------------------------- mem64
Mem64 ==
  /\ cls = "mem64" /\ stage = "start"
  /\ IF Has("count_in_bound") /\ Count * 16 + 16 # OkSL("mem64") THEN Fin("err") /\ UNCHANGED <<alloc, work>>     \* exact size rule
     ELSE /\ alloc' = Count * M("mem64") /\ stage' = "entries" /\ UNCHANGED <<cls, f, work, outcome, n, link>>
Mem64Entries ==
  /\ cls = "mem64" /\ stage = "entries"
  /\ IF n >= Count THEN Fin("ok") /\ UNCHANGED <<alloc, work>>
     ELSE IF 16 + (n + 1) * 16 > OkSL("mem64") THEN Fin("err") /\ UNCHANGED <<alloc, work>>
     ELSE IF n = 0 /\ ~Slice(Num(f.base, 2000), Num(f.size0, 64)) THEN Fin("err") /\ UNCHANGED <<alloc, work>>      \* rva + size checked, slice of the file
     ELSE IF n = 1 /\ ~Slice(Num(f.base, 2000) + Num(f.size0, 64), 24) THEN Fin("err") /\ UNCHANGED <<alloc, work>>  \* consecutive: starts where the first ended
     ELSE n' = n + 1 /\ work' = work + 1 /\ UNCHANGED <<cls, f, stage, alloc, outcome, link>>
\* ---------------------------------------------------------------- exception
Exception ==
  /\ cls = "exception" /\ stage = "start"
  /\ LET np == Num(f.nparams, 3) IN
     IF np > 15 /\ ~Has("param_bound") THEN Fin("panic") /\ UNCHANGED <<alloc, work>>                           \* exception_information[i], i = 15
     ELSE Fin("ok") /\ work' = (IF np > 15 THEN 15 ELSE np) /\ UNCHANGED alloc          \* the context is optional: a bad location is "no context"
\* ---------------------------------------------------------------- mac crash info
MacCrash ==
  /\ cls = "maccrash" /\ stage = "start"
  /\ LET rc == Num(f.rcount, 1)
         take == IF Has("record_cap") /\ rc > 20 THEN 20 ELSE rc IN          \* header.records.iter().take(record_count): at most the 20 slots
     IF take = 0 THEN Fin("ok") /\ UNCHANGED <<alloc, work>>
     ELSE IF ~Has("record_cap") THEN alloc' = rc * 64 /\ Fin("ok") /\ UNCHANGED work       \* a Vec sized from record_count (the mistake the cap prevents)
     ELSE IF take > 1 THEN Fin("err") /\ UNCHANGED <<alloc, work>>          \* the template's other 19 slots are empty: an empty slice has no record header
     ELSE IF ~Slice(Num(f.rrva, 3000), Num(f.rsize, 100)) THEN Fin("err") /\ UNCHANGED <<alloc, work>>
     ELSE IF Num(f.rsize, 100) < 16 THEN Fin("err") /\ UNCHANGED <<alloc, work>>
     ELSE IF f.rrva # "ok" THEN work' = take /\ Fin("any") /\ UNCHANGED alloc           \* the record is read from somewhere else
     ELSE LET v == Num(f.version, 5)
              fixed == IF v >= 5 THEN 40 ELSE IF v >= 4 THEN 32 ELSE IF v >= 1 THEN 16 ELSE 0 IN
          IF v = 0 THEN work' = take /\ Fin("ok") /\ UNCHANGED alloc                    \* no layout applies: record skipped
          ELSE IF Num(f.rsize, 100) < fixed \/ fixed > Num(f.start, 40) THEN Fin("err") /\ UNCHANGED <<alloc, work>>
          ELSE work' = take /\ Fin("any") /\ UNCHANGED alloc        \* strings: NUL-terminated within the record or Err
\* ---------------------------------------------------------------- string
String ==
  /\ cls = "string" /\ stage = "start"
  /\ LET at == Num(f.rva, 500) len == Num(f.len, 10) IN
     \* an unreadable name drops that entry, never the stream; n records whether the name was readable
     IF at + 4 > L \/ len % 2 # 0 \/ at + 4 + len > L THEN outcome' = "ok" /\ stage' = "done" /\ UNCHANGED <<cls, f, n, link, alloc, work>>
     ELSE alloc' = 2 * len /\ n' = 1 /\ outcome' = "ok" /\ stage' = "done" /\ UNCHANGED <<cls, f, link, work>>
Next == DirWalk \/ DirSlice \/ ListHeader \/ ListEntries \/ ChainStep \/ Mem64 \/ Mem64Entries \/ Exception \/ MacCrash \/ String
Spec == Init /\ [][Next]_vars
\* ---- C01 at design level
AllocBacked == alloc <= K * L
WorkBounded == work <= L
NoPanic == outcome # "panic"
TypeOK == stage \in {"start", "slice", "entries", "chain", "done"} /\ outcome \in {"running", "ok", "err", "read_err", "panic", "any"}
Emit == stage = "done" => PrintT(<<"CASE", ToJson([cls |-> cls, f |-> f, outcome |-> outcome, alloc |-> alloc, work |-> work])>>)
====
