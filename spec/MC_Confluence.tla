---- MODULE MC_Confluence ----
EXTENDS Confluence
L3 == [t \in 1..3 |-> CASE t = 1 -> <<1, 2>> [] t = 2 -> <<2>> [] t = 3 -> <<3, 1>>]
====
