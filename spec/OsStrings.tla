----------------------------- MODULE OsStrings -----------------------------
(***************************************************************************)
(* The operating-system version and build strings of the process state     *)
(* (MinidumpSystemInfo::os_parts, handed on unchanged by the processor as   *)
(* system_info.os_version / os_build).                                      *)
(*                                                                         *)
(* The system-info stream stores a numeric version (major.minor.build) and *)
(* an optional CSD string.  The documented rule:                            *)
(*   - version = "major.minor.build", build = the CSD string with blanks    *)
(*     trimmed at both ends, absent when that leaves nothing;               *)
(*   - except on Linux when the numeric version is 0.0.0: Breakpad and      *)
(*     Crashpad store the output of `uname -srvmo` there,                   *)
(*        "Linux [version] [build ...] [arch] [Linux/GNU]"                  *)
(*     and then version = the second word and build = the words between     *)
(*     the version and the architecture, joined by single blanks exactly as *)
(*     they were (a doubled blank, as in "Nov  7", is an empty word);       *)
(*     when there is no second word, or it is itself "0.0.0", the stored    *)
(*     values are reported unchanged.                                       *)
(*                                                                         *)
(* The CSD string is built word by word, one action per syntactic position  *)
(* of the uname grammar, so that TLC's coverage shows every position was    *)
(* exercised.  Every finished state is printed as a case; the harness       *)
(* writes a dump with that system-info stream and compares what the real    *)
(* process_minidump reports with `Expected`.                                *)
(***************************************************************************)
EXTENDS Integers, Sequences, TLC, Json
CONSTANT MaxBuild        \* number of build words
Platforms == {"linux", "windows", "android", "mac"}
Versions == {"5.4.0-42-generic", "3.10.0", "0.0.0"}
BuildWords == {"#1", "SMP", "", "Fri"}          \* "" = a doubled blank
Arches == {"x86_64", "aarch64"}

\* phase: 0 nothing yet, 1 "Linux" written, 2 version written, 3 build words, 4 architecture written, 5 "Linux/GNU" written, 6 free text (not uname)
VARIABLES platform, numeric, toks, phase, padl, padr, done
vars == <<platform, numeric, toks, phase, padl, padr, done>>

Init == platform = "linux" /\ numeric = "zero" /\ toks = <<>> /\ phase = 0 /\ padl = FALSE /\ padr = FALSE /\ done = FALSE

SetPlatform == ~done /\ phase = 0 /\ platform = "linux" /\ platform' \in Platforms \ {"linux"} /\ UNCHANGED <<numeric, toks, phase, padl, padr, done>>
SetNumeric == ~done /\ phase = 0 /\ numeric = "zero" /\ numeric' = "nz" /\ UNCHANGED <<platform, toks, phase, padl, padr, done>>
StartUname == ~done /\ phase = 0 /\ toks' = <<"Linux">> /\ phase' = 1 /\ UNCHANGED <<platform, numeric, padl, padr, done>>
AddVersion == ~done /\ phase = 1 /\ \E v \in Versions : toks' = Append(toks, v) /\ phase' = 2 /\ UNCHANGED <<platform, numeric, padl, padr, done>>
AddBuildWord == ~done /\ phase \in {2, 3} /\ Len(toks) < 2 + MaxBuild /\ \E w \in BuildWords : toks' = Append(toks, w) /\ phase' = 3 /\ UNCHANGED <<platform, numeric, padl, padr, done>>
AddArch == ~done /\ phase \in {2, 3} /\ \E a \in Arches : toks' = Append(toks, a) /\ phase' = 4 /\ UNCHANGED <<platform, numeric, padl, padr, done>>
AddSuffix == ~done /\ phase = 4 /\ toks' = Append(toks, "Linux/GNU") /\ phase' = 5 /\ UNCHANGED <<platform, numeric, padl, padr, done>>
\* a CSD string that is not uname output (service packs, free text), possibly padded with blanks - only where the uname rule does not apply
FreeText == ~done /\ phase = 0 /\ ~(platform = "linux" /\ numeric = "zero")
            /\ toks' \in {<<"Service", "Pack", "1">>, <<"19H1">>, <<"">>, <<"", "">>} /\ phase' = 6 /\ UNCHANGED <<platform, numeric, padl, padr, done>>
Pad == ~done /\ phase \in 4..6 /\ ~(platform = "linux" /\ numeric = "zero") /\ ~padl /\ ~padr
       /\ \E l, r \in BOOLEAN : (l \/ r) /\ padl' = l /\ padr' = r /\ UNCHANGED <<platform, numeric, toks, phase, done>>
\* a string that stops in the middle of the build words has no architecture word to delimit them: not finished there
Finish == ~done /\ phase # 3 /\ done' = TRUE /\ UNCHANGED <<platform, numeric, toks, phase, padl, padr>>
Next == SetPlatform \/ SetNumeric \/ StartUname \/ AddVersion \/ AddBuildWord \/ AddArch \/ AddSuffix \/ FreeText \/ Pad \/ Finish
Spec == Init /\ [][Next]_vars

----------------------------------------------------------------------------
RECURSIVE Join(_)
Join(s) == IF s = <<>> THEN "" ELSE IF Len(s) = 1 THEN s[1] ELSE s[1] \o " " \o Join(Tail(s))
AllToks == (IF padl THEN <<"">> ELSE <<>>) \o toks \o (IF padr THEN <<"">> ELSE <<>>)
Csd == Join(AllToks)
RECURSIVE DropLeadingEmpty(_)
DropLeadingEmpty(s) == IF s # <<>> /\ s[1] = "" THEN DropLeadingEmpty(Tail(s)) ELSE s
RECURSIVE DropTrailingEmpty(_)
DropTrailingEmpty(s) == IF s # <<>> /\ s[Len(s)] = "" THEN DropTrailingEmpty(SubSeq(s, 1, Len(s) - 1)) ELSE s
Trimmed == Join(DropTrailingEmpty(DropLeadingEmpty(AllToks)))
NumericText == IF numeric = "zero" THEN "0.0.0" ELSE "5.4.3"
Stored == [version |-> NumericText, has_build |-> Trimmed # "", build |-> Trimmed]
UnameApplies == platform = "linux" /\ numeric = "zero" /\ phase \in {2, 4, 5} /\ toks[2] # "0.0.0"
\* the words strictly between the version and the architecture
BuildPart == IF phase \in {4, 5} THEN SubSeq(toks, 3, Len(toks) - (IF phase = 5 THEN 2 ELSE 1)) ELSE <<>>
Expected == IF UnameApplies THEN [version |-> toks[2], has_build |-> TRUE, build |-> Join(BuildPart)] ELSE Stored

\* design-level properties of the rule itself
VersionNeverEmpty == done => Expected.version # ""
UnameOnlyOnLinuxZero == done /\ Expected # Stored => platform = "linux" /\ numeric = "zero"
\* the uname build part never contains the architecture or the OS suffix, and never the version
BuildPartClean == done /\ UnameApplies => \A i \in 1..Len(BuildPart) : BuildPart[i] \in BuildWords
StoredBuildIsTrimmed == done /\ Stored.has_build => (Len(DropLeadingEmpty(AllToks)) > 0 /\ DropLeadingEmpty(AllToks)[1] # "")

Emit == done => PrintT(<<"OSCASE", ToJson([platform |-> platform, numeric |-> numeric, csd |-> Csd, phase |-> phase, nbuild |-> Len(BuildPart), uname |-> UnameApplies, expected |-> Expected])>>)
=============================================================================
