---- MODULE MC_WinEval ----
(* Model-checking instances of WinEval: prefix sets (cfg files cannot spell tuples). *)
EXTENDS WinEval
PrefixesNone == {<<>>}
\* programs that have already used "@" (search start = $ebp + 4) or set up the standard $T0 frame pointer
PrefixesStd == {<<"l8", "l4", "@">>, <<"$T0", "$ebp", "=">>}
PrefixesAll == PrefixesNone \cup PrefixesStd
====
