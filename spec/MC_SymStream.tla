---- MODULE MC_SymStream ----
(***************************************************************************)
(* Small-constant exhaustive instance of SymStream: every input string over  *)
(* {x, n, b} (x = ordinary byte, n = newline, b = a byte that makes its line *)
(* unparseable) up to MaxLen bytes, every chunk schedule.                    *)
(* Properties: C10 CallbackPrefix (by construction of `total`), OkMeansAll,  *)
(* ChunkIndependent; C09 WindowBounded, Measure (termination), LongLine.     *)
(***************************************************************************)
EXTENDS SymStream
CONSTANTS MaxLen, Bytes
VARIABLES input, S, iters
vars == <<input, S, iters>>
RECURSIVE Strs(_)
Strs(k) == IF k = 0 THEN {<<>>} ELSE Strs(k-1) \cup {Append(s, b) : s \in {t \in Strs(k-1) : Len(t) = k-1}, b \in Bytes}
\* abstract a string
RECURSIVE NlsOf(_,_)
NlsOf(s, i) == IF i > Len(s) THEN <<>> ELSE (IF s[i] = "n" THEN <<i>> ELSE <<>>) \o NlsOf(s, i + 1)
LineOf(nls, p) == LowerBound(nls, p)                      \* number of the line containing position p
Abs(s) == LET nls == NlsOf(s, 1) IN
   [len |-> Len(s), nls |-> nls, bad |-> {LineOf(nls, p) : p \in {q \in 1..Len(s) : s[q] = "b"}} \cap 1..Len(nls)]
Inputs == {Abs(s) : s \in Strs(MaxLen)}
Init == input \in Inputs /\ S = St0 /\ iters = 0
\* Repaired = TRUE models the intended fix (a zero-byte read into free space is a real EOF);
\* FALSE is the code as it stands.  See DESIGN.md section 10 / known-findings.json.
IterM(inp, st, n) == Iter(inp, st, n).st
Next == /\ ~S.done
        /\ \E n \in Returns(SpaceOffered(input, S), input.len - S.fed) : S' = IterM(input, S, n)
        /\ iters' = iters + 1 /\ UNCHANGED input
Spec == Init /\ [][Next]_vars
\* ---- C09 ----
WindowBounded == S.cap <= MaxCap /\ S.pos <= S.end /\ S.end <= S.cap /\ S.total <= S.fed /\ S.fed <= input.len
                 /\ S.end - S.pos = S.fed - S.total                          \* the window is exactly the unconsumed fed bytes
\* every iteration makes progress in a well-founded measure: bounded number of iterations per input byte
Terminates == iters <= 4 * input.len + 16
\* ---- C10 ----
OkMeansAll == (S.done /\ S.out = "ok") => S.total = input.len
Precond == MaxLine(input) < MaxCap \div 2                  \* "lines shorter than 80 KiB" at this scale
ChunkIndependent == (S.done /\ Precond) => <<S.out, S.eline>> = WholeOutcome(input)
\* the unterminated-tail defect excluded: inputs that end with a newline (or are empty)
Terminated == input.len = 0 \/ (Len(input.nls) > 0 /\ input.nls[Len(input.nls)] = input.len)
ChunkIndependentTerminated == (S.done /\ Precond /\ Terminated) => <<S.out, S.eline>> = WholeOutcome(input)
\* a line of MaxCap bytes or more never fails the parse by itself: an input without rejected lines never ends in err_parse,
\* and ends ok when it is newline-terminated
LongLineDropped == (S.done /\ input.bad = {}) => S.out # "err_parse"
LongLineOk == (S.done /\ input.bad = {} /\ Terminated /\ input.len > 0) => S.out = "ok"
====
