---- MODULE WinFpo ----
(***************************************************************************)
(* STACK WIN "fpo" records (walker.rs module docs "STACK WIN frame pointer   *)
(* mode"):                                                                   *)
(*     frame_size = local_size + saved_register_size + grand_callee_params   *)
(*     $eip := *($esp + frame_size)                                          *)
(*     leftover return address: if the callee has no callee of its own and   *)
(*        that word equals the callee's $eip, use the next word instead      *)
(*     if allocates_base_pointer:                                            *)
(*        $ebp := *($esp + grand_callee_params + saved_register_size - 8)    *)
(*     else $ebp := $ebp, $ebx := $ebx (if known)                            *)
(*     $esp := (address of the return address) + 4                           *)
(* All quantities are 32-bit; any sum that leaves [0, 2^32) makes the        *)
(* record fail cleanly (no result), as do unreadable stack words.  Only      *)
(* $eip $esp $ebp (and the passed-through $ebx) are known in the caller.     *)
(* One action per step of the algorithm; Init ranges over the size grid.     *)
(***************************************************************************)
EXTENDS Naturals, Sequences, TLC, Json, FiniteSets, Words
W(x) == FromSmall(x, 2)
\* named 32-bit values (TLC sets cannot mix integers and strings, so the grid is given by name)
ValTable == [ v0 |-> W(0), v4 |-> W(4), v8 |-> W(8), v12 |-> W(12), v16 |-> W(16), v4096 |-> W(4096), v4100 |-> W(4100), v4104 |-> W(4104),
              h7 |-> <<65535, 32767>>, h8 |-> <<0, 32768>>, ff |-> <<65535, 65535>>, top8 |-> <<65528, 65535>> ]
CONSTANTS Esps, Saveds, Locals, Gcs
\* readable stack: words at 4096, 4100, ..., 4196 and (so that tiny $esp values reach the %ebp-slot
\* computation) at 0, 4, ..., 16 ; value 0x40000000 + address
Readable(a) == IsSmall(a) /\ ToSmall(a) % 4 = 0 /\ ((ToSmall(a) >= 4096 /\ ToSmall(a) <= 4196) \/ ToSmall(a) <= 16)
Mem(a) == W(1073741824 + ToSmall(a))
CAdd(a, b) == IF a = <<>> \/ b = <<>> THEN <<>> ELSE IF AddOverflows(a, b) THEN <<>> ELSE Add(a, b)
CSub(a, b) == IF a = <<>> \/ b = <<>> THEN <<>> ELSE IF Lt(a, b) THEN <<>> ELSE Sub(a, b)
Val(x) == ValTable[x]

VARIABLES cfg, pc, raAddr, out
vars == <<cfg, pc, raAddr, out>>
Cfgs == [esp : Esps, saved : Saveds, locals : Locals, gc : Gcs, allocBp : BOOLEAN, ebpKnown : BOOLEAN, ebxKnown : BOOLEAN, leftover : BOOLEAN]
HasGc(c) == c.gc # "nogc"
Gc(c) == IF HasGc(c) THEN Val(c.gc) ELSE W(0)
FrameSize(c) == CAdd(CAdd(Val(c.locals), Val(c.saved)), Gc(c))
FirstRa(c) == CAdd(Val(c.esp), FrameSize(c))
\* the callee's own $eip: equal to the first candidate word when c.leftover, something else otherwise
CalleeEip(c) == IF c.leftover /\ FirstRa(c) # <<>> /\ Readable(FirstRa(c)) THEN Mem(FirstRa(c)) ELSE <<4660, 20480>>
CalleeEbp == W(4160)   CalleeEbx == W(7)
Init == cfg \in Cfgs /\ pc = "start" /\ raAddr = <<>> /\ out = [ok |-> FALSE]
Locate == /\ pc = "start"
          /\ LET a == FirstRa(cfg) IN
             IF a = <<>> \/ ~Readable(a) THEN pc' = "failed" /\ UNCHANGED raAddr
             ELSE raAddr' = a /\ pc' = "located"
          /\ UNCHANGED <<cfg, out>>
SkipLeftover == /\ pc = "located" /\ ~HasGc(cfg) /\ Mem(raAddr) = CalleeEip(cfg)
                /\ LET a == CAdd(raAddr, W(4)) IN
                   IF a = <<>> \/ ~Readable(a) THEN pc' = "failed" /\ UNCHANGED raAddr
                   ELSE raAddr' = a /\ pc' = "ra"
                /\ UNCHANGED <<cfg, out>>
NoSkip == /\ pc = "located" /\ ~(~HasGc(cfg) /\ Mem(raAddr) = CalleeEip(cfg))
          /\ pc' = "ra" /\ UNCHANGED <<cfg, raAddr, out>>
RestoreEbp == /\ pc = "ra" /\ cfg.allocBp
              /\ LET ba == CSub(CAdd(CAdd(Val(cfg.esp), Gc(cfg)), Val(cfg.saved)), W(8))
                     sp == CAdd(raAddr, W(4)) IN
                 IF ba = <<>> \/ sp = <<>> THEN pc' = "failed" /\ UNCHANGED out
                 ELSE IF ~Readable(ba) THEN pc' = "failed" /\ UNCHANGED out
                 ELSE pc' = "done" /\ out' = [ok |-> TRUE, regs |-> [eip |-> Mem(raAddr), esp |-> sp, ebp |-> Mem(ba)]]
              /\ UNCHANGED <<cfg, raAddr>>
PassThrough == /\ pc = "ra" /\ ~cfg.allocBp
               /\ LET sp == CAdd(raAddr, W(4)) IN
                  IF sp = <<>> \/ ~cfg.ebpKnown THEN pc' = "failed" /\ UNCHANGED out
                  ELSE pc' = "done" /\ out' = [ok |-> TRUE, regs |->
                         IF cfg.ebxKnown THEN [eip |-> Mem(raAddr), esp |-> sp, ebp |-> CalleeEbp, ebx |-> CalleeEbx]
                         ELSE [eip |-> Mem(raAddr), esp |-> sp, ebp |-> CalleeEbp]]
               /\ UNCHANGED <<cfg, raAddr>>
Next == Locate \/ SkipLeftover \/ NoSkip \/ RestoreEbp \/ PassThrough
Spec == Init /\ [][Next]_vars
Terminal == pc \in {"done", "failed"}
\* ---- design-level properties ----
\* the caller's stack pointer is strictly above the callee's, and only documented registers are produced
Progress == pc = "done" => Lt(Val(cfg.esp), out.regs.esp)
OnlyDocumented == pc = "done" => DOMAIN out.regs \subseteq {"eip", "esp", "ebp", "ebx"}
                                 /\ ("ebx" \in DOMAIN out.regs => ~cfg.allocBp)
Emit == Terminal => PrintT(<<"CASE", ToJson([cfg |-> cfg, eip |-> CalleeEip(cfg), out |-> out])>>)
====
