SPECIFICATION Spec
CONSTANTS
  Classes = {"dir", "counted", "exlist", "handle", "mem64", "exception", "maccrash", "string"}
  Guards = {"count_in_bound", "descriptor_size", "chain_bound", "param_bound", "record_cap", "slice_checked"}
  L = 4096
INVARIANTS TypeOK AllocBacked WorkBounded NoPanic
CHECK_DEADLOCK FALSE
