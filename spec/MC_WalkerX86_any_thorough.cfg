SPECIFICATION Spec
CONSTANTS
  NW = 5
  Mode = "any"
  MaxDepth = 1
  Pads = {0}
  WinClearNoop = TRUE
INVARIANTS WellFormed Bounded Emit
CHECK_DEADLOCK FALSE
