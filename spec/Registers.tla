---- MODULE Registers ----
(***************************************************************************)
(* Register access by name for the nine CPU context types (minidump/src/    *)
(* context.rs CpuContext + MinidumpContext).  A context is a register file   *)
(* (raw slot -> value); the documented tables (RegTables.tla) say which slot *)
(* every name and alias denotes.  A behaviour is a short history of          *)
(* set-by-name operations; in every state all reads by name are defined by   *)
(* the register file.  Validity (All / Some(S)) is honoured through aliases  *)
(* in both directions.  Unknown names are absent, never a panic.             *)
(* Values are symbolic: "zero" (initial), "one", "ones" (all bits set).      *)
(***************************************************************************)
EXTENDS Naturals, Sequences, FiniteSets, TLC, Json, RegTables
CONSTANTS MaxSets
Unknown == {"", "r99", "$rax", "RAX", "eaxx"}
Range(s) == {s[i] : i \in 1..Len(s)}
Canon(t) == Range(Names[t])
AliasesOf(t) == IF Alias[t] = <<>> THEN {} ELSE DOMAIN Alias[t]
Known(t) == Canon(t) \cup AliasesOf(t)
CanonOf(t, n) == IF n \in Canon(t) THEN n ELSE Alias[t][n]              \* n \in Known(t)
Slot(t, n) == SlotOf[t][CanonOf(t, n)]
Slots(t) == {SlotOf[t][c] : c \in Canon(t)}
VARIABLES ty, file, hist
vars == <<ty, file, hist>>
Init == ty \in Types /\ file = [s \in Slots(ty) |-> "zero"] /\ hist = <<>>
\* names worth a second write: aliases and their canonical names, the sp / ip names, the first and last register
Interesting(t) == AliasesOf(t) \cup {Alias[t][a] : a \in AliasesOf(t)} \cup {SpName[t], IpName[t], Names[t][1], Names[t][Len(Names[t])]}
SetKnown == /\ Len(hist) < MaxSets
            /\ \E n \in (IF Len(hist) = 0 THEN Known(ty) ELSE Interesting(ty)), v \in {"one", "ones"} :
                 /\ file' = [file EXCEPT ![Slot(ty, n)] = v]
                 /\ hist' = Append(hist, [n |-> n, v |-> v, ok |-> TRUE])
            /\ UNCHANGED ty
SetUnknown == /\ Len(hist) < MaxSets
              /\ \E n \in Unknown : hist' = Append(hist, [n |-> n, v |-> "one", ok |-> FALSE])    \* reports absence, changes nothing
              /\ UNCHANGED <<ty, file>>
Next == SetKnown \/ SetUnknown
Spec == Init /\ [][Next]_vars

\* ---- reads (functions of the state) ----
GetAlways(n) == file[Slot(ty, n)]                                        \* n \in Known(ty)
\* validity classes: <<"all", "">>, <<"none", "">> (empty set), <<"only", m>> (the set {m}), <<"full", "">> (all canonical names)
IsValid(t, n, V) == /\ n \in Known(t)
                    /\ \/ V[1] = "all" \/ V[1] = "full"
                       \/ (V[1] = "only" /\ V[2] \in Known(t) /\ CanonOf(t, V[2]) = CanonOf(t, n))
Memoize(t, n) == IF n \in Known(t) THEN CanonOf(t, n) ELSE ""
\* ---- design-level properties ----
\* aliases denote one register: every alias reads the value of its canonical name, in every state
AliasesAgree == \A a \in AliasesOf(ty) : GetAlways(a) = GetAlways(Alias[ty][a])
\* a successful write is visible through every name of the same register and through no other register
LastWriteWins == Len(hist) > 0 /\ hist[Len(hist)].ok => GetAlways(hist[Len(hist)].n) = hist[Len(hist)].v
\* sp / ip names are general-purpose registers of their type, distinct slots
SpIpSane == SpName[ty] \in Canon(ty) /\ IpName[ty] \in Canon(ty) /\ Slot(ty, SpName[ty]) # Slot(ty, IpName[ty])
\* distinct canonical names denote distinct slots (the enumeration lists every register exactly once)
NoDuplicates == Cardinality(Slots(ty)) = Len(Names[ty])
Emit == PrintT(<<"CASE", ToJson([ty |-> ty, hist |-> hist, slots |-> file,
                                  reads |-> [n \in Known(ty) |-> GetAlways(n)], sp |-> GetAlways(SpName[ty]), ip |-> GetAlways(IpName[ty])])>>)
\* static facts per type, emitted once (at the initial state)
EmitType == hist = <<>> => PrintT(<<"TYPE", ToJson([ty |-> ty, names |-> Names[ty], sp |-> SpName[ty], ip |-> IpName[ty], width |-> Width[ty],
                  memo |-> [n \in Known(ty) \cup Unknown |-> Memoize(ty, n)],
                  valid |-> [m \in Known(ty) |-> {n \in Known(ty) : IsValid(ty, n, <<"only", m>>)}]])>>)
====
