---- MODULE WalkerX86 ----
(***************************************************************************)
(* The x86 stack walker: minidump-unwind/src/x86.rs get_caller_frame with    *)
(* STACK WIN frame data / FPO records and STACK CFI evaluated through        *)
(* CfiStackWalker (breakpad-symbols walker.rs), + lib.rs walk_stack.         *)
(* Techniques in priority order: unwind records ("cfi" trust, whichever      *)
(* kind), frame pointer, scan (which also guesses %ebp).  The caller must    *)
(* have eip >= 4096 and esp strictly above the callee's.                     *)
(*                                                                           *)
(* New with respect to the other walkers: the PARAMETER SIZE of the function *)
(* a frame called (the "grand callee" while that frame is being unwound)     *)
(* shifts where STACK WIN records find the return address and the saved      *)
(* %ebp: frame k-1's symbol info influences how frame k is unwound.          *)
(*                                                                           *)
(* WinClearNoop: STACK WIN evaluation is documented to start from an empty   *)
(* caller register set; the code's clear is a no-op (finding recorded under  *)
(* C07), so callee-saved registers valid in the callee stay valid.  TRUE     *)
(* mirrors the code; it only matters for the validity of ebx / esi / edi.    *)
(*                                                                           *)
(* Code layout: M1 (symbols) 0x400000: F1 +0x100 (FUNC, unwind record of     *)
(* kind `rule`), F2 +0x300 (FUNC with 8 bytes of parameters, no unwind       *)
(* info); M2 0x500000 without symbols.                                       *)
(***************************************************************************)
EXTENDS Naturals, Integers, Sequences, TLC, FiniteSets, Json
CONSTANTS NW, Mode, MaxDepth, Pads, WinClearNoop
Ptr == 4
Base == 65536
StackEnd == Base + NW * Ptr
M1lo == 4194304  M1hi == 4198399
F1lo == 4194560  F1hi == 4194815
F2lo == 4195072  F2hi == 4195327
M2lo == 5242880  M2hi == 5246975
A1 == F1lo + 80   A2 == F2lo + 80   A3 == F1hi + 81   A4 == M2lo + 16
InMod(a) == (a >= M1lo /\ a <= M1hi) \/ (a >= M2lo /\ a <= M2hi)
InM1(a) == a >= M1lo /\ a <= M1hi
InF1(a) == a >= F1lo /\ a <= F1hi
InF2(a) == a >= F2lo /\ a <= F2hi
HasFunc(a) == InF1(a) \/ InF2(a)
Rules == {"win_std", "win_ra", "fpo", "fpo_bp", "cfi", "std_fpo", "std_cfi", "cfi_big"}
\* std_fpo: the win_std frame-data record AND the fpo record cover F1: frame data is preferred, and FPO is not a fallback when it fails
\* std_cfi: the win_std frame-data record AND the cfi record cover F1: STACK CFI is tried when STACK WIN fails
\* cfi_big: STACK CFI INIT 100 100 .cfa: $esp 8 + .ra: .cfa 4 - ^ $ebx: 4294967296 $eax: 4294967296    (values that do not fit a 32-bit register: both
\*          registers are unknown in the caller - eax, caller-saved and known in the context frame only, is never forwarded anyway)
\* win_std: STACK WIN 4 100 100 0 0 c 0 0 0 1 $T0 $ebp = $eip $T0 4 + ^ = $ebp $T0 ^ = $esp $T0 8 + =      (parameter size 0xc)
\* win_ra : STACK WIN 4 100 100 0 0 c 0 4 0 1 $T0 .raSearch = $eip $T0 ^ = $esp $T0 4 + =                  (locals 4)
\* fpo    : STACK WIN 0 100 100 0 0 c 0 4 0 0 0                                                              (locals 4, no base pointer)
\* fpo_bp : STACK WIN 0 100 100 0 0 c 8 0 0 0 1                                                              (saved registers 8, allocates base pointer)
\* cfi    : STACK CFI INIT 100 100 .cfa: $esp 8 + .ra: .cfa 4 - ^ $ebp: .cfa 8 - ^
WinPsize == 12
\* parameter size recorded on a frame by fill_symbol (a STACK WIN record's size wins over FUNC's); -1 = no function
Psize(instr, r) == IF InF1(instr) THEN (IF r \in {"cfi", "cfi_big"} THEN 0 ELSE WinPsize) ELSE IF InF2(instr) THEN 8 ELSE -1
Vals == {0, A1, A2, A3, A4, Base + 8, Base + 12}
VARIABLES mem, rule, frames, done, expect
vars == <<mem, rule, frames, done, expect>>
Readable(a) == a >= Base /\ a + Ptr <= StackEnd /\ (a - Base) % Ptr = 0
Rd(a) == mem[(a - Base) \div Ptr + 1]
None == [none |-> TRUE]
IsNone(x) == "none" \in DOMAIN x
SeemsValid(ip) == ip # 0 /\ LET x == ip - 1 IN x # 0 /\ InMod(x) /\ (InM1(x) => HasFunc(x))
\* callee-saved registers: ebp and ebx with values, esi / edi as validity only
Fwd(f) == f.valid \cap {"ebp", "ebx", "esi", "edi"}
WinFwd(f) == IF WinClearNoop THEN Fwd(f) ELSE {}
Gcps(k) == IF k >= 2 /\ frames[k - 1].psize >= 0 THEN frames[k - 1].psize ELSE 0
ByRec(r, f, k) ==
  IF ~("esp" \in f.valid) THEN None
  ELSE IF ~InF1(f.instr) THEN None
  ELSE LET g == Gcps(k)  hasGrand == k >= 2 IN
   CASE r = "win_std" ->
          IF ~("ebp" \in f.valid) THEN None
          ELSE IF ~(Readable(f.bp + 4) /\ Readable(f.bp)) THEN None
          ELSE [ip |-> Rd(f.bp + 4), sp |-> f.bp + 8, bp |-> Rd(f.bp), bx |-> f.bx, valid |-> WinFwd(f) \cup {"eip", "esp", "ebp"}, trust |-> "cfi"]
     [] r = "win_ra" ->
          IF ~("ebp" \in f.valid) THEN None
          ELSE LET ra == f.sp + 4 + g IN
               IF ~Readable(ra) THEN None
               ELSE [ip |-> Rd(ra), sp |-> ra + 4, bp |-> f.bp, bx |-> f.bx, valid |-> WinFwd(f) \cup {"eip", "esp", "ebp"}, trust |-> "cfi"]
     [] r = "fpo" ->
          LET ea == f.sp + 4 + g IN
          IF ~Readable(ea) THEN None
          ELSE LET skip == ~hasGrand /\ Rd(ea) = f.ip
                   ea2 == IF skip THEN ea + 4 ELSE ea IN
               IF ~Readable(ea2) THEN None
               ELSE IF ~("ebp" \in f.valid) THEN None
               ELSE [ip |-> Rd(ea2), sp |-> ea2 + 4, bp |-> f.bp, bx |-> f.bx,
                     valid |-> WinFwd(f) \cup {"eip", "esp", "ebp"} \cup (f.valid \cap {"ebx"}), trust |-> "cfi"]       \* documented %ebx pass-through
     [] r = "fpo_bp" ->
          LET ea == f.sp + 8 + g IN
          IF ~Readable(ea) THEN None
          ELSE LET skip == ~hasGrand /\ Rd(ea) = f.ip
                   ea2 == IF skip THEN ea + 4 ELSE ea
                   ba == f.sp + g IN                                   \* callee_esp + grand-callee parameters + saved registers - 8
               IF ~Readable(ea2) \/ ~Readable(ba) THEN None
               ELSE [ip |-> Rd(ea2), sp |-> ea2 + 4, bp |-> Rd(ba), bx |-> f.bx, valid |-> WinFwd(f) \cup {"eip", "esp", "ebp"}, trust |-> "cfi"]
     [] r = "cfi" ->
          LET cfa == f.sp + 8 IN
          IF ~Readable(cfa - 4) THEN None
          ELSE IF Readable(cfa - 8)
               THEN [ip |-> Rd(cfa - 4), sp |-> cfa, bp |-> Rd(cfa - 8), bx |-> f.bx, valid |-> (Fwd(f) \ {"ebp"}) \cup {"eip", "esp", "ebp"}, trust |-> "cfi"]
               ELSE [ip |-> Rd(cfa - 4), sp |-> cfa, bp |-> f.bp, bx |-> f.bx, valid |-> (Fwd(f) \ {"ebp"}) \cup {"eip", "esp"}, trust |-> "cfi"]
     [] r = "cfi_big" ->
          LET cfa == f.sp + 8 IN
          IF ~Readable(cfa - 4) THEN None
          ELSE [ip |-> Rd(cfa - 4), sp |-> cfa, bp |-> f.bp, bx |-> f.bx, valid |-> (Fwd(f) \ {"ebx"}) \cup {"eip", "esp"}, trust |-> "cfi"]     \* $ebx: the value does not fit => unknown
ByCfi(f, k) ==
  CASE rule = "std_fpo" -> ByRec("win_std", f, k)
    [] rule = "std_cfi" -> LET w == ByRec("win_std", f, k) IN IF IsNone(w) THEN ByRec("cfi", f, k) ELSE w
    [] OTHER -> ByRec(rule, f, k)
ByFp(f) ==
  IF ~("ebp" \in f.valid) THEN None
  ELSE IF ~(Readable(f.bp + 4) /\ Readable(f.bp)) THEN None
  ELSE [ip |-> Rd(f.bp + 4), sp |-> f.bp + 8, bp |-> Rd(f.bp), bx |-> 0, valid |-> {"eip", "esp", "ebp"}, trust |-> "frame_pointer"]
RECURSIVE ScanFrom(_,_,_)
ScanFrom(f, i, range) ==
  IF i >= range THEN None
  ELSE LET a == f.sp + i * Ptr IN
       IF ~Readable(a) THEN None
       ELSE IF SeemsValid(Rd(a)) THEN
               LET csp == a + Ptr
                   hasbp == "ebp" \in f.valid
                   abp == a - Ptr
                   bpv == IF i > 0 THEN Rd(abp) ELSE 0
                   cbp == IF i = 0 THEN -1
                          ELSE IF bpv > a /\ bpv - abp <= 131072 THEN (IF Readable(bpv) THEN bpv ELSE -1)
                          ELSE IF hasbp /\ f.bp >= csp /\ Readable(f.bp) THEN f.bp ELSE -1
               IN [ip |-> Rd(a), sp |-> csp, bp |-> (IF cbp < 0 THEN 0 ELSE cbp), bx |-> 0,
                   valid |-> {"eip", "esp"} \cup (IF cbp < 0 THEN {} ELSE {"ebp"}), trust |-> "scan"]
            ELSE ScanFrom(f, i + 1, range)
ByScan(f) == IF ~("esp" \in f.valid) THEN None ELSE IF (f.sp - Base) % Ptr # 0 \/ f.sp < Base THEN None
             ELSE ScanFrom(f, 0, IF f.trust = "context" THEN 160 ELSE 40)
Pick(k) == LET f == frames[k]  c1 == ByCfi(f, k) IN IF ~IsNone(c1) THEN c1 ELSE LET c2 == ByFp(f) IN IF ~IsNone(c2) THEN c2 ELSE ByScan(f)
Accept(f, c) == ~IsNone(c) /\ c.ip >= 4096 /\ c.sp > f.sp
MaxFrames == NW * Ptr + 2
Room == Len(frames) < MaxFrames
Finish(c) == c @@ [instr |-> c.ip - 1, psize |-> Psize(c.ip - 1, rule)]
Last == frames[Len(frames)]
PickLast == Pick(Len(frames))
StepCfi == /\ ~done /\ Room /\ LET c == PickLast IN /\ Accept(Last, c) /\ c.trust = "cfi" /\ frames' = Append(frames, Finish(c))
           /\ UNCHANGED <<mem, rule, done, expect>>
StepFp == /\ ~done /\ Room /\ LET c == PickLast IN /\ Accept(Last, c) /\ c.trust = "frame_pointer" /\ frames' = Append(frames, Finish(c))
          /\ UNCHANGED <<mem, rule, done, expect>>
StepScan == /\ ~done /\ Room /\ LET c == PickLast IN /\ Accept(Last, c) /\ c.trust = "scan" /\ frames' = Append(frames, Finish(c))
            /\ UNCHANGED <<mem, rule, done, expect>>
StopNoFrame == /\ ~done /\ IsNone(PickLast) /\ done' = TRUE /\ UNCHANGED <<mem, rule, frames, expect>>
StopRejected == /\ ~done /\ ~IsNone(PickLast) /\ ~Accept(Last, PickLast) /\ done' = TRUE /\ UNCHANGED <<mem, rule, frames, expect>>
StopBound == /\ ~done /\ ~Room /\ Accept(Last, PickLast) /\ done' = TRUE /\ UNCHANGED <<mem, rule, frames, expect>>
Next == StepCfi \/ StepFp \/ StepScan \/ StopNoFrame \/ StopRejected \/ StopBound
\* ---- Mode "any"
Ctx0 == {[ip |-> i, instr |-> i, sp |-> s, bp |-> b, bx |-> 7, valid |-> {"eip", "esp", "ebp", "ebx", "esi", "edi", "eax"}, trust |-> "context", psize |-> 0] :
            i \in {A1, A2, A4}, s \in {Base, Base + 4}, b \in {Base, Base + 4, Base + 8, 7}}
InitAny == /\ mem \in [1..NW -> Vals] /\ rule \in Rules /\ done = FALSE /\ expect = <<>>
           /\ \E c \in Ctx0 : frames = <<[c EXCEPT !.psize = Psize(c.ip, rule)]>>
\* ---- Mode "built"
\* how frame k finds its caller: "fp" (F2, %ebp frame, 8 bytes of parameters), "f1" (F1: whatever unwind record `rule` gives it),
\* "scan" (M2).  g(k) = bytes of parameters frame k pushed for frame k-1, still on the stack from the walker's point of view.
Techs == {"fp", "f1", "scan"}
Calls == [tech : Techs, pad : Pads]
Chains == UNION {[1..n -> Calls] : n \in 1..MaxDepth}
IpOf(tech) == CASE tech = "fp" -> A2 [] tech = "f1" -> A1 [] tech = "scan" -> A4
PsOf(tech, r) == CASE tech = "fp" -> 8 [] tech = "f1" -> (IF r = "cfi" THEN 0 ELSE WinPsize) [] tech = "scan" -> 0
G(ch, k, r) == IF k = 1 THEN 0 ELSE PsOf(ch[k - 1].tech, r)
UsesBp(tech, r) == tech = "fp" \/ (tech = "f1" /\ r \in {"win_std"})          \* needs a correct %ebp to find its caller
NeedsBpValid(tech, r) == UsesBp(tech, r) \/ (tech = "f1" /\ r \in {"win_ra", "fpo"})   \* reads %ebp as a value to pass on
RestoresBp(tech, r) == tech = "fp" \/ (tech = "f1" /\ r \in {"win_std", "fpo_bp", "cfi"})
BuiltRules == {"win_std", "fpo_bp", "cfi", "fpo"}
Buildable(ch, r) ==
  /\ \A k \in 1..Len(ch) : IF ch[k].tech = "scan" THEN ch[k].pad < (IF k = 1 THEN 150 ELSE 30) ELSE ch[k].pad = 0
  \* a frame found by scanning has no trustworthy %ebp: what follows must not need one
  /\ \A k \in 1..(Len(ch) - 1) : ch[k].tech = "scan" => ~NeedsBpValid(ch[k + 1].tech, r)
  \* a STACK CFI rule is written for one stack layout: its callee leaves no parameters behind
  /\ \A k \in 1..Len(ch) : (ch[k].tech = "f1" /\ r = "cfi") => G(ch, k, r) = 0
  \* the FPO "leftover return address" heuristic applies to a context frame only when the word equals its eip: excluded by construction
Junk == 12
\* the value %ebp holds while frame k runs
RECURSIVE BpNeeded(_,_,_,_)
BpNeeded(ch, k, sp, r) == IF k > Len(ch) THEN Junk
                          ELSE IF UsesBp(ch[k].tech, r) THEN sp + G(ch, k, r)
                          ELSE IF ch[k].tech = "f1" /\ r \in {"fpo", "win_ra"} THEN BpNeeded(ch, k + 1, sp + G(ch, k, r) + 8, r)     \* passes %ebp through
                          ELSE Junk
RECURSIVE Lay(_,_,_,_,_,_,_)
Lay(ch, k, sp, curbp, r, words, fr) ==
  IF k > Len(ch) THEN [words |-> words, frames |-> fr, endsp |-> sp]
  ELSE LET c == ch[k]
           g == G(ch, k, r)
           nextIp == IF k < Len(ch) THEN IpOf(ch[k + 1].tech) ELSE A4 + 8 IN
       IF UsesBp(c.tech, r) THEN
            \* %ebp frame: record at ebp = sp + g: [ebp] = caller's ebp, [ebp+4] = return address, caller esp = ebp + 8
            LET bp == sp + g  csp == bp + 8  cbp == BpNeeded(ch, k + 1, csp, r) IN
            Lay(ch, k + 1, csp, cbp, r, words \cup {<<bp, cbp>>, <<bp + 4, nextIp>>},
                Append(fr, [ip |-> nextIp, sp |-> csp, trust |-> (IF c.tech = "fp" THEN "frame_pointer" ELSE "cfi"), bp |-> cbp, bpKnown |-> TRUE]))
       ELSE IF c.tech = "f1" /\ r = "fpo_bp" THEN
            \* saved %ebp at sp + g, one more saved register, return address at sp + g + 8
            LET csp == sp + g + 12  cbp == BpNeeded(ch, k + 1, csp, r) IN
            Lay(ch, k + 1, csp, cbp, r, words \cup {<<sp + g, cbp>>, <<sp + g + 8, nextIp>>},
                Append(fr, [ip |-> nextIp, sp |-> csp, trust |-> "cfi", bp |-> cbp, bpKnown |-> TRUE]))
       ELSE IF c.tech = "f1" /\ r = "fpo" THEN
            \* 4 bytes of locals, return address at sp + g + 4; %ebp untouched
            LET csp == sp + g + 8 IN
            Lay(ch, k + 1, csp, curbp, r, words \cup {<<sp + g + 4, nextIp>>},
                Append(fr, [ip |-> nextIp, sp |-> csp, trust |-> "cfi", bp |-> curbp, bpKnown |-> TRUE]))
       ELSE IF c.tech = "f1" /\ r = "cfi" THEN
            LET csp == sp + 8  cbp == BpNeeded(ch, k + 1, csp, r) IN
            Lay(ch, k + 1, csp, cbp, r, words \cup {<<sp, cbp>>, <<sp + 4, nextIp>>},
                Append(fr, [ip |-> nextIp, sp |-> csp, trust |-> "cfi", bp |-> cbp, bpKnown |-> TRUE]))
       ELSE \* scan: return address after the callee's parameters and pad filler words
            LET ra == sp + g + Ptr * c.pad  csp == ra + Ptr IN
            Lay(ch, k + 1, csp, 0, r, words \cup {<<ra, nextIp>>},
                Append(fr, [ip |-> nextIp, sp |-> csp, trust |-> "scan", bp |-> 0, bpKnown |-> FALSE]))
Built(ch, r) == LET bp0 == BpNeeded(ch, 1, Base, r)
                    l == Lay(ch, 1, Base, bp0, r, {}, <<>>) IN
   [words |-> l.words, frames |-> l.frames, bp0 |-> bp0, fits |-> l.endsp <= StackEnd]
MemOf(ws) == [i \in 1..NW |-> LET a == Base + (i - 1) * Ptr  S == {w \in ws : w[1] = a} IN IF S = {} THEN 0 ELSE (CHOOSE w \in S : TRUE)[2]]
InitBuilt == /\ done = FALSE /\ rule \in BuiltRules
             /\ \E ch \in {c \in Chains : Buildable(c, rule)} :
                  LET b == Built(ch, rule) IN
                  /\ b.fits
                  /\ mem = MemOf(b.words)
                  /\ expect = b.frames
                  \* the crash is a few bytes further into the function than any return address (a return address equal to the context's
                  \* eip is what the FPO "leftover return address" heuristic looks for)
                  /\ frames = <<[ip |-> IpOf(ch[1].tech) + 4, instr |-> IpOf(ch[1].tech) + 4, sp |-> Base, bp |-> b.bp0, bx |-> 7,
                                valid |-> {"eip", "esp", "ebp", "ebx", "esi", "edi", "eax"}, trust |-> "context", psize |-> Psize(IpOf(ch[1].tech), rule)]>>
Init == IF Mode = "any" THEN InitAny ELSE InitBuilt
Spec == Init /\ [][Next]_vars
WellFormed ==
  /\ frames[1].trust = "context" /\ frames[1].instr = frames[1].ip
  /\ \A k \in 2..Len(frames) :
       /\ frames[k].ip >= 4096 /\ frames[k].instr = frames[k].ip - 1
       /\ frames[k].trust \in {"cfi", "frame_pointer", "scan"}
       /\ frames[k].sp > frames[k - 1].sp
       /\ frames[k].trust = "scan" => (Readable(frames[k].sp - Ptr) /\ Rd(frames[k].sp - Ptr) = frames[k].ip)
Bounded == Len(frames) <= MaxFrames
\* C04: return address, stack pointer, technique; %ebp known with the generated value wherever the chain restores it
MatchesBuild == Mode = "built" =>
   /\ Len(frames) - 1 <= Len(expect)
   /\ \A k \in 2..Len(frames) : /\ frames[k].ip = expect[k - 1].ip /\ frames[k].sp = expect[k - 1].sp /\ frames[k].trust = expect[k - 1].trust
                                /\ (expect[k - 1].bpKnown => ("ebp" \in frames[k].valid /\ frames[k].bp = expect[k - 1].bp))
   /\ (done => Len(frames) - 1 = Len(expect))
Emit == (done \/ Len(frames) = NW * Ptr + 3) => PrintT(<<"CASE", ToJson([mem |-> mem, rule |-> rule, frames |-> frames, expect |-> expect])>>)
====
