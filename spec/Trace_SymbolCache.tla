---- MODULE Trace_SymbolCache ----
(***************************************************************************)
(* C12 on runs of the real Symbolizer under executors the harness does not   *)
(* steer step by step (a seeded random STRICT executor that polls only tasks *)
(* whose waker fired, and a multi-thread tokio runtime).  One record per     *)
(* run: the scripts, whether every task finished, supplier calls per key,    *)
(* what each task observed per lookup, the expected observation per key      *)
(* (from the scripted answer), and the final pending counters.               *)
(***************************************************************************)
EXTENDS Naturals, Sequences, FiniteSets, TLC, Json, IOUtils
Rec == ndJsonDeserialize(IOEnv.VERIF_TRACE)
VARIABLE l
KeysOf(r) == UNION {{r.script[t][i] : i \in 1..Len(r.script[t])} : t \in DOMAIN r.script}
Finished(r) == r.finished = 1                                            \* no request is lost, nothing deadlocks
AtMostOnce(r) == \A k \in DOMAIN r.calls : r.calls[k] <= 1
AskedIffNeeded(r) == \A k \in DOMAIN r.calls : (r.calls[k] >= 1) <=> (k \in KeysOf(r))
SameOutcome(r) == \A t \in DOMAIN r.seen : \A i \in 1..Len(r.seen[t]) : r.seen[t][i].o = r.expected[r.seen[t][i].k]
AllObserved(r) == \A t \in DOMAIN r.script : Len(r.seen[t]) = Len(r.script[t]) /\ \A i \in 1..Len(r.script[t]) : r.seen[t][i].k = r.script[t][i]
Counters(r) == r.requested = r.processed /\ r.requested = Cardinality(KeysOf(r))
Verdict(i, r) ==
  /\ (~Finished(r) => PrintT(<<"VERDICT", i, "LostRequestOrDeadlock">>))
  /\ (~AtMostOnce(r) => PrintT(<<"VERDICT", i, "AtMostOnce">>))
  /\ (Finished(r) =>
       /\ (~AskedIffNeeded(r) => PrintT(<<"VERDICT", i, "AskedIffNeeded">>))
       /\ (~(SameOutcome(r) /\ AllObserved(r)) => PrintT(<<"VERDICT", i, "SameOutcome">>))
       /\ (~Counters(r) => PrintT(<<"VERDICT", i, "Counters">>)))
TInit == l = 1
TNext == l <= Len(Rec) /\ Verdict(l, Rec[l]) /\ l' = l + 1
TSpec == TInit /\ [][TNext]_l
PostOk == /\ PrintT(<<"TRACE", "matched", TLCGet("stats").diameter - 1, "of", Len(Rec)>>)
          /\ TLCGet("stats").diameter - 1 = Len(Rec)
====
