SPECIFICATION Spec
CONSTANTS
  NW = 3
  Mode = "any"
  MaxDepth = 1
  Pads = {0}
  Bits = 64
INVARIANTS WellFormed Bounded Emit
CHECK_DEADLOCK FALSE
