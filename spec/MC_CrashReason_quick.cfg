SPECIFICATION Spec
INVARIANTS RefinedOnlyForKnownCode OtherOsNeverNames AddressFromInfoOnlyOnWindows Emit
CHECK_DEADLOCK FALSE
