---- MODULE WinEval ----
(***************************************************************************)
(* STACK WIN "framedata" program strings (walker.rs module docs "STACK WIN   *)
(* expression mode"): a postfix machine over 32-bit wrapping words whose     *)
(* stack holds integers, variables and .undef, with assignment to            *)
(* variables.  Transcribed semantics:                                        *)
(*   + - * / % @ : as STACK CFI but 32-bit; a variable operand is read       *)
(*                 (undefined variable => fail); / % by zero fail; @ needs   *)
(*                 a power of two                                            *)
(*   =           : pop rhs, pop lhs; lhs must be a variable; rhs .undef      *)
(*                 deletes the variable, otherwise its integer is stored     *)
(*   "=tok"      : some toolchains glue "=" to the next token; same as "="   *)
(*                 followed by tok                                           *)
(*   ^           : dereference stack memory                                  *)
(*   $name .name : push the variable; decimal literal (i32): push integer    *)
(*   initial     : $esp $ebp (mandatory) $ebx (if known), .cbParams          *)
(*                 .cbCalleeParams .cbSavedRegs .cbLocals, .raSearch =       *)
(*                 .raSearchStart = $esp + frame_size, or $ebp + 4 when the  *)
(*                 program contains "@"; frame_size = locals + saved regs +  *)
(*                 grand-callee parameter size; a sum past 2^32 fails        *)
(*   result      : exactly the variables $eip $esp $ebp $ebx $esi $edi that  *)
(*                 are defined at the end; nothing else is known in the      *)
(*                 caller (no implicit forwarding); leftover stack is fine   *)
(* The machine consumes one token per step; since the search start depends   *)
(* on whether the WHOLE program contains "@", both variants are carried and  *)
(* the one that applies is selected when the case is emitted.                *)
(***************************************************************************)
EXTENDS Naturals, Sequences, TLC, Json, FiniteSets, Words
W(v) == FromSmall(v, 2)
CONSTANTS MaxLen, Tok, InstIds, Prefixes      \* Prefixes: programs the enumeration starts from (MaxLen counts tokens added after them)

\* ---- instances: callee registers, record sizes, grand callee ----
\* ebx = <<>> means "not known in the callee"; hasGc = whether the callee has a callee of its own
Insts == [
  normal  |-> [esp |-> W(4096), ebp |-> W(4112), ebx |-> W(7),  hasGc |-> FALSE, gc |-> W(0),  params |-> W(16), saved |-> W(4), locals |-> W(8)],
  noebx   |-> [esp |-> W(4096), ebp |-> W(4112), ebx |-> <<>>,  hasGc |-> FALSE, gc |-> W(0),  params |-> W(16), saved |-> W(4), locals |-> W(8)],
  grand   |-> [esp |-> W(4096), ebp |-> W(4112), ebx |-> W(7),  hasGc |-> TRUE,  gc |-> W(12), params |-> W(16), saved |-> W(4), locals |-> W(8)],
  espwrap |-> [esp |-> <<65520, 65535>>, ebp |-> W(4112), ebx |-> W(7), hasGc |-> FALSE, gc |-> W(0), params |-> W(16), saved |-> W(4), locals |-> W(32)],
  bigloc  |-> [esp |-> W(4096), ebp |-> W(4112), ebx |-> W(7),  hasGc |-> FALSE, gc |-> W(0),  params |-> W(16), saved |-> W(4), locals |-> <<65535, 65535>>],
  ebpwrap |-> [esp |-> W(4096), ebp |-> <<65534, 65535>>, ebx |-> W(7), hasGc |-> FALSE, gc |-> W(0), params |-> W(16), saved |-> W(4), locals |-> W(8)],
  lowesp  |-> [esp |-> W(4),    ebp |-> W(4112), ebx |-> W(7),  hasGc |-> FALSE, gc |-> W(0),  params |-> W(0),  saved |-> W(0), locals |-> W(0)] ]
MemAt(a) == CASE a = W(4096) -> <<4660, 16384>>          \* 0x40001234
              [] a = W(4108) -> <<13107, 16384>>         \* 0x40003333  (normal: esp + frame_size)
              [] a = W(4112) -> W(4128)                  \* saved ebp
              [] a = W(4116) -> <<8738, 16384>>          \* 0x40002222  (ebp + 4)
              [] a = W(4120) -> <<17476, 16384>>         \* 0x40004444  (grand: esp + frame_size)
              [] a = W(4) -> <<21845, 16384>>            \* 0x40005555
              [] OTHER -> <<>>
\* checked sum: <<>> on overflow (the documented "fails cleanly")
CAdd(a, b) == IF a = <<>> \/ b = <<>> THEN <<>> ELSE IF AddOverflows(a, b) THEN <<>> ELSE Add(a, b)
FrameSize(I) == CAdd(CAdd(I.locals, I.saved), I.gc)
\* search start per variant: 1 = program without "@", 2 = program with "@"
SearchStart(I, variant) == IF variant = 1 THEN CAdd(I.esp, FrameSize(I)) ELSE CAdd(I.ebp, W(4))

\* stack entries
Int(x) == [k |-> "int", v |-> x]
Var(n) == [k |-> "var", n |-> n]
Undef == [k |-> "undef"]
InitNames(I) == {"$esp", "$ebp", ".cbParams", ".cbCalleeParams", ".cbSavedRegs", ".cbLocals", ".raSearch", ".raSearchStart"}
                \cup (IF I.ebx = <<>> THEN {} ELSE {"$ebx"})
InitVars(I, ss) == [ n \in InitNames(I) |->
   CASE n = "$esp" -> I.esp [] n = "$ebp" -> I.ebp [] n = "$ebx" -> I.ebx
     [] n = ".cbParams" -> I.params [] n = ".cbCalleeParams" -> I.gc
     [] n = ".cbSavedRegs" -> I.saved [] n = ".cbLocals" -> I.locals
     [] OTHER -> ss ]
IntOf(vs, e) == IF e.k = "int" THEN e.v ELSE IF e.k = "var" /\ e.n \in DOMAIN vs THEN vs[e.n] ELSE <<>>     \* <<>> = failure
Bad == [ok |-> FALSE, stk |-> <<>>, vars |-> <<>>]
Good(s, vs) == [ok |-> TRUE, stk |-> s, vars |-> vs]
Bin(s, vs, f(_,_), needNZ, needP2) ==
  IF Len(s) < 2 THEN Bad
  ELSE LET r == IntOf(vs, s[Len(s)])  l == IntOf(vs, s[Len(s)-1]) IN
       IF r = <<>> \/ l = <<>> THEN Bad
       ELSE IF needNZ /\ IsZero(r) THEN Bad
       ELSE IF needP2 /\ ~IsPow2(r) THEN Bad
       ELSE Good(Append(SubSeq(s, 1, Len(s)-2), Int(f(l, r))), vs)
LitVal == [ l4 |-> W(4), l8 |-> W(8), lm1 |-> AllOnes(2), l0 |-> W(0), l3 |-> W(3), lmin |-> <<0, 32768>> ]   \* 4 8 -1 0 3 -2147483648
NotLit == {"lbig", "junk"}                 \* 4294967296 (outside i32), "junk"
Apply(s, vs, t) ==
  CASE t = "+" -> Bin(s, vs, Add, FALSE, FALSE)
    [] t = "-" -> Bin(s, vs, Sub, FALSE, FALSE)
    [] t = "*" -> Bin(s, vs, Mul, FALSE, FALSE)
    [] t = "/" -> Bin(s, vs, Div, TRUE, FALSE)
    [] t = "%" -> Bin(s, vs, Mod, TRUE, FALSE)
    [] t = "@" -> Bin(s, vs, AlignDown, FALSE, TRUE)
    [] t = "=" -> IF Len(s) < 2 THEN Bad
                  ELSE LET r == s[Len(s)]  l == s[Len(s)-1]  rest == SubSeq(s, 1, Len(s)-2) IN
                       IF l.k # "var" THEN Bad
                       ELSE IF r.k = "undef" THEN Good(rest, [n \in (DOMAIN vs) \ {l.n} |-> vs[n]])
                       ELSE IF IntOf(vs, r) = <<>> THEN Bad
                       ELSE Good(rest, [n \in (DOMAIN vs) \cup {l.n} |-> IF n = l.n THEN IntOf(vs, r) ELSE vs[n]])
    [] t = "^" -> IF Len(s) < 1 THEN Bad
                  ELSE LET p == IntOf(vs, s[Len(s)]) IN
                       IF p = <<>> THEN Bad ELSE IF MemAt(p) = <<>> THEN Bad ELSE Good(Append(SubSeq(s, 1, Len(s)-1), Int(MemAt(p))), vs)
    [] t = ".undef" -> Good(Append(s, Undef), vs)
    [] t \in DOMAIN LitVal -> Good(Append(s, Int(LitVal[t])), vs)
    [] t \in NotLit -> Bad
    [] OTHER -> Good(Append(s, Var(t)), vs)                    \* $name or .name
\* "=l4" is the glued spelling "=4": "=" then "4"
ApplyTok(s, vs, t) == IF t = "=l4" THEN LET a == Apply(s, vs, "=") IN IF a.ok THEN Apply(a.stk, a.vars, "l4") ELSE Bad
                      ELSE Apply(s, vs, t)

VARIABLES inst, prog, stk, vars, st
v == <<inst, prog, stk, vars, st>>
I == Insts[inst]
\* run a whole program from the initial state of one search-start variant
RECURSIVE RunProg(_,_,_)
RunProg(a, p, i) == IF i > Len(p) \/ ~a.ok THEN a ELSE RunProg(ApplyTok(a.stk, a.vars, p[i]), p, i + 1)
Start(i0, variant) == IF SearchStart(Insts[i0], variant) = <<>> THEN Bad ELSE Good(<<>>, InitVars(Insts[i0], SearchStart(Insts[i0], variant)))
Init == /\ inst \in InstIds /\ prog \in Prefixes
        /\ LET a1 == RunProg(Start(inst, 1), prog, 1)  a2 == RunProg(Start(inst, 2), prog, 1) IN
           /\ st = <<a1.ok, a2.ok>> /\ stk = <<a1.stk, a2.stk>> /\ vars = <<a1.vars, a2.vars>>
PrefixLen == IF \E p \in Prefixes : Len(p) <= Len(prog) /\ SubSeq(prog, 1, Len(p)) = p
             THEN (CHOOSE n \in 0..Len(prog) : (\E p \in Prefixes : Len(p) = n /\ SubSeq(prog, 1, n) = p)
                                               /\ \A p \in Prefixes : (Len(p) <= Len(prog) /\ SubSeq(prog, 1, Len(p)) = p) => Len(p) <= n)
             ELSE 0
Step(t) == /\ (st[1] \/ st[2]) /\ Len(prog) - PrefixLen < MaxLen /\ prog' = Append(prog, t) /\ UNCHANGED inst
           /\ LET a1 == IF st[1] THEN ApplyTok(stk[1], vars[1], t) ELSE Bad
                  a2 == IF st[2] THEN ApplyTok(stk[2], vars[2], t) ELSE Bad IN
              /\ st' = <<a1.ok, a2.ok>> /\ stk' = <<a1.stk, a2.stk>> /\ vars' = <<a1.vars, a2.vars>>
Alive == st[1] \/ st[2]
StepOp     == Alive /\ \E t \in Tok \cap {"+","-","*","/","%","@"} : Step(t)
StepAssign == Alive /\ \E t \in Tok \cap {"=", "=l4"} : Step(t)
StepDeref  == Alive /\ \E t \in Tok \cap {"^"} : Step(t)
StepUndef  == Alive /\ \E t \in Tok \cap {".undef"} : Step(t)
StepLit    == Alive /\ \E t \in Tok \cap (DOMAIN LitVal \cup NotLit) : Step(t)
StepVar    == Alive /\ \E t \in Tok \ ({"+","-","*","/","%","@","=","=l4","^",".undef"} \cup DOMAIN LitVal \cup NotLit) : Step(t)
Next == StepOp \/ StepAssign \/ StepDeref \/ StepUndef \/ StepLit \/ StepVar
Spec == Init /\ [][Next]_v
HasAt == \E i \in 1..Len(prog) : prog[i] = "@"
Sel == IF HasAt THEN 2 ELSE 1
Outs == {"$eip","$esp","$ebp","$ebx","$esi","$edi"}
Result == IF st[Sel] THEN [ok |-> TRUE, regs |-> [n \in (DOMAIN vars[Sel]) \cap Outs |-> vars[Sel][n]]] ELSE [ok |-> FALSE]

\* ---- design-level properties ----
TypeOK == \A i \in 1..2 : st[i] => (\A j \in 1..Len(stk[i]) : stk[i][j].k \in {"int","var","undef"})
                                    /\ (\A n \in DOMAIN vars[i] : Len(vars[i][n]) = 2)
\* only the six documented registers are ever reported
OnlyOuts == Result.ok => DOMAIN Result.regs \subseteq Outs
\* nothing is forwarded implicitly: $esi/$edi are reported only if the program assigned them
NoImplicit == Result.ok => \A r \in {"$esi", "$edi", "$eip"} : r \in DOMAIN Result.regs => (\E i \in 1..Len(prog) : prog[i] = r)
Emit == PrintT(<<"CASE", ToJson([inst |-> inst, prog |-> prog, res |-> Result])>>)
====
