SPECIFICATION Spec
CONSTANTS
  NW = 12
  Mode = "built"
  MaxDepth = 4
  Pads = {0, 1}
  Arch = "arm"
  Os = "ios"
  AliasAware = TRUE
INVARIANTS WellFormed Bounded MatchesBuild Emit
CHECK_DEADLOCK FALSE
