---- MODULE DumpModel ----
(***************************************************************************)
(* What a well-formed minidump *means* (C02).  An abstract dump is chosen    *)
(* facet by facet (the facets are independent, so each is explored fully     *)
(* with the others at their defaults); the specification defines what the    *)
(* reader must return for it:                                                *)
(*   directory  the reader walks the directory entry by entry; the stream    *)
(*              served for a type is the LAST entry of that type             *)
(*   threads    items in file order; get_thread(id) is the last thread with  *)
(*              that id; stack memory is the thread's own slice, else the    *)
(*              memory-list region containing the stack's start address      *)
(*   modules    identifier RULES by CodeView kind and OS (constructor terms; *)
(*              the harness renders them with the leaf values it wrote)      *)
(*   memory     32- or 64-bit list; every address of every region maps to    *)
(*              that region's byte; addresses outside map to nothing         *)
(*   names      UTF-16 strings are returned exactly, whatever they start     *)
(*              with                                                         *)
(*   misc       the largest of the five MISC_INFO layouts that fits          *)
(*   crashpad   annotation objects by type; strings are length-prefixed       *)
(*   sysinfo    the CPU description of x86 / x86-64, same in both byte orders *)
(*   padding    counted 32-bit lists are accepted with 0 or 4 bytes between  *)
(*              the count and the entries, and mean the same items           *)
(* Byte order is an input of the ELF debug-id rule and of nothing else.      *)
(***************************************************************************)
EXTENDS Naturals, Sequences, FiniteSets, TLC, Json
CONSTANTS Facets, MaxDir
VARIABLES facet, endian, m, i, served, phase
vars == <<facet, endian, m, i, served, phase>>
\* elf20_z16: a 20-byte build id whose first 16 bytes are zero and whose tail is not: not a trivial build id
CvKinds == {"pdb70", "pdb70_nil", "pdb20", "elf0", "elf8", "elf16", "elf20", "elf20_z16", "elf_zero", "none", "unknown"}
OSes == {"windows", "linux", "mac"}
\* ---- identifier rules (minidump.rs read_debug_id, code_identifier, debug_file, version)
DebugIdRule(cv) == CASE cv = "pdb70" -> "guid_age" [] cv = "pdb20" -> "sig_age"
                     [] cv \in {"elf8"} -> "build_id_padded_as_guid" [] cv \in {"elf16", "elf20", "elf20_z16"} -> "build_id16_as_guid"
                     [] OTHER -> "none"
CodeIdRule(os, cv) == CASE cv \in {"pdb70", "pdb70_nil"} /\ os = "mac" -> "guid_plain"
                        [] cv \in {"pdb70", "pdb70_nil", "pdb20"} -> "timestamp_size"
                        [] cv \in {"elf8", "elf16", "elf20", "elf20_z16"} -> "build_id_hex"
                        [] cv = "none" /\ os = "windows" -> "timestamp_size"
                        [] OTHER -> "none"
DebugFileRule(cv) == CASE cv \in {"pdb70", "pdb70_nil", "pdb20"} -> "pdb_name" [] cv \in {"elf0", "elf8", "elf16", "elf20", "elf20_z16", "elf_zero"} -> "module_name" [] OTHER -> "none"
VersionRule(os, sigOk) == IF ~sigOk THEN "none" ELSE IF os \in {"windows", "mac"} THEN "hi16.lo16.hi16.lo16" ELSE "filehi.filelo.prodhi.prodlo"
\* ---- facets
ModuleSpecs == [cv : CvKinds, os : OSes, sigOk : BOOLEAN]
StackKinds == {"own", "fallback", "missing"}
NameKinds == {"plain", "bom_fe", "bom_ff", "nonbmp", "empty", "bom_only", "nul_inside"}
Placements == {"disjoint", "adjacent", "top", "low_and_top"}
DirTypes == {"names", "misc", "unused"}
AnnKinds == {"str", "str_unterminated", "invalid", "user", "unsupported"}
DirEntries == [type : DirTypes, variant : {"A", "B"}]
SeqsUpTo(S, n) == UNION {[1..k -> S] : k \in 0..n}
Models(fc) ==
  CASE fc = "modules" -> [mods : SeqsUpTo(ModuleSpecs, 1) \cup {<<a, b>> : a \in [cv : CvKinds, os : {"linux"}, sigOk : {TRUE}], b \in [cv : {"pdb70", "elf20", "none"}, os : {"linux"}, sigOk : {TRUE}]}, order : {"asc", "desc"}]
    \* pad: the 32-bit list streams may carry 4 bytes of padding between the count and the first entry (read_stream_list)
    [] fc = "threads" -> [stacks : SeqsUpTo(StackKinds, 3), dupIds : BOOLEAN, memKind : {"mem32", "mem64"}, pad : {0, 4}]
    [] fc = "memory" -> [memKind : {"mem32", "mem64"}, regions : 0..3, placement : Placements, pad : {0, 4}]
    [] fc = "directory" -> [dir : SeqsUpTo(DirEntries, MaxDir)]
    [] fc = "names" -> [site : {"module", "thread", "unloaded", "csd", "bootargs", "handle_type"}, kind : NameKinds]
    \* opt: which of the three optional MISC_INFO_3 fields are flagged as present (each accessor looks at its own flag)
    [] fc = "misc" -> {[layout |-> l, pad |-> p, opt |-> o] : l \in 1..5, p \in {0, 4}, o \in SUBSET {"integrity", "execute", "protected"}}
    \* Crashpad annotation objects of each type; a string value is length-prefixed, so whether a 0 byte follows it is immaterial
    [] fc = "crashpad" -> [objs : SeqsUpTo(AnnKinds, 2), simple : 0..2, list : 0..2, mods : 1..2]
    [] fc = "sysinfo" -> [cpu : {"x86", "amd64", "arm64"}, vendor : {"GenuineIntel", "AuthenticAMD"}, rev : {"r0", "r1"}]
Init == /\ facet \in Facets /\ endian \in {"little", "big"} /\ m \in Models(facet)
        /\ i = 1 /\ served = [t \in DirTypes |-> 0] /\ phase = "walk"
\* ---- the directory walk (Minidump::read): a BTreeMap insert per entry, so a later entry replaces an earlier one
Dir == IF facet = "directory" THEN m.dir ELSE <<>>
Walk == /\ phase = "walk" /\ i <= Len(Dir)
        /\ served' = [served EXCEPT ![Dir[i].type] = i] /\ i' = i + 1 /\ UNCHANGED <<facet, endian, m, phase>>
Finish == /\ phase = "walk" /\ i > Len(Dir) /\ phase' = "done" /\ UNCHANGED <<facet, endian, m, i, served>>
Next == Walk \/ Finish
Spec == Init /\ [][Next]_vars
\* ---- defined results
LastOf(t) == IF \E k \in 1..Len(Dir) : Dir[k].type = t THEN CHOOSE k \in 1..Len(Dir) : Dir[k].type = t /\ \A j \in (k + 1)..Len(Dir) : Dir[j].type # t ELSE 0
ServedIsLast == phase = "done" => \A t \in DirTypes : served[t] = LastOf(t)
ServedMonotone == \A t \in DirTypes : served[t] < i
ThreadExpect == IF facet # "threads" THEN <<>> ELSE
   [k \in 1..Len(m.stacks) |-> [stack |-> m.stacks[k],
                                \* get_thread(id): with duplicate ids every thread has the same id and the last one answers
                                byId |-> IF m.dupIds THEN Len(m.stacks) ELSE k]]
ModuleExpect == IF facet # "modules" THEN <<>> ELSE
   [k \in 1..Len(m.mods) |-> [debug_id |-> DebugIdRule(m.mods[k].cv), code_id |-> CodeIdRule(m.mods[k].os, m.mods[k].cv),
                              debug_file |-> DebugFileRule(m.mods[k].cv), version |-> VersionRule(m.mods[k].os, m.mods[k].sigOk)]]
\* by_addr order of the modules: ascending base address, whatever the file order
ByAddr == IF facet # "modules" THEN <<>> ELSE IF Len(m.mods) = 2 /\ m.order = "desc" THEN <<2, 1>> ELSE [k \in 1..Len(m.mods) |-> k]
MiscFields(layout) == CASE layout = 1 -> {"pid", "times"} [] layout = 2 -> {"pid", "times", "power"} [] layout = 3 -> {"pid", "times", "power", "timezone"}
                        [] layout = 4 -> {"pid", "times", "power", "timezone", "build"} [] layout = 5 -> {"pid", "times", "power", "timezone", "build", "xstate"}
AnnExpect == IF facet # "crashpad" THEN <<>> ELSE
   [k \in 1..Len(m.objs) |-> CASE m.objs[k] \in {"str", "str_unterminated"} -> "string" [] m.objs[k] = "invalid" -> "invalid" [] m.objs[k] = "user" -> "user_defined" [] OTHER -> "unsupported"]
\* the CPU description: 32-bit x86 shows the CPUID vendor string (the same string in either byte order), x86 and x86-64 show family / model / stepping
CpuInfoRule == IF facet # "sysinfo" THEN "none" ELSE CASE m.cpu = "x86" -> "vendor_family_model_stepping" [] m.cpu = "amd64" -> "family_model_stepping" [] OTHER -> "other"
TypeOK == phase \in {"walk", "done"} /\ i \in 1..(MaxDir + 1)
Emit == phase = "done" => PrintT(<<"CASE", ToJson([facet |-> facet, endian |-> endian, m |-> m, served |-> served,
                                                    threads |-> ThreadExpect, modules |-> ModuleExpect, byAddr |-> ByAddr,
                                                    misc |-> IF facet = "misc" THEN MiscFields(m.layout) \cup (IF m.layout >= 3 THEN m.opt ELSE {}) ELSE {}, ann |-> AnnExpect, cpuinfo |-> CpuInfoRule])>>)
====
