---- MODULE CfiEval ----
(***************************************************************************)
(* The STACK CFI expression evaluator as a token-per-step machine over the  *)
(* documented semantics in CfiExpr.tla.  Every reachable state is one       *)
(* conformance case (program, position) |-> result, replayed through the    *)
(* real SymbolFile::walk_frame by harness/src/bin/replay_cfi.rs.            *)
(***************************************************************************)
EXTENDS CfiExpr
\* ---- the token machine ----
CONSTANTS MaxLen, Tok
CfaVal == W(4104)
VARIABLES prog, stk, st, mode
vars == <<prog, stk, st, mode>>
Init == prog = <<>> /\ stk = <<>> /\ st = "run" /\ mode \in {"ra", "cfa"}
CfaOf(m) == IF m = "ra" THEN CfaVal ELSE <<>>
Step(t) ==
  /\ st = "run" /\ Len(prog) < MaxLen /\ prog' = Append(prog, t) /\ UNCHANGED mode
  /\ LET a == Apply(stk, t, CfaOf(mode)) IN
       /\ st' = IF a.ok THEN "run" ELSE "failed"
       /\ stk' = a.stk
\* separate actions per token class so that -coverage shows each class was exercised
StepArith == st = "run" /\ \E t \in Tok \cap {"+","-","*"} : Step(t)
StepDiv == st = "run" /\ \E t \in Tok \cap {"/","%"} : Step(t)
StepAlign == st = "run" /\ \E t \in Tok \cap {"@"} : Step(t)
StepDeref == st = "run" /\ \E t \in Tok \cap {"^"} : Step(t)
StepCfa == st = "run" /\ \E t \in Tok \cap {".cfa"} : Step(t)
StepUndef == st = "run" /\ \E t \in Tok \cap {".undef"} : Step(t)
StepReg == st = "run" /\ \E t \in Tok \cap (DOMAIN RegToks \cup UnknownRegToks) : Step(t)
StepLit == st = "run" /\ \E t \in Tok \cap (DOMAIN Lits \cup NotLits) : Step(t)
Next == StepArith \/ StepDiv \/ StepAlign \/ StepDeref \/ StepCfa \/ StepUndef \/ StepReg \/ StepLit
Spec == Init /\ [][Next]_vars
Result == IF st = "run" /\ Len(stk) = 1 THEN stk[1] ELSE <<>>

\* ---- design-level properties of the evaluator (checked by TLC on every state) ----
TypeOK == /\ st \in {"run", "failed"} /\ (st = "failed" => stk = <<>>)
          /\ \A i \in 1..Len(stk) : Len(stk[i]) = 4 /\ \A j \in 1..4 : stk[i][j] \in 0..65535
\* the step-wise machine and the fold agree (Eval is what CfiRules uses)
MachineIsEval == Result = Eval(prog, CfaOf(mode))
\* the CFA may not refer to itself; .undef always makes the rule fail
NoSelfCfa == (mode = "cfa" /\ \E i \in 1..Len(prog) : prog[i] = ".cfa") => Result = <<>>
UndefFails == (\E i \in 1..Len(prog) : prog[i] = ".undef") => Result = <<>>
Emit == PrintT(<<"CASE", ToJson([prog |-> prog, mode |-> mode, res |-> Result])>>)
====
