SPECIFICATION Spec
CONSTANTS
  MaxLen = 4
  Tok = {"+","-","*","/","%","@","=","^",".undef","$T0","$eip","$esp","$ebp","$ebx","$edi","$esi",".raSearch",".raSearchStart",".cbLocals",".cbParams",".cbCalleeParams",".cbSavedRegs","l4","lm1","l8","l0","l3","lmin","=l4","$nope","lbig","junk"}
  InstIds = {"normal","noebx","grand","espwrap","bigloc","ebpwrap","lowesp"}
  Prefixes <- PrefixesAll
INVARIANTS TypeOK OnlyOuts NoImplicit Emit
CHECK_DEADLOCK FALSE
