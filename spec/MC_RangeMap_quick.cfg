SPECIFICATION Spec
CONSTANTS
  MaxLen = 3
  Bases = {0, 1, 2, 4, 8, 9}
  Sizes = {0, 1, 2, 3}
  Vals = {1, 2}
  MaxV = 9
INVARIANTS PropGiven PropByIdx PropWin Emit
CHECK_DEADLOCK FALSE
