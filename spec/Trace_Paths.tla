---- MODULE Trace_Paths ----
(***************************************************************************)
(* C17 on the real output: every relative path the real builders produced    *)
(* for a module name must satisfy Paths!Contained (no leading separator, no  *)
(* drive prefix, no ".." component); differences from the documented layout  *)
(* are reported as DRIFT.  Failing records print a VERDICT line with the     *)
(* builder and the class of the offending leaf, and the trace continues.     *)
(***************************************************************************)
EXTENDS Paths, IOUtils
Rec == ndJsonDeserialize(IOEnv.VERIF_TRACE)
VARIABLE l
LeafClass(s) == LET lf == Leaf(s) IN
   IF Len(lf) = 0 THEN "empty-leaf" ELSE IF lf = ".." THEN "dotdot-leaf"
   ELSE IF DrivePrefix(lf) THEN "drive-prefix-leaf" ELSE "other"
Builders == <<"sym", "sym_server", "sym_kind", "code", "extra", "bin_cache", "bin_server", "moz">>
Documented(r, b) == CASE b = "sym" -> SymRel(r.s, r.did) [] b = "sym_server" -> SymRel(r.s, r.did) [] b = "sym_kind" -> SymRel(r.s, r.did)
                      [] b = "code" -> CodeRel(r.s, r.cid_upper) [] b = "extra" -> ExtraRel(r.s, r.did)
                      [] b = "bin_cache" -> BinCacheRel(r.s, r.s, r.did) [] b = "bin_server" -> BinServerRel(r.s, r.s, r.cid)
                      [] b = "moz" -> Moz(SymRel(r.s, r.did))
Verdict(i, r) ==
  /\ (r.panic = 1 => PrintT(<<"VERDICT", i, "panic", "panic">>))
  /\ (r.panic = 0 => \A k \in 1..Len(Builders) : LET b == Builders[k]  p == r.outs[b] IN
        /\ ((p # "" /\ ~Contained(p)) => PrintT(<<"VERDICT", i, b, LeafClass(r.s)>>))
        /\ (p # Documented(r, b) => PrintT(<<"DRIFT", i, b>>)))
TInit == l = 1 /\ toks = <<>>
TNext == l <= Len(Rec) /\ Verdict(l, Rec[l]) /\ l' = l + 1 /\ UNCHANGED toks
TSpec == TInit /\ [][TNext]_<<l, toks>>
PostOk == /\ PrintT(<<"TRACE", "matched", TLCGet("stats").diameter - 1, "of", Len(Rec)>>)
          /\ TLCGet("stats").diameter - 1 = Len(Rec)
====
