---- MODULE MC_SymbolCache ----
EXTENDS SymbolCache
T3 == {"t1", "t2", "t3"}
K3 == {"k1", "k2", "k3"}
Cfg(s, su, an) == [script |-> s, susp |-> su, ans |-> an]
NoSusp == [k \in K3 |-> 0]
\* quick: three tasks, overlapping keys, each outcome kind, 0..2 suspensions
ConfigsQuick == {
  Cfg([t1 |-> <<"k1","k2">>, t2 |-> <<"k1">>, t3 |-> <<"k2","k1">>], [k1 |-> 1, k2 |-> 0, k3 |-> 0], [k1 |-> "Ok", k2 |-> "NotFound", k3 |-> "Ok"]),
  Cfg([t1 |-> <<"k1">>, t2 |-> <<"k1">>, t3 |-> <<"k1">>], [k1 |-> 2, k2 |-> 0, k3 |-> 0], [k1 |-> "ParseErr", k2 |-> "Ok", k3 |-> "Ok"]),
  Cfg([t1 |-> <<"k1","k1">>, t2 |-> <<"k2","k1">>, t3 |-> <<>>], [k1 |-> 1, k2 |-> 1, k3 |-> 0], [k1 |-> "Ok", k2 |-> "Ok", k3 |-> "Ok"]),
  Cfg([t1 |-> <<"k1">>, t2 |-> <<"k2">>, t3 |-> <<"k3">>], [k1 |-> 0, k2 |-> 1, k3 |-> 0], [k1 |-> "LoadErr", k2 |-> "Ok", k3 |-> "NotFound"]) }
ConfigsThorough == ConfigsQuick \cup {
  Cfg([t1 |-> <<"k1","k2","k3">>, t2 |-> <<"k3","k2","k1">>, t3 |-> <<"k2">>], [k1 |-> 1, k2 |-> 1, k3 |-> 1], [k1 |-> "Ok", k2 |-> "NotFound", k3 |-> "ParseErr"]),
  Cfg([t1 |-> <<"k1","k1","k1">>, t2 |-> <<"k1","k1">>, t3 |-> <<"k1">>], [k1 |-> 3, k2 |-> 0, k3 |-> 0], [k1 |-> "Ok", k2 |-> "Ok", k3 |-> "Ok"]) }
====
