SPECIFICATION Spec
CONSTANTS
  Clients = {"a", "b"}
  N = 2
  MaxUrls = 1
  Statuses = {200, 404}
  DropPts = {0, 1, 2, 3, 4}
  TmpOks = {TRUE, FALSE}
  MoveOks = {TRUE}
  CacheOks = {TRUE}
  Kinds = {"sym", "file"}
  Pres = {TRUE, FALSE}
INVARIANTS TypeOK CacheComplete NoStrayTemp NoEntryOnFailure
CHECK_DEADLOCK FALSE
