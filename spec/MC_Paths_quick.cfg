SPECIFICATION Spec
CONSTANTS
  Tokens <- TokenSet
  MaxTok = 4
INVARIANTS SpecContained Emit
CHECK_DEADLOCK FALSE
