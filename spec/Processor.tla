---- MODULE Processor ----
(***************************************************************************)
(* The process state as an index of the dump (minidump-processor             *)
(* processor.rs: MinidumpInfo / into_process_state; minidump.rs              *)
(* MinidumpException::get_crash_address / get_crash_reason).                 *)
(* A behaviour describes a dump piece by piece (threads, exception record,   *)
(* Breakpad info, platform, misc info, /proc status, unloaded modules);      *)
(* every reachable state is a dump whose process state is defined here:      *)
(*  - one call stack per thread-list entry, in order, same id and name;      *)
(*  - the dump-writer thread (Breakpad dump_thread_id) is skipped;           *)
(*  - the requesting thread is a non-dump-writer thread whose id is the      *)
(*    exception's thread id, else (no exception stream) Breakpad's           *)
(*    requesting id - any such index when ids repeat;                        *)
(*  - its walk starts from the exception context when readable, else from    *)
(*    the thread's own context; a thread without readable context has no     *)
(*    frames (MissingContext);                                               *)
(*  - crash address: Windows access violation / in-page error with at least  *)
(*    two parameters => parameter 1, else the exception address; on 32-bit   *)
(*    CPUs the value is zero-extended from its low 32 bits;                  *)
(*  - crash reason class from OS family, code and parameter count;           *)
(*  - the walk reads the memory region that contains the stack pointer of    *)
(*    the context it starts from (own stack, else the memory list);          *)
(*  - process id: misc info if that stream exists, else /proc status;        *)
(*  - process creation time: misc info's process times when flagged; dump    *)
(*    time: the header's time stamp, whatever its value;                      *)
(*  - a frame outside every loaded module lists every unloaded module that   *)
(*    covers its address with the offset into it.                            *)
(***************************************************************************)
EXTENDS Naturals, Sequences, TLC, FiniteSets, Json
CONSTANTS MaxThreads
Ids == {1, 2}
\* spot: where the thread's ip lies; stk: whether the thread's own stack descriptor contains its stack pointer, or only another region of the memory list does
\* named: the thread-names stream has no entry for the thread / a readable one / one whose string cannot be read (which is skipped: it
\* names nobody and does not affect the entries after it)
Thr == [id : Ids, ctxOk : BOOLEAN, named : {"no", "yes", "bad"}, spot : {"mod", "unl", "unl2", "none"}, stk : {"own", "other"}]
NoExc == [k |-> "none", tid |-> 0, hasCtx |-> FALSE, ctxOk |-> FALSE, code |-> "other", np |-> 0, info1 |-> "lo", addr |-> "lo", kind |-> 0, sp |-> "thread"]
\* sp: where the exception context's stack pointer lies - in a thread's stack, in another region of the memory list, in no memory at all
Exc(t, h, c, cd, n, i, a, kd, s) == [k |-> "some", tid |-> t, hasCtx |-> h, ctxOk |-> c, code |-> cd, np |-> n, info1 |-> i, addr |-> a, kind |-> kd, sp |-> s]
\* the full product of all dimensions is far too large, and the dimensions are independent by construction of the rules:
\* ExcsA varies who the exception names and whether its context is readable (thread mapping), ExcsB varies the record's
\* code / parameters / addresses (crash address and reason)
ExcsA == {Exc(t, h, c, "av", 2, "lo", "lo", 0, s) : t \in {1, 2, 9}, h \in BOOLEAN, c \in BOOLEAN, s \in {"thread", "other", "nowhere"}}
ExcsB == {Exc(1, TRUE, TRUE, cd, n, i, a, kd, "thread") : cd \in {"av", "inpage", "other"}, n \in {0, 1, 2, 3}, i \in {"lo", "hi"}, a \in {"lo", "hi"}, kd \in {0, 1, 8}}
Excs == ExcsA \cup ExcsB
NoBp == [k |-> "none", dump |-> 0, req |-> 0]
Bps == {[k |-> "some", dump |-> d, req |-> r] : d \in {0, 1, 2}, r \in {0, 1, 2, 9}}      \* 0 = field not valid
Platforms == {<<"windows", "x86">>, <<"windows", "amd64">>, <<"linux", "amd64">>, <<"linux", "x86">>, <<"mac", "amd64">>}
VARIABLES threads, exc, bp, plat, misc, status, stamp
vars == <<threads, exc, bp, plat, misc, status, stamp>>
Init == threads = <<>> /\ exc = NoExc /\ bp = NoBp /\ plat = <<"windows", "x86">> /\ misc = "none" /\ status = "none" /\ stamp = "zero"
AddThread == Len(threads) < MaxThreads /\ (Len(threads) = 0 \/ (exc \in ExcsA \cup {NoExc} /\ plat = <<"windows", "x86">> /\ misc = "none" /\ status = "none")) /\ \E t \in Thr : (t.stk = "other" => (t.named = "yes" /\ t.spot = "mod")) /\ (t.named = "bad" => (Len(threads) = 0 /\ t.spot = "mod" /\ t.stk = "own")) /\ (Len(threads) >= 1 => (t.named = "yes" /\ t.spot = "mod" /\ t.stk = "own")) /\ threads' = Append(threads, t) /\ UNCHANGED <<exc, bp, plat, misc, status, stamp>>
\* to keep the space small the exception record varies fully only for one thread shape
SetException == exc = NoExc /\ misc = "none" /\ status = "none" /\ \E e \in (IF Len(threads) <= 1 /\ bp = NoBp THEN Excs ELSE ExcsA) : exc' = e /\ UNCHANGED <<threads, bp, plat, misc, status, stamp>>
SetBreakpad == bp = NoBp /\ exc \in ExcsA \cup {NoExc} /\ plat = <<"windows", "x86">> /\ \E b \in Bps : bp' = b /\ UNCHANGED <<threads, exc, plat, misc, status, stamp>>
SetPlatform == plat = <<"windows", "x86">> /\ Len(threads) <= 1 /\ bp = NoBp /\ misc = "none" /\ status = "none" /\ \E p \in Platforms : plat' = p /\ UNCHANGED <<threads, exc, bp, misc, status, stamp>>
SetMisc == misc = "none" /\ Len(threads) <= 1 /\ exc = NoExc /\ bp = NoBp /\ plat = <<"windows", "x86">> /\ \E m \in {"pid", "nopid", "pid_times", "nopid_times"} : misc' = m /\ UNCHANGED <<threads, exc, bp, plat, status, stamp>>
SetStatus == status = "none" /\ Len(threads) <= 1 /\ exc = NoExc /\ bp = NoBp /\ plat = <<"windows", "x86">> /\ status' = "pid" /\ UNCHANGED <<threads, exc, bp, plat, misc, stamp>>
\* the header's time stamp (seconds since the epoch): zero is a time like any other
SetStamp == stamp = "zero" /\ Len(threads) <= 1 /\ exc = NoExc /\ bp = NoBp /\ plat = <<"windows", "x86">> /\ stamp' \in {"some", "max"} /\ UNCHANGED <<threads, exc, bp, plat, misc, status>>
Next == AddThread \/ SetException \/ SetBreakpad \/ SetPlatform \/ SetMisc \/ SetStatus \/ SetStamp
Spec == Init /\ [][Next]_vars

DumpTid == IF bp.k = "some" /\ bp.dump # 0 THEN bp.dump ELSE 0
Target == IF exc.k = "some" THEN exc.tid ELSE IF bp.k = "some" /\ bp.req # 0 THEN bp.req ELSE 0
IsReq(i) == Target # 0 /\ threads[i].id = Target /\ threads[i].id # DumpTid
ReqSet == {i \in 1..Len(threads) : IsReq(i)}
ExcCtx == exc.k = "some" /\ exc.hasCtx /\ exc.ctxOk
Info(i) == IF threads[i].id = DumpTid THEN "skipped"
           ELSE IF IsReq(i) /\ ExcCtx THEN "ok"
           ELSE IF threads[i].ctxOk THEN "ok" ELSE "missing_ctx"
Src(i) == IF Info(i) # "ok" THEN "none" ELSE IF IsReq(i) /\ ExcCtx THEN "exception" ELSE "thread"
Is32 == plat[2] = "x86"
CrashAddr == IF exc.k = "none" THEN [has |-> FALSE, src |-> "none", val |-> "none", trunc |-> FALSE]
             ELSE LET fromInfo == plat[1] = "windows" /\ exc.code \in {"av", "inpage"} /\ exc.np >= 2 IN
                  [has |-> TRUE, src |-> IF fromInfo THEN "info1" ELSE "addr", val |-> IF fromInfo THEN exc.info1 ELSE exc.addr, trunc |-> Is32]
\* crash reason class (only classes whose rule is documented are predicted; "any" = not judged)
Reason == IF exc.k = "none" THEN "none"
          ELSE IF plat[1] = "windows" /\ exc.code = "av" THEN
               (IF exc.np >= 1 THEN (CASE exc.kind = 0 -> "av_read" [] exc.kind = 1 -> "av_write" [] exc.kind = 8 -> "av_exec") ELSE "av")
          ELSE IF plat[1] = "windows" /\ exc.code = "inpage" THEN "any"
          ELSE "any"
\* process creation time: misc info with the process-times flag, never anything else; dump time: the header stamp
CreateTime == IF misc \in {"pid_times", "nopid_times"} THEN "misc" ELSE "absent"
Pid == IF misc \in {"pid", "pid_times"} THEN "misc" ELSE IF misc \in {"nopid", "nopid_times"} THEN "absent" ELSE IF status = "pid" THEN "status" ELSE "absent"
\* unloaded modules covering frame 0 of thread i (only when it lies in no loaded module)
Unl(i) == IF Src(i) # "thread" THEN {} ELSE CASE threads[i].spot = "unl" -> {"u1"} [] threads[i].spot = "unl2" -> {"u1", "u2"} [] OTHER -> {}
\* the walk reads the memory that contains the stack pointer of the context it starts from: the thread's own stack when that
\* contains it, else whichever region of the memory list does; the caller found there tells which memory was read
Caller(i) == IF Src(i) = "none" THEN "none" ELSE IF Src(i) = "thread" THEN (IF threads[i].stk = "own" THEN "thread_stack" ELSE "other_region")
             ELSE CASE exc.sp = "thread" -> "thread_stack" [] exc.sp = "other" -> "other_region" [] OTHER -> "none"
Expected == [ caller |-> [i \in 1..Len(threads) |-> Caller(i)], infos |-> [i \in 1..Len(threads) |-> Info(i)], srcs |-> [i \in 1..Len(threads) |-> Src(i)],
              ids |-> [i \in 1..Len(threads) |-> threads[i].id], named |-> [i \in 1..Len(threads) |-> \E j \in 1..Len(threads) : threads[j].id = threads[i].id /\ threads[j].named = "yes"],     \* names are keyed by thread id
              unl |-> [i \in 1..Len(threads) |-> Unl(i)], req |-> ReqSet, addr |-> CrashAddr, reason |-> Reason, pid |-> Pid, ctime |-> CreateTime, time |-> stamp ]
\* ---- design-level sanity ----
ReqNotSkipped == \A i \in ReqSet : Info(i) # "skipped"
ReqPrefersException == (exc.k = "some" /\ bp.k = "some" /\ bp.req # 0 /\ bp.req # exc.tid) => \A i \in ReqSet : threads[i].id = exc.tid
ExcContextOnlyForReq == \A i \in 1..Len(threads) : Src(i) = "exception" => IsReq(i)
Emit == PrintT(<<"CASE", ToJson([threads |-> threads, exc |-> exc, bp |-> bp, plat |-> plat, misc |-> misc, status |-> status, stamp |-> stamp, exp |-> Expected])>>)
====
