---- MODULE SymLookup ----
(***************************************************************************)
(* SymbolFile::fill_symbol (breakpad-symbols/src/sym_file/mod.rs, types.rs)  *)
(* defined DECLARATIVELY by linear scan over the records of a symbol file:   *)
(*  - function: the FUNC whose [addr, addr+size) contains the address; else  *)
(*    the greatest PUBLIC <= address unless a FUNC starts in [public, addr)  *)
(*    (a PUBLIC cannot extend past a FUNC that starts at or after it);       *)
(*  - parameter size: STACK WIN frame data covering the address, else STACK  *)
(*    WIN fpo, else the FUNC's own value;                                    *)
(*  - source line: the call site of the depth-0 inlinee covering the         *)
(*    address, else the line record covering it;                             *)
(*  - inline frames, outermost first: for depth 1,2,.. the inlinee covering  *)
(*    the address contributes (name of the origin one level up, its own      *)
(*    call site); the last frame is (deepest origin, line record).           *)
(* A behaviour adds records one at a time from candidate pools (every        *)
(* reachable state is a symbol file); records of one kind do not overlap,    *)
(* so the declarative result is unique.  Zero-size records are ignored.      *)
(***************************************************************************)
EXTENDS Naturals, Sequences, TLC, FiniteSets, Json
CONSTANTS MaxRecs
FCands == { [name |-> "fA", addr |-> 2, size |-> 4, psize |-> 4], [name |-> "fB", addr |-> 6, size |-> 2, psize |-> 0],
            [name |-> "fC", addr |-> 9, size |-> 2, psize |-> 8], [name |-> "fZ", addr |-> 8, size |-> 0, psize |-> 1] }       \* fZ: zero size, ignored
PCands == { [name |-> "p0", addr |-> 0, psize |-> 5], [name |-> "p1", addr |-> 1, psize |-> 1], [name |-> "p3", addr |-> 3, psize |-> 7], [name |-> "p6", addr |-> 6, psize |-> 2], [name |-> "p8", addr |-> 8, psize |-> 3] }
\* line records of fA (file 1); a zero-size line is dropped
\* file 1 has a FILE record, file 7 has none: such a record still counts, it only cannot name its file
LCands == { [addr |-> 2, size |-> 1, line |-> 10, file |-> 1], [addr |-> 3, size |-> 2, line |-> 11, file |-> 1], [addr |-> 5, size |-> 1, line |-> 12, file |-> 1], [addr |-> 3, size |-> 0, line |-> 99, file |-> 1],
            [addr |-> 2, size |-> 1, line |-> 13, file |-> 7], [addr |-> 5, size |-> 1, line |-> 14, file |-> 7] }
\* inlinees of fA: depth, one or two ranges, call line, origin id
ICands == { [id |-> "i0a", depth |-> 0, ranges |-> <<<<2, 2>>>>, cline |-> 20, origin |-> 1, cfile |-> 1],
            [id |-> "i0b", depth |-> 0, ranges |-> <<<<4, 1>>, <<5, 1>>>>, cline |-> 22, origin |-> 2, cfile |-> 1],      \* a multi-range record
            [id |-> "i1a", depth |-> 1, ranges |-> <<<<3, 1>>>>, cline |-> 21, origin |-> 2, cfile |-> 1],
            [id |-> "i2a", depth |-> 2, ranges |-> <<<<3, 1>>>>, cline |-> 23, origin |-> 1, cfile |-> 1],
            [id |-> "i0x", depth |-> 0, ranges |-> <<<<2, 2>>>>, cline |-> 24, origin |-> 1, cfile |-> 7],                \* call sites in a file without FILE record
            [id |-> "i1x", depth |-> 1, ranges |-> <<<<3, 1>>>>, cline |-> 25, origin |-> 2, cfile |-> 7],
            [id |-> "i0y", depth |-> 0, ranges |-> <<<<2, 2>>>>, cline |-> 26, origin |-> 3, cfile |-> 1],                \* origin 3 has no INLINE_ORIGIN record
            [id |-> "i1y", depth |-> 1, ranges |-> <<<<3, 1>>>>, cline |-> 27, origin |-> 3, cfile |-> 1],
            [id |-> "i0z", depth |-> 0, ranges |-> <<<<4, 0>>, <<2, 0>>>>, cline |-> 28, origin |-> 2, cfile |-> 1] }                \* only zero-size ranges: covers nothing
\* STACK WIN records (only their parameter sizes matter here)
WCands == { [kind |-> "fd", addr |-> 3, size |-> 2, psize |-> 12], [kind |-> "fpo", addr |-> 2, size |-> 3, psize |-> 16] }
Origins == <<"o1", "o2">>
Addrs == 0..12
VARIABLES funcs, pubs, lines, inls, wins
vars == <<funcs, pubs, lines, inls, wins>>
Total == Cardinality(funcs) + Cardinality(pubs) + Cardinality(lines) + Cardinality(inls) + Cardinality(wins)
Init == funcs = {} /\ pubs = {} /\ lines = {} /\ inls = {} /\ wins = {}
AddFunc == Total < MaxRecs /\ \E f \in FCands \ funcs : funcs' = funcs \cup {f} /\ UNCHANGED <<pubs, lines, inls, wins>>
AddPublic == Total < MaxRecs /\ \E p \in PCands \ pubs : pubs' = pubs \cup {p} /\ UNCHANGED <<funcs, lines, inls, wins>>
HasA == \E f \in funcs : f.name = "fA"
AddLine == Total < MaxRecs /\ HasA /\ \E l \in LCands \ lines : (\A m \in lines : m.addr # l.addr \/ m.size = 0 \/ l.size = 0) /\ lines' = lines \cup {l} /\ UNCHANGED <<funcs, pubs, inls, wins>>
AddInline == Total < MaxRecs /\ HasA /\ \E i \in ICands \ inls : (\A j \in inls : j.depth # i.depth \/ j.ranges # i.ranges) /\ inls' = inls \cup {i} /\ UNCHANGED <<funcs, pubs, lines, wins>>
AddWin == Total < MaxRecs /\ \E w \in WCands \ wins : wins' = wins \cup {w} /\ UNCHANGED <<funcs, pubs, lines, inls>>
Next == AddFunc \/ AddPublic \/ AddLine \/ AddInline \/ AddWin
Spec == Init /\ [][Next]_vars

Cov(r, a) == r.size > 0 /\ r.addr <= a /\ a < r.addr + r.size
FuncAt(a) == {f \in funcs : Cov(f, a)}
LineAt(a) == {l \in lines : Cov(l, a)}
RangeCov(rg, a) == rg[2] > 0 /\ rg[1] <= a /\ a < rg[1] + rg[2]
InlAt(d, a) == {i \in inls : i.depth = d /\ \E k \in 1..Len(i.ranges) : RangeCov(i.ranges[k], a)}
InlBase(i, a) == LET k == CHOOSE k \in 1..Len(i.ranges) : RangeCov(i.ranges[k], a) IN i.ranges[k][1]
WinPsize(a) == LET fd == {w \in wins : w.kind = "fd" /\ Cov(w, a)}  fpo == {w \in wins : w.kind = "fpo" /\ Cov(w, a)} IN
   IF fd # {} THEN (CHOOSE w \in fd : TRUE).psize ELSE IF fpo # {} THEN (CHOOSE w \in fpo : TRUE).psize ELSE 0 - 1
\* PUBLIC fallback: greatest public <= a, cut off when a non-empty FUNC starts in [public, a)
PubFor(a) == LET P == {p \in pubs : p.addr <= a} IN
   IF P = {} THEN {} ELSE
   LET p == CHOOSE q \in P : \A r \in P : r.addr <= q.addr IN
   IF \E f \in funcs : f.size > 0 /\ p.addr <= f.addr /\ f.addr < a THEN {} ELSE {p}
FileName(id) == IF id = 1 THEN "a.c" ELSE "none"
InnerLine(a) == IF LineAt(a) = {} THEN [file |-> "none", line |-> 0] ELSE LET l == CHOOSE l \in LineAt(a) : TRUE IN [file |-> FileName(l.file), line |-> l.line]
RECURSIVE InlChain(_,_,_)
\* a level whose origin id has no INLINE_ORIGIN record has no name and contributes no frame; the levels below it are unaffected
Named(o, file, line) == IF o \in 1..Len(Origins) THEN <<[name |-> Origins[o], file |-> file, line |-> line]>> ELSE <<>>
InlChain(a, d, prevOrigin) ==                      \* frames for depths d, d+1, ... given the origin of depth d-1
   IF InlAt(d, a) = {} THEN Named(prevOrigin, InnerLine(a).file, InnerLine(a).line)
   ELSE LET i == CHOOSE x \in InlAt(d, a) : TRUE IN
        Named(prevOrigin, FileName(i.cfile), i.cline) \o InlChain(a, d + 1, i.origin)
NoSym == [fn |-> "none", base |-> 0, psize |-> 0, src |-> <<>>, inl |-> <<>>]
Expected(a) ==
  IF FuncAt(a) # {} THEN
     LET f == CHOOSE x \in FuncAt(a) : TRUE
         isA == f.name = "fA"
         i0 == IF isA THEN InlAt(0, a) ELSE {}
         ln == IF isA THEN LineAt(a) ELSE {} IN
     [ fn |-> f.name, base |-> f.addr, psize |-> IF WinPsize(a) >= 0 THEN WinPsize(a) ELSE f.psize,
       \* the source location is that of the outermost record; when its file has no FILE record there is none (no fall-back)
       src |-> IF i0 # {} THEN LET i == CHOOSE x \in i0 : TRUE IN (IF i.cfile = 1 THEN <<i.cline, InlBase(i, a)>> ELSE <<>>)
               ELSE IF ln # {} THEN LET l == CHOOSE x \in ln : TRUE IN (IF l.file = 1 THEN <<l.line, l.addr>> ELSE <<>>) ELSE <<>>,
       inl |-> IF i0 # {} THEN InlChain(a, 1, (CHOOSE x \in i0 : TRUE).origin) ELSE <<>> ]
  ELSE IF PubFor(a) # {} THEN LET p == CHOOSE x \in PubFor(a) : TRUE IN [fn |-> p.name, base |-> p.addr, psize |-> p.psize, src |-> <<>>, inl |-> <<>>]
  ELSE NoSym
\* ---- C11 predicates on the specification itself ----
\* reported bases never exceed the instruction; the function really covers it (FUNC) or is the nearest preceding PUBLIC
BasesBelow == \A a \in Addrs : Expected(a).fn # "none" => Expected(a).base <= a /\ (Expected(a).src # <<>> => Expected(a).src[2] <= a)
CoversOrPublic == \A a \in Addrs : LET e == Expected(a) IN e.fn # "none" =>
     \/ \E f \in funcs : f.name = e.fn /\ Cov(f, a)
     \/ (\E p \in pubs : p.name = e.fn /\ p.addr <= a /\ \A q \in pubs : q.addr <= a => q.addr <= p.addr) /\ FuncAt(a) = {}
\* inline frames are nested: depth d+1 appears only when depth d covers the address
Nested == \A a \in Addrs : Len(Expected(a).inl) > 0 => InlAt(0, a) # {}
Emit == PrintT(<<"CASE", ToJson([funcs |-> funcs, pubs |-> pubs, lines |-> lines, inls |-> inls, wins |-> wins,
                                  exp |-> [k \in 1..13 |-> Expected(k - 1)]])>>)
====
