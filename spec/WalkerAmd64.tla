---- MODULE WalkerAmd64 ----
(***************************************************************************)
(* The x86-64 stack walker (Os = "linux" or "windows"): minidump-unwind/src/amd64.rs       *)
(* get_caller_frame + lib.rs walk_stack, over a small symbolic machine.      *)
(* Techniques are tried in priority order: STACK CFI, frame pointer, stack   *)
(* scan; the chosen caller must have an instruction pointer >= 4096 and a    *)
(* stack pointer strictly above the callee's.  Each technique is its own     *)
(* action so that coverage shows which ones a configuration exercises.       *)
(*                                                                           *)
(* Mode "any"  : every stack of NW words over a candidate value set, every   *)
(*               context, four CFI rule shapes  (C05 monitors, C03 bound,    *)
(*               replayed for exact agreement with the real walker).         *)
(* Mode "built": well-formed stacks laid out by Build(chain) for every chain *)
(*               of calls (per-call technique fp / cfi / scan, filler size); *)
(*               the walk must return exactly the generated chain (C04).     *)
(*                                                                           *)
(* Addresses are small integers; NC stands for a non-canonical value (the    *)
(* harness maps it to 0x0000_8000_0000_0000).  Code layout:                  *)
(*   M1 (has symbols) 0x400000..0x400fff: F1 +0x100..0x1ff with STACK CFI,   *)
(*                                        F2 +0x300..0x3ff without           *)
(*   M2 (no symbols)  0x500000..0x500fff                                     *)
(***************************************************************************)
EXTENDS Naturals, Integers, Sequences, TLC, FiniteSets, Json
CONSTANTS NW, Mode, MaxDepth, Pads, Os
Ptr == 8
Base == 65536           \* 0x10000
StackEnd == Base + NW * Ptr
NC == 1073741824
MaxA == 2147483647
M1lo == 4194304  M1hi == 4198399
F1lo == 4194560  F1hi == 4194815
F2lo == 4195072  F2hi == 4195327
M2lo == 5242880  M2hi == 5246975
A1 == F1lo + 80      \* inside F1 (has CFI)
A2 == F2lo + 80      \* inside F2 (function, no CFI)
A3 == F1hi + 81      \* in M1, no function
A4 == M2lo + 16      \* in M2 (no symbols)
InMod(a) == (a >= M1lo /\ a <= M1hi) \/ (a >= M2lo /\ a <= M2hi)
InM1(a) == a >= M1lo /\ a <= M1hi
HasFunc(a) == (a >= F1lo /\ a <= F1hi) \/ (a >= F2lo /\ a <= F2hi)
HasCfi(a) == a >= F1lo /\ a <= F1hi
NonCanon(a) == a = NC
Rules == {"std", "leaf", "nomem", "bp"}
\* std  : .cfa: $rsp 16 + .ra: .cfa 8 - ^ $rbp: .cfa 16 - ^
\* leaf : .cfa: $rsp 8 + .ra: .cfa 8 - ^
\* nomem: .cfa: $rsp 8 + .ra: <A1>            (never touches memory)
\* bp   : .cfa: $rbp 16 + .ra: .cfa 8 - ^ $rbp: .cfa 16 - ^
AE == F1hi + 1      \* the return address of a call that is the last instruction of F1 (a noreturn callee): the look-up address AE - 1 is in F1
Vals == {0, A1, A3, A4, AE, Base, Base + 16, Base + 24, NC}

VARIABLES mem, rule, frames, done, expect
vars == <<mem, rule, frames, done, expect>>
Readable(a) == a >= Base /\ a + Ptr <= StackEnd /\ (a - Base) % Ptr = 0
Aligned(a) == (a - Base) % Ptr = 0
Rd(a) == mem[(a - Base) \div Ptr + 1]
None == [none |-> TRUE]
IsNone(x) == "none" \in DOMAIN x
\* a scanned word looks like a return address: canonical, the byte before it lies in a module, and if that
\* module has symbols, in a function of it
SeemsValid(ip) == /\ ~NonCanon(ip) /\ ip # 0
                  /\ LET x == IF ip = 0 THEN 0 ELSE ip - 1 IN
                     /\ x # 0 /\ InMod(x) /\ (InM1(x) => HasFunc(x))
ByCfi(f) ==
  IF ~("rsp" \in f.valid) THEN None
  ELSE IF ~(InM1(f.instr) /\ HasCfi(f.instr)) THEN None
  ELSE LET cfa == CASE rule = "std"   -> f.sp + 16
                    [] rule = "leaf"  -> f.sp + 8
                    [] rule = "nomem" -> f.sp + 8
                    [] rule = "bp"    -> IF "rbp" \in f.valid THEN f.bp + 16 ELSE -1
       IN IF cfa < 0 THEN None
          ELSE IF rule = "nomem" THEN
               [ip |-> A1, sp |-> cfa, bp |-> f.bp, valid |-> {"rip","rsp"} \cup (f.valid \cap {"rbp"}), trust |-> "cfi"]
          ELSE IF ~Readable(cfa - 8) THEN None
          ELSE LET ra == Rd(cfa - 8) IN
               IF rule \in {"std","bp"} THEN
                    IF Readable(cfa - 16)
                    THEN [ip |-> ra, sp |-> cfa, bp |-> Rd(cfa - 16), valid |-> {"rip","rsp","rbp"}, trust |-> "cfi"]
                    ELSE [ip |-> ra, sp |-> cfa, bp |-> f.bp, valid |-> {"rip","rsp"}, trust |-> "cfi"]  \* failed register rule => cleared
               ELSE [ip |-> ra, sp |-> cfa, bp |-> f.bp, valid |-> {"rip","rsp"} \cup (f.valid \cap {"rbp"}), trust |-> "cfi"]
\* Frame pointer.  On Windows x64 the frame register may point up to 240 bytes into the frame, in 16-byte steps, so the
\* candidate record {saved rbp, return address} is looked for at rbp + 16k, k = 0..15, and the first k whose record passes
\* the sanity tests wins; elsewhere only k = 0 is tried.  An unreadable probe ends the technique (not just the candidate).
MaxFpScan == IF Os = "windows" THEN 15 ELSE 0
RECURSIVE FpTry(_,_)
FpTry(f, k) ==
  IF k > MaxFpScan THEN None
  ELSE LET fr == f.bp + 16 * k IN
       IF ~(Readable(fr + 8) /\ Readable(fr)) THEN None
       ELSE LET cip == Rd(fr + 8)  cbp == Rd(fr)  csp == fr + 16 IN
            IF csp <= f.bp \/ cbp < csp THEN FpTry(f, k + 1)
            ELSE IF ~Readable(cbp) THEN None
            ELSE IF NonCanon(cip) THEN FpTry(f, k + 1)
            ELSE IF csp <= f.sp \/ ~Readable(csp) THEN FpTry(f, k + 1)
            ELSE [ip |-> cip, sp |-> csp, bp |-> cbp, valid |-> {"rip","rsp","rbp"}, trust |-> "frame_pointer"]
ByFp(f) ==
  IF ~({"rbp","rsp"} \subseteq f.valid) THEN None
  ELSE IF f.bp >= MaxA - 16 THEN None
  ELSE FpTry(f, 0)
RECURSIVE ScanFrom(_,_,_)
ScanFrom(f, i, range) ==
  IF i >= range THEN None
  ELSE LET a == f.sp + i * Ptr IN
       IF ~Readable(a) THEN None
       ELSE LET cip == Rd(a) IN
            IF SeemsValid(cip) THEN
               LET csp == a + Ptr
                   hasbp == "rbp" \in f.valid
                   abp == a - Ptr
                   bpv == IF i > 0 /\ hasbp THEN Rd(abp) ELSE 0
                   opt1 == i > 0 /\ hasbp /\ f.bp = abp /\ bpv > a /\ bpv - abp <= 131072
                   cbp == IF ~(i > 0 /\ hasbp) THEN -1
                          ELSE IF opt1 THEN (IF Readable(bpv) THEN bpv ELSE -1)
                          ELSE IF f.bp >= csp THEN f.bp ELSE -1
               IN [ip |-> cip, sp |-> csp, bp |-> (IF cbp < 0 THEN 0 ELSE cbp),
                   valid |-> {"rip","rsp"} \cup (IF cbp < 0 THEN {} ELSE {"rbp"}), trust |-> "scan"]
            ELSE ScanFrom(f, i + 1, range)
ByScan(f) == IF ~("rsp" \in f.valid) THEN None
             ELSE IF ~Aligned(f.sp) THEN None
             ELSE ScanFrom(f, 0, IF f.trust = "context" THEN 160 ELSE 40)
\* technique selection and the acceptance test
Pick(f) == LET c1 == ByCfi(f) IN IF ~IsNone(c1) THEN c1 ELSE LET c2 == ByFp(f) IN IF ~IsNone(c2) THEN c2 ELSE ByScan(f)
Accept(f, c) == ~IsNone(c) /\ c.ip >= 4096 /\ c.sp > f.sp
\* the walk of a thread never has more frames than its stack memory has bytes, plus two (walk_stack)
MaxFrames == NW * Ptr + 2
Room == Len(frames) < MaxFrames
Finish(c) == c @@ [instr |-> c.ip - 1]
Last == frames[Len(frames)]
StepCfi == /\ ~done /\ Room /\ LET c == Pick(Last) IN /\ Accept(Last, c) /\ c.trust = "cfi" /\ frames' = Append(frames, Finish(c))
           /\ UNCHANGED <<mem, rule, done, expect>>
StepFp == /\ ~done /\ Room /\ LET c == Pick(Last) IN /\ Accept(Last, c) /\ c.trust = "frame_pointer" /\ frames' = Append(frames, Finish(c))
          /\ UNCHANGED <<mem, rule, done, expect>>
StepScan == /\ ~done /\ Room /\ LET c == Pick(Last) IN /\ Accept(Last, c) /\ c.trust = "scan" /\ frames' = Append(frames, Finish(c))
            /\ UNCHANGED <<mem, rule, done, expect>>
StopNoFrame == /\ ~done /\ IsNone(Pick(Last)) /\ done' = TRUE /\ UNCHANGED <<mem, rule, frames, expect>>
StopRejected == /\ ~done /\ ~IsNone(Pick(Last)) /\ ~Accept(Last, Pick(Last)) /\ done' = TRUE /\ UNCHANGED <<mem, rule, frames, expect>>
StopBound == /\ ~done /\ ~Room /\ Accept(Last, Pick(Last)) /\ done' = TRUE /\ UNCHANGED <<mem, rule, frames, expect>>
Next == StepCfi \/ StepFp \/ StepScan \/ StopNoFrame \/ StopRejected \/ StopBound

\* ---- Mode "any" ----
Ctx0 == {[ip |-> i, instr |-> i, sp |-> s, bp |-> b, valid |-> {"rip","rsp","rbp"}, trust |-> "context"] :
            i \in {A1, A4, 12345}, s \in {Base, Base + 8, StackEnd}, b \in {Base, Base + 8, 7}}
InitAny == /\ mem \in [1..NW -> Vals] /\ rule \in Rules /\ (\E c \in Ctx0 : frames = <<c>>) /\ done = FALSE /\ expect = <<>>

\* ---- Mode "built": well-formed stacks ----
\* a call: how the walker is meant to find ITS CALLER: "fp" (standard prologue, in F2: no CFI), "cfi" (in F1, rule std),
\* "scan" (in M2: no symbols, frame pointer useless); pad = filler words (0) between the frame's sp and its record
\* "cfiend": as "cfi", but the frame is entered at the very end of F1 (return address AE)
Calls == [tech : {"fp", "cfi", "cfiend", "scan"}, pad : Pads]
\* documented preconditions: a frame-pointer / CFI frame uses pad <= 1 here; a scanned return address must lie inside the scan
\* window: within 160 words of sp when scanning from the context frame, within 40 words otherwise
PadOk(ch) == \A k \in 1..Len(ch) : IF ch[k].tech = "scan" THEN ch[k].pad < (IF k = 1 THEN 160 ELSE 40) ELSE ch[k].pad <= 1
Chains == UNION {[1..n -> Calls] : n \in 1..MaxDepth}
IpOf(tech) == CASE tech = "fp" -> A2 [] tech = "cfi" -> A1 [] tech = "cfiend" -> AE [] tech = "scan" -> A4
\* a chain is buildable when a frame found by scanning is not followed by a frame that needs its frame pointer
Buildable(ch) == PadOk(ch) /\ ch[1].tech # "cfiend" /\ \A k \in 1..(Len(ch) - 1) : ch[k].tech = "scan" => ch[k+1].tech # "fp"
\* layout: returns [words, frames]; frame k has sp_k; its caller record sits above it
RECURSIVE Lay(_,_,_,_,_,_)
\* fill: on Windows the slack between the frame register and the {saved rbp, return address} record is not empty but holds, in each 16-byte
\* slot, a pointer to a caller's buffer followed by a non-canonical word (a double, a hash): plausible until the return address is looked at
Lay(ch, k, sp, words, fr, fill) ==        \* words: function address -> value (partial, as a set of pairs)
  IF k > Len(ch) THEN [words |-> words, frames |-> fr, endsp |-> sp]
  ELSE LET c == ch[k]
           nextIp == IF k < Len(ch) THEN IpOf(ch[k+1].tech) ELSE A4 + 8      \* the oldest caller: in M2; above it only zero words
           nextNeedsFp == k < Len(ch) /\ ch[k+1].tech = "fp" IN
       CASE c.tech = "fp" ->
              \* the record {caller's rbp, return address} sits at rec; caller sp = rec + 16.
              \* linux: rbp = rec = sp + 8*pad.  windows: rbp = sp points 16*pad bytes below the record (into the locals)
              LET rec == IF Os = "windows" THEN sp + 16 * c.pad ELSE sp + Ptr * c.pad
                  csp == rec + 16
                  \* the caller's own rbp: where its record is when it is found by its frame pointer; otherwise a readable, sane value from which
                  \* the frame-pointer technique finds nothing (the last two words of the stack, which are zero): on Windows a value inside
                  \* the frames would let the 240-byte search latch onto a later record
                  cbp == IF nextNeedsFp THEN (IF Os = "windows" THEN csp ELSE csp + Ptr * ch[k+1].pad) ELSE StackEnd - 16
                  filler == IF fill /\ Os = "windows" THEN UNION {{<<sp + 16 * j, rec>>, <<sp + 16 * j + 8, 1073741824>>} : j \in 0..(c.pad - 1)} ELSE {}
              IN Lay(ch, k + 1, csp, words \cup filler \cup {<<rec, cbp>>, <<rec + 8, nextIp>>}, Append(fr, [ip |-> nextIp, sp |-> csp, trust |-> "frame_pointer", bp |-> rec]), fill)
         [] c.tech \in {"cfi", "cfiend"} ->
              \* rule std: cfa = sp + 16 ; ra at cfa-8 ; saved rbp at cfa-16
              LET csp == sp + 16
                  cbp == IF nextNeedsFp THEN (IF Os = "windows" THEN csp ELSE csp + Ptr * ch[k+1].pad) ELSE 0
              IN Lay(ch, k + 1, csp, words \cup {<<sp, cbp>>, <<sp + 8, nextIp>>}, Append(fr, [ip |-> nextIp, sp |-> csp, trust |-> "cfi", bp |-> 0]), fill)
         [] c.tech = "scan" ->
              \* return address after pad filler words ; caller sp just above it
              LET ra == sp + Ptr * c.pad  csp == ra + Ptr
              IN Lay(ch, k + 1, csp, words \cup {<<ra, nextIp>>}, Append(fr, [ip |-> nextIp, sp |-> csp, trust |-> "scan", bp |-> 0]), fill)
Built(ch, fill) == LET bp0 == IF ch[1].tech = "fp" THEN (IF Os = "windows" THEN Base ELSE Base + Ptr * ch[1].pad) ELSE 0
                 l == Lay(ch, 1, Base, {}, <<>>, fill) IN
   [words |-> l.words, frames |-> l.frames, bp0 |-> bp0, fits |-> l.endsp <= StackEnd]
MemOf(ws) == [i \in 1..NW |-> LET a == Base + (i - 1) * Ptr  S == {w \in ws : w[1] = a} IN IF S = {} THEN 0 ELSE (CHOOSE w \in S : TRUE)[2]]
InitBuilt == /\ rule = "std" /\ done = FALSE
             /\ \E fill \in (IF Os = "windows" THEN BOOLEAN ELSE {FALSE}) : \E ch \in {c \in Chains : Buildable(c)} :
                  LET b == Built(ch, fill) IN
                  /\ b.fits
                  /\ mem = MemOf(b.words)
                  /\ expect = b.frames
                  /\ frames = <<[ip |-> IpOf(ch[1].tech), instr |-> IpOf(ch[1].tech), sp |-> Base, bp |-> b.bp0,
                                valid |-> {"rip", "rsp", "rbp"}, trust |-> "context"]>>
Init == IF Mode = "any" THEN InitAny ELSE InitBuilt
Spec == Init /\ [][Next]_vars

\* ---- C05 monitors (on the model's frames; the same predicates are evaluated on the real frames by the replay) ----
WellFormed ==
  /\ frames[1].trust = "context" /\ frames[1].instr = frames[1].ip
  /\ \A k \in 2..Len(frames) :
       /\ frames[k].ip >= 4096 /\ frames[k].instr = frames[k].ip - 1
       /\ frames[k].trust \in {"cfi","frame_pointer","scan"}
       /\ frames[k].sp > frames[k-1].sp
       /\ frames[k].trust = "scan" => (Readable(frames[k].sp - Ptr) /\ Rd(frames[k].sp - Ptr) = frames[k].ip)
\* ---- C03 frame bound: no more frames than the stack has bytes, plus two ----
Bounded == Len(frames) <= MaxFrames
Cap == Len(frames) <= NW * Ptr + 3
\* ---- C04: the walk of a built stack is exactly the generated chain, and stops at its end ----
MatchesBuild == Mode = "built" =>
   /\ Len(frames) - 1 <= Len(expect)
   /\ \A k \in 2..Len(frames) : frames[k].ip = expect[k-1].ip /\ frames[k].sp = expect[k-1].sp /\ frames[k].trust = expect[k-1].trust
   /\ (done => Len(frames) - 1 = Len(expect))
Emit == (done \/ Len(frames) = NW * Ptr + 3) => PrintT(<<"CASE", ToJson([mem |-> mem, rule |-> rule, frames |-> frames, expect |-> expect])>>)
====
