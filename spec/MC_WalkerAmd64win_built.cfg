SPECIFICATION Spec
CONSTANTS
  NW = 210
  Mode = "built"
  MaxDepth = 3
  Pads = {0, 1, 39, 159}
  Os = "windows"
INVARIANTS WellFormed MatchesBuild Bounded Emit
CHECK_DEADLOCK FALSE
