SPECIFICATION Spec
CONSTANTS MaxSets = 2
INVARIANTS AliasesAgree LastWriteWins SpIpSane NoDuplicates Emit EmitType
CHECK_DEADLOCK FALSE
