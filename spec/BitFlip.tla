---- MODULE BitFlip ----
(***************************************************************************)
(* Possible single-bit flips of the crash address or of a register used by   *)
(* the crashing instruction (minidump-processor processor.rs:                *)
(* check_for_bitflips / bitflip::try_bit_flips).  Addresses are pairs        *)
(* [hi |-> set of bit positions >= 20, lo |-> 0..2^20-1] so that all 64 flip *)
(* positions fit TLC's integers.                                             *)
(* Documented rules:                                                         *)
(*  - only 64-bit CPUs, and not ARM64;                                       *)
(*  - examined value: the non-canonical address recovered from the crashing  *)
(*    instruction (general-protection fault, x86-64) with bit range 48..63;  *)
(*    nothing at all when the access was a null pointer plus offset;         *)
(*    otherwise the crash address with range 0..47 (x86-64) or 0..63;        *)
(*  - nothing when the examined value itself lies in a region that may       *)
(*    permit the crashing kind of access;                                    *)
(*  - a candidate differs in exactly one bit of the range and is null or     *)
(*    lies in such a region; registers of the crashing instruction are       *)
(*    examined the same way.                                                 *)
(* Scenarios: "addr" - Windows access violation without exception context;   *)
(* "gpf" - Linux SIGSEGV/SI_KERNEL with context, instruction mov rax,[rbx];  *)
(* "null" - the same instruction with rbx = 0; "reg" - Windows access        *)
(* violation with a known access kind AND an exception context whose rip     *)
(* points at mov al,[rbx+0x10] / mov [rbx+0x10],al: the crash address is     *)
(* rbx + 16, and rbx is examined as well, under the same access kind.        *)
(***************************************************************************)
EXTENDS Naturals, Sequences, TLC, FiniteSets, Json
LoBits == 20
Addr(hi, lo) == [hi |-> hi, lo |-> lo]
Pow2(i) == 2 ^ i
Flip(a, i) == IF i >= LoBits THEN [a EXCEPT !.hi = IF i \in a.hi THEN a.hi \ {i} ELSE a.hi \cup {i}]
              ELSE [a EXCEPT !.lo = IF (a.lo \div Pow2(i)) % 2 = 1 THEN a.lo - Pow2(i) ELSE a.lo + Pow2(i)]
IsNull(a) == a.hi = {} /\ a.lo = 0
LowR(b, e, p) == [k |-> "low", b |-> b, e |-> e, p |-> p]
TopR(p) == [k |-> "top", b |-> 0, e |-> 0, p |-> p]                 \* [2^64-4096, 2^64-1]
In(a, r) == IF r.k = "low" THEN a.hi = {} /\ r.b <= a.lo /\ a.lo <= r.e
            ELSE a.hi = LoBits..63 /\ a.lo >= Pow2(LoBits) - 4096
Readable(p) == p \in {"ro", "rw", "rx"}    Writable(p) == p = "rw"    Executable(p) == p = "rx"
PossiblyAllowed(op, p) == CASE op = "read" -> Readable(p) [] op = "write" -> Writable(p) [] op = "exec" -> Executable(p) [] OTHER -> TRUE
Examined == { Addr({}, 65552), Addr({40}, 65552), Addr({40}, 0), Addr({}, 69632), Addr({47}, 65552), Addr({48}, 65552), Addr({}, 4), Addr({}, 5),
              Addr((LoBits..63) \ {33}, 1048575), Addr({}, 0), Addr({63}, 65552), Addr({47, 48}, 65552),
              Addr({}, 69624), Addr({47}, 0), Addr({52}, 0) }     \* a register inside a region whose +16 is outside; single bits outside a flip range
RegionSets == { {}, {LowR(65536, 69631, "ro")}, {LowR(65536, 69631, "noaccess")}, {LowR(65536, 69631, "rw")}, {LowR(65536, 69631, "rx")},
                {LowR(65536, 69631, "ro"), TopR("rw")}, {LowR(0, 4095, "ro")}, {TopR("ro")}, {LowR(65536, 69631, "ro"), LowR(131072, 135167, "rw")} }
VARIABLES scen, cpu, op, addr, regions
vars == <<scen, cpu, op, addr, regions>>
Init == scen = "none" /\ cpu = "none" /\ op = "none" /\ addr = Addr({}, 0) /\ regions = {}
\* one action per scenario, so that coverage shows each was exercised
PickAddr == /\ scen = "none" /\ scen' = "addr" /\ cpu' \in {"amd64", "ppc64", "x86", "arm64"} /\ op' \in {"read", "write", "exec", "other"}
            /\ addr' \in Examined /\ regions' \in RegionSets
PickGpf == /\ scen = "none" /\ scen' = "gpf" /\ cpu' = "amd64" /\ op' = "other"
           /\ addr' \in {a \in Examined : a.hi \cap (47..63) # {} /\ ~(47..63 \subseteq a.hi)}          \* a non-canonical register value
           /\ regions' \in RegionSets
PickNull == /\ scen = "none" /\ scen' = "null" /\ cpu' = "amd64" /\ op' = "other" /\ addr' = Addr({}, 0) /\ regions' \in RegionSets
PickReg == /\ scen = "none" /\ scen' = "reg" /\ cpu' = "amd64" /\ op' \in {"read", "write"}
           /\ addr' \in {a \in Examined : a.hi \cap (47..63) = {} /\ a.lo < Pow2(LoBits) - 16}           \* a canonical register value
           /\ regions' \in RegionSets
Next == PickAddr \/ PickGpf \/ PickNull \/ PickReg
Spec == Init /\ [][Next]_vars
Range == CASE scen = "gpf" -> 48..63
           [] scen = "null" -> {}
           [] cpu = "amd64" -> 0..47
           [] cpu = "ppc64" -> 0..63
           [] OTHER -> {}                                  \* 32-bit CPUs and ARM64: never
Accessible(a) == \E r \in regions : In(a, r) /\ PossiblyAllowed(op, r.p)
FlipsOf(a) == IF Accessible(a) THEN {} ELSE { Flip(a, i) : i \in {j \in Range : IsNull(Flip(a, j)) \/ Accessible(Flip(a, j))} }
CrashAddr == IF scen = "reg" THEN Addr(addr.hi, addr.lo + 16) ELSE addr
Flips == IF scen = "none" \/ Range = {} THEN {}
         ELSE IF scen = "reg" THEN (IF IsNull(addr) THEN {}                     \* null pointer plus offset: nothing at all
                                    ELSE FlipsOf(CrashAddr) \cup FlipsOf(addr))  \* the crash address, and the register of the instruction
         ELSE FlipsOf(addr)
\* ---- C19 on the specification ----
OneBit(a, b) == \E i \in Range : Flip(a, i) = b
Prop == /\ \A f \in Flips : (OneBit(addr, f) \/ OneBit(CrashAddr, f)) /\ (IsNull(f) \/ Accessible(f))
        /\ (cpu \in {"x86", "arm64"} => Flips = {})
        /\ ((Accessible(addr) /\ Accessible(CrashAddr)) => Flips = {})
        /\ (scen = "null" => Flips = {})
Ser(a) == [hi |-> a.hi, lo |-> a.lo]
Emit == scen # "none" => PrintT(<<"CASE", ToJson([scen |-> scen, cpu |-> cpu, op |-> op, addr |-> Ser(addr), regions |-> regions, flips |-> {Ser(f) : f \in Flips}])>>)
====
