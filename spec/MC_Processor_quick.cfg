SPECIFICATION Spec
CONSTANTS MaxThreads = 2
INVARIANTS ReqNotSkipped ReqPrefersException ExcContextOnlyForReq Emit
CHECK_DEADLOCK FALSE
