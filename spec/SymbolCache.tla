---- MODULE SymbolCache ----
(***************************************************************************)
(* Symbolizer::get_symbols / CachedAsyncResult::get (breakpad-symbols        *)
(* lib.rs): one async mutex per module key guards "ask the supplier once,    *)
(* remember the result (success or failure)".  Poll-granular: Poll(t) runs   *)
(* task t until it blocks, which is what one Future::poll does; a poll of a  *)
(* blocked task (join_all re-polls freely) is a stutter.  Open(t) is the     *)
(* environment letting the supplier call of t make progress (one of its      *)
(* Susp[k] suspensions).                                                     *)
(* Fine steps of a task working on key k:                                    *)
(*   start   -> locking                  cache_default(key): slot exists     *)
(*   locking -> calling  (lock taken, nothing cached: requested++, calls++)  *)
(*           -> release  (lock taken, result cached)                         *)
(*           -> (blocked while another task holds the lock)                  *)
(*   calling -> release  (supplier answered: processed++, result stored)     *)
(*   release -> start/done (unlock, the task observes the stored result)     *)
(* HoldAcrossAwait = FALSE is the classic mistake (lock dropped while the    *)
(* supplier runs); it is kept as a named deviation for regression checks.    *)
(***************************************************************************)
EXTENDS Naturals, Sequences, TLC, FiniteSets, Json
CONSTANTS Tasks, Keys, Configs, HoldAcrossAwait, MaxSteps
NoOne == "none"
VARIABLES cfg, S, hist
vars == <<cfg, S, hist>>
Script == cfg.script   Susp == cfg.susp   Ans == cfg.ans
KeyOf(s, t) == Script[t][s.idx[t]]
S0(c) == [ idx |-> [t \in Tasks |-> 1], pc |-> [t \in Tasks |-> IF Len(c.script[t]) = 0 THEN "done" ELSE "start"],
           lock |-> [k \in Keys |-> NoOne], result |-> [k \in Keys |-> "unset"],
           calls |-> [k \in Keys |-> 0], requested |-> 0, processed |-> 0, seen |-> [t \in Tasks |-> <<>>],
           gate |-> [t \in Tasks |-> 0] ]
\* one fine step of task t, or the same state if t is blocked
Fine(s, t) ==
  LET k == KeyOf(s, t) IN
  CASE s.pc[t] = "start"   -> [s EXCEPT !.pc[t] = "locking"]
    [] s.pc[t] = "locking" ->
         IF s.lock[k] # NoOne THEN s
         ELSE IF s.result[k] # "unset" THEN [s EXCEPT !.lock[k] = t, !.pc[t] = "release"]
         ELSE [s EXCEPT !.lock[k] = IF HoldAcrossAwait THEN t ELSE NoOne, !.pc[t] = "calling",
                        !.requested = @ + 1, !.calls[k] = @ + 1, !.gate[t] = Susp[k]]
    [] s.pc[t] = "calling" ->
         IF s.gate[t] > 0 THEN s                                       \* supplier future returns Pending
         ELSE [s EXCEPT !.processed = @ + 1, !.result[k] = Ans[k], !.pc[t] = "release",
                        !.lock[k] = IF HoldAcrossAwait THEN @ ELSE t]
    [] s.pc[t] = "release" ->
         LET s2 == [s EXCEPT !.lock[k] = NoOne, !.seen[t] = Append(@, <<k, s.result[k]>>), !.idx[t] = @ + 1] IN
         [s2 EXCEPT !.pc[t] = IF s2.idx[t] > Len(Script[t]) THEN "done" ELSE "start"]
    [] OTHER -> s
RECURSIVE Run(_,_)
Run(s, t) == LET s2 == Fine(s, t) IN IF s2 = s THEN s ELSE Run(s2, t)
Snap(a, t, s) == [a |-> a, t |-> t, req |-> s.requested, proc |-> s.processed, nseen |-> [u \in Tasks |-> Len(s.seen[u])]]
Poll(t) == /\ Len(hist) < MaxSteps /\ S.pc[t] # "done" /\ S' = Run(S, t) /\ hist' = Append(hist, Snap("poll", t, Run(S, t))) /\ UNCHANGED cfg
Open(t) == /\ Len(hist) < MaxSteps /\ S.pc[t] = "calling" /\ S.gate[t] > 0 /\ S' = [S EXCEPT !.gate[t] = @ - 1]
           /\ hist' = Append(hist, Snap("open", t, S)) /\ UNCHANGED cfg
Init == cfg \in Configs /\ S = S0(cfg) /\ hist = <<>>
Next == \E t \in Tasks : Poll(t) \/ Open(t)
Spec == Init /\ [][Next]_vars
AllDone == \A t \in Tasks : S.pc[t] = "done"
\* ---- C12 ----
AtMostOnce == \A k \in Keys : S.calls[k] <= 1
SameOutcome == \A t \in Tasks : \A i \in 1..Len(S.seen[t]) : S.seen[t][i][2] = Ans[S.seen[t][i][1]]
Asked == UNION {{Script[t][i] : i \in 1..Len(Script[t])} : t \in Tasks}
Counters == AllDone => (S.requested = S.processed /\ S.requested = Cardinality(Asked))
\* no request is lost and nothing deadlocks: unless everything is done, some poll or open changes the state
Progressive == AllDone \/ (\E t \in Tasks : (S.pc[t] # "done" /\ Run(S, t) # S) \/ (S.pc[t] = "calling" /\ S.gate[t] > 0))
\* the lock is only ever held by a task that is working on that key
LockSane == \A k \in Keys : S.lock[k] # NoOne => (S.pc[S.lock[k]] \in {"calling", "release"} /\ KeyOf(S, S.lock[k]) = k)
View == <<cfg, S>>
Emit == AllDone => PrintT(<<"BEH", ToJson([cfg |-> cfg, hist |-> hist, seen |-> S.seen, calls |-> S.calls, requested |-> S.requested, processed |-> S.processed])>>)
====
