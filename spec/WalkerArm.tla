---- MODULE WalkerArm ----
(***************************************************************************)
(* The ARM (arm.rs) and ARM64 (arm64.rs = arm64_old.rs) stack walkers of     *)
(* minidump-unwind: get_caller_frame + lib.rs walk_stack over a small        *)
(* symbolic machine.  One module for both because the two files are the     *)
(* same algorithm with these differences, all of them constants here:        *)
(*   Arch = "arm"   : 4-byte words, call adjustment 2, the frame-pointer     *)
(*                    technique is used on iOS only, no canonical-address    *)
(*                    test, no pointer-authentication stripping              *)
(*   Arch = "arm64" : 8-byte words, call adjustment 4, frame pointer on      *)
(*                    every OS, pc must lie in 0x1000..=0x000f_ffff_ffff_ffff*)
(*                    (frame pointer and scan), PAC bits are stripped        *)
(* Techniques in priority order: STACK CFI, frame pointer, scan; the caller  *)
(* must have pc >= 4096 and sp above the callee's (equal is allowed for the  *)
(* first step only: a leaf that has not touched the stack).                  *)
(*                                                                           *)
(* Callee-saved registers: before a CFI program runs, the caller's register  *)
(* file is the callee's and the callee-saved registers that were VALID in    *)
(* the callee are forwarded as valid (r4..r10, fp / x19..x28, fp); the       *)
(* program then overwrites what it defines.  The model tracks the frame      *)
(* pointer and one more callee-saved register ("cs": r4 / x19).              *)
(* AliasAware: the frame-pointer technique marks the frame pointer valid     *)
(* under its numeric name (r11 / x29) while forwarding looks for the literal *)
(* name "fp".  AliasAware = TRUE is the documented behaviour (a valid frame  *)
(* pointer is forwarded whatever it is called); FALSE reproduces the literal *)
(* look-up.                                                                  *)
(*                                                                           *)
(* Mode "any"  : every stack of NW words over a candidate value set, a set   *)
(*               of contexts, four CFI rule shapes: exact agreement replay,  *)
(*               C05 monitors.                                               *)
(* Mode "built": well-formed stacks laid out by Build(chain) (per call:      *)
(*               frame record / CFI that saves fp / CFI that only defines    *)
(*               .cfa and .ra / scan); the walk must return exactly the      *)
(*               generated chain with the right registers (C04).             *)
(* Code layout as in WalkerAmd64: M1 (symbols) 0x400000, F1 +0x100 with CFI, *)
(* F2 +0x300 without, F3 +0x500 with the .cfa/.ra-only rule; M2 0x500000.    *)
(***************************************************************************)
EXTENDS Naturals, Integers, Sequences, TLC, FiniteSets, Json
CONSTANTS NW, Mode, MaxDepth, Pads, Arch, Os, AliasAware
Ptr == IF Arch = "arm" THEN 4 ELSE 8
Adj == IF Arch = "arm" THEN 2 ELSE 4
Base == 65536
StackEnd == Base + NW * Ptr
SIG == 1073741824        \* arm64 "any" mode: values >= SIG carry PAC bits: real = (v - SIG) | (0xABCD << 48)
M1lo == 4194304  M1hi == 4198399
F1lo == 4194560  F1hi == 4194815
F2lo == 4195072  F2hi == 4195327
F3lo == 4195584  F3hi == 4195839
M2lo == 5242880  M2hi == 5246975
A1 == F1lo + 80
A2 == F2lo + 80
A3 == F3lo + 80
A4 == M2lo + 16
AX == F1hi + 81          \* in M1, in no function
InMod(a) == (a >= M1lo /\ a <= M1hi) \/ (a >= M2lo /\ a <= M2hi)
InM1(a) == a >= M1lo /\ a <= M1hi
InF1(a) == a >= F1lo /\ a <= F1hi
InF3(a) == a >= F3lo /\ a <= F3hi
HasFunc(a) == InF1(a) \/ (a >= F2lo /\ a <= F2hi) \/ InF3(a)
HasCfi(a) == InF1(a) \/ InF3(a)
Strip(v) == IF Arch = "arm64" /\ v >= SIG THEN v - SIG ELSE v
NonCanon(v) == Arch = "arm64" /\ (v < 4096 \/ v >= SIG)
UsesFp == Arch = "arm64" \/ Os = "ios"
Rules == {"std", "lrleaf", "nomem", "cfaonly"}
\* F1's rule is `rule`; F3 always has "cfaonly".  With X = sp-relative, P = Ptr:
\* std    : .cfa: sp 2P + .ra: .cfa -P + ^ fp: .cfa -2P + ^          (saves the frame pointer)
\* lrleaf : .cfa: sp 0 + .ra: lr                                     (leaf: return address still in lr)
\* nomem  : .cfa: sp P + .ra: <A1>                                   (never reads memory)
\* cfaonly: .cfa: sp 2P + .ra: .cfa -P + ^                           (defines nothing else: callee-saved registers pass through)
\* arm: A1 + 1 is a Thumb return address (odd): the call adjustment is plain pc - 2 all the same
Vals == IF Arch = "arm64" THEN {0, A1, A3, A4, AX, Base, Base + 16, SIG + A1} ELSE {0, A1, A1 + 1, A3, A4, AX, Base, Base + 8, Base + 16}
VARIABLES mem, rule, frames, done, expect
vars == <<mem, rule, frames, done, expect>>
Readable(a) == a >= Base /\ a < SIG /\ a + Ptr <= StackEnd /\ (a - Base) % Ptr = 0
Rd(a) == mem[(a - Base) \div Ptr + 1]
None == [none |-> TRUE]
IsNone(x) == "none" \in DOMAIN x
SeemsValid(pc) == /\ ~NonCanon(pc) /\ pc # 0
                  /\ LET x == pc - 1 IN x # 0 /\ InMod(x) /\ (InM1(x) => HasFunc(x))
\* validity is a set over {"pc","sp","fp","fpn","lr","cs"}: "fpn" = the frame pointer marked under its numeric name
HasFp(f) == "fp" \in f.valid \/ "fpn" \in f.valid                       \* register_is_valid is alias-aware
Fwd(f) == (f.valid \cap {"fp", "cs"}) \cup (IF AliasAware /\ "fpn" \in f.valid THEN {"fp"} ELSE {})
RuleAt(instr) == IF InF3(instr) THEN "cfaonly" ELSE rule
ByCfi(f) ==
  IF ~("sp" \in f.valid) THEN None
  ELSE IF ~(InM1(f.instr) /\ HasCfi(f.instr)) THEN None
  ELSE LET r == RuleAt(f.instr) IN
    CASE r = "std" ->
           LET cfa == f.sp + 2 * Ptr IN
           IF ~Readable(cfa - Ptr) THEN None
           ELSE IF Readable(cfa - 2 * Ptr)
                THEN [ip |-> Strip(Rd(cfa - Ptr)), sp |-> cfa, fp |-> Strip(Rd(cfa - 2 * Ptr)), lr |-> f.lr, cs |-> f.cs,
                      valid |-> {"pc", "sp", "fp"} \cup (Fwd(f) \cap {"cs"}), trust |-> "cfi"]
                ELSE [ip |-> Strip(Rd(cfa - Ptr)), sp |-> cfa, fp |-> f.fp, lr |-> f.lr, cs |-> f.cs,
                      valid |-> {"pc", "sp"} \cup (Fwd(f) \cap {"cs"}), trust |-> "cfi"]            \* failed register rule: cleared
      [] r = "lrleaf" ->
           IF ~("lr" \in f.valid) THEN None
           ELSE [ip |-> Strip(f.lr), sp |-> f.sp, fp |-> (IF "fp" \in Fwd(f) THEN Strip(f.fp) ELSE f.fp), lr |-> f.lr, cs |-> f.cs, valid |-> {"pc", "sp"} \cup Fwd(f), trust |-> "cfi"]
      [] r = "nomem" ->
           [ip |-> A1, sp |-> f.sp + Ptr, fp |-> (IF "fp" \in Fwd(f) THEN Strip(f.fp) ELSE f.fp), lr |-> f.lr, cs |-> f.cs, valid |-> {"pc", "sp"} \cup Fwd(f), trust |-> "cfi"]
      [] r = "cfaonly" ->
           LET cfa == f.sp + 2 * Ptr IN
           IF ~Readable(cfa - Ptr) THEN None
           ELSE [ip |-> Strip(Rd(cfa - Ptr)), sp |-> cfa, fp |-> (IF "fp" \in Fwd(f) THEN Strip(f.fp) ELSE f.fp), lr |-> f.lr, cs |-> f.cs, valid |-> {"pc", "sp"} \cup Fwd(f), trust |-> "cfi"]
ByFp(f) ==
  IF ~UsesFp THEN None
  ELSE IF ~(HasFp(f) /\ "sp" \in f.valid) THEN None
  ELSE IF f.fp >= SIG THEN None                                 \* a tagged frame pointer addresses no stack memory
  ELSE IF f.fp = 0 THEN (IF Arch = "arm64" THEN None            \* (0, 0, sp): pc = 0 is non-canonical
                         ELSE [ip |-> 0, sp |-> f.sp, fp |-> 0, lr |-> 0, cs |-> 0, valid |-> {"pc", "sp", "fpn"}, trust |-> "frame_pointer"])
  ELSE IF ~(Readable(f.fp) /\ Readable(f.fp + Ptr)) THEN None
  ELSE LET cfp == Strip(Rd(f.fp))  cpc == Strip(Rd(f.fp + Ptr)) IN
       IF NonCanon(cpc) THEN None
       ELSE [ip |-> cpc, sp |-> f.fp + 2 * Ptr, fp |-> cfp, lr |-> 0, cs |-> 0, valid |-> {"pc", "sp", "fpn"}, trust |-> "frame_pointer"]
RECURSIVE ScanFrom(_,_,_)
ScanFrom(f, i, range) ==
  IF i >= range THEN None
  ELSE LET a == f.sp + i * Ptr IN
       IF ~Readable(a) THEN None
       ELSE IF SeemsValid(Rd(a))
            THEN [ip |-> Rd(a), sp |-> a + Ptr, fp |-> 0, lr |-> 0, cs |-> 0, valid |-> {"pc", "sp"}, trust |-> "scan"]
            ELSE ScanFrom(f, i + 1, range)
ByScan(f) == IF ~("sp" \in f.valid) THEN None ELSE ScanFrom(f, 0, IF f.trust = "context" THEN 160 ELSE 40)
Pick(f) == LET c1 == ByCfi(f) IN IF ~IsNone(c1) THEN c1 ELSE LET c2 == ByFp(f) IN IF ~IsNone(c2) THEN c2 ELSE ByScan(f)
Accept(f, c) == /\ ~IsNone(c) /\ c.ip >= 4096
                /\ (c.sp > f.sp \/ (c.sp = f.sp /\ f.trust = "context"))
MaxFrames == NW * Ptr + 2
Room == Len(frames) < MaxFrames
Finish(c) == c @@ [instr |-> c.ip - Adj]
Last == frames[Len(frames)]
StepCfi == /\ ~done /\ Room /\ LET c == Pick(Last) IN /\ Accept(Last, c) /\ c.trust = "cfi" /\ frames' = Append(frames, Finish(c))
           /\ UNCHANGED <<mem, rule, done, expect>>
StepFp == /\ ~done /\ Room /\ LET c == Pick(Last) IN /\ Accept(Last, c) /\ c.trust = "frame_pointer" /\ frames' = Append(frames, Finish(c))
          /\ UNCHANGED <<mem, rule, done, expect>>
StepScan == /\ ~done /\ Room /\ LET c == Pick(Last) IN /\ Accept(Last, c) /\ c.trust = "scan" /\ frames' = Append(frames, Finish(c))
            /\ UNCHANGED <<mem, rule, done, expect>>
StopNoFrame == /\ ~done /\ IsNone(Pick(Last)) /\ done' = TRUE /\ UNCHANGED <<mem, rule, frames, expect>>
StopRejected == /\ ~done /\ ~IsNone(Pick(Last)) /\ ~Accept(Last, Pick(Last)) /\ done' = TRUE /\ UNCHANGED <<mem, rule, frames, expect>>
StopBound == /\ ~done /\ ~Room /\ Accept(Last, Pick(Last)) /\ done' = TRUE /\ UNCHANGED <<mem, rule, frames, expect>>
Next == StepCfi \/ StepFp \/ StepScan \/ StopNoFrame \/ StopRejected \/ StopBound
\* ---- Mode "any"
Ctx0 == {[ip |-> i, instr |-> i, sp |-> s, fp |-> b, lr |-> r, cs |-> 77, valid |-> {"pc", "sp", "fp", "lr", "cs"}, trust |-> "context"] :
            i \in {A1, A3, A4}, s \in {Base, Base + Ptr, StackEnd}, b \in {Base, Base + Ptr, 0}, r \in {A1 + 8, 0}}
InitAny == /\ mem \in [1..NW -> Vals] /\ rule \in Rules /\ (\E c \in Ctx0 : frames = <<c>>) /\ done = FALSE /\ expect = <<>>
\* ---- Mode "built"
\* a call: how the walker is meant to find ITS CALLER:
\*   "fp"   frame record {saved fp, return address} at fp (function in F2: no CFI); only where UsesFp
\*   "cfi"  in F1, rule std (fp saved on the stack)
\*   "cfa"  in F3, .cfa/.ra only: the caller's fp is the callee's, if the callee's was known
\*   "scan" in M2: return address after pad filler words
Techs == (IF UsesFp THEN {"fp"} ELSE {}) \cup {"cfi", "cfa", "scan"}
Calls == [tech : Techs, pad : Pads]
Chains == UNION {[1..n -> Calls] : n \in 1..MaxDepth}
IpOf(tech) == CASE tech = "fp" -> A2 [] tech = "cfi" -> A1 [] tech = "cfa" -> A3 [] tech = "scan" -> A4
PadOk(ch) == \A k \in 1..Len(ch) : IF ch[k].tech = "scan" THEN ch[k].pad < (IF k = 1 THEN 160 ELSE 40) ELSE ch[k].pad = 0
\* does the walker know the frame pointer of frame k (1 = context frame)?  scan loses it, "cfa" passes it on
RECURSIVE KnowsFp(_,_)
KnowsFp(ch, k) == IF k = 1 THEN TRUE
                  ELSE LET prev == ch[k - 1].tech IN
                       IF prev \in {"fp", "cfi"} THEN TRUE ELSE IF prev = "scan" THEN FALSE ELSE KnowsFp(ch, k - 1)
\* buildable: a frame that needs its frame pointer has one the walker knows
Buildable(ch) == PadOk(ch) /\ \A k \in 1..Len(ch) : ch[k].tech = "fp" => KnowsFp(ch, k)
\* FpNeeded(ch, k, sp): the value the frame-pointer register must hold while frame k (whose sp is `sp`) runs, for the stack to be
\* well formed: an "fp" frame's record sits at its sp; a "cfa" frame does not touch fp, so it holds what its caller needs; frames
\* that do not keep a frame pointer hold something that addresses no stack memory (Junk), so that the frame-pointer technique,
\* which is tried before scanning, finds nothing
Junk == 12
RECURSIVE FpNeeded(_,_,_)
FpNeeded(ch, k, sp) == IF k > Len(ch) THEN Junk
                       ELSE IF ch[k].tech = "fp" THEN sp
                       ELSE IF ch[k].tech = "cfa" THEN FpNeeded(ch, k + 1, sp + 2 * Ptr)
                       ELSE Junk
RECURSIVE Lay(_,_,_,_,_,_)
Lay(ch, k, sp, curfp, words, fr) ==
  IF k > Len(ch) THEN [words |-> words, frames |-> fr, endsp |-> sp]
  ELSE LET c == ch[k]
           nextIp == IF k < Len(ch) THEN IpOf(ch[k + 1].tech) ELSE A4 + 8 IN
       CASE c.tech = "fp" ->
              \* record at fp = sp: [fp] = caller's fp, [fp + P] = return address, caller sp = fp + 2P
              LET csp == sp + 2 * Ptr  cfp == FpNeeded(ch, k + 1, csp) IN
              Lay(ch, k + 1, csp, cfp, words \cup {<<sp, cfp>>, <<sp + Ptr, nextIp>>},
                  Append(fr, [ip |-> nextIp, sp |-> csp, trust |-> "frame_pointer", fp |-> cfp, fpKnown |-> TRUE]))
         [] c.tech = "cfi" ->
              LET csp == sp + 2 * Ptr  cfp == FpNeeded(ch, k + 1, csp) IN
              Lay(ch, k + 1, csp, cfp, words \cup {<<sp, cfp>>, <<sp + Ptr, nextIp>>},
                  Append(fr, [ip |-> nextIp, sp |-> csp, trust |-> "cfi", fp |-> cfp, fpKnown |-> TRUE]))
         [] c.tech = "cfa" ->
              \* the function does not touch fp: the caller's fp is the current one
              LET csp == sp + 2 * Ptr IN
              Lay(ch, k + 1, csp, curfp, words \cup {<<sp + Ptr, nextIp>>},
                  Append(fr, [ip |-> nextIp, sp |-> csp, trust |-> "cfi", fp |-> curfp, fpKnown |-> KnowsFp(ch, k)]))
         [] c.tech = "scan" ->
              LET ra == sp + Ptr * c.pad  csp == ra + Ptr IN
              Lay(ch, k + 1, csp, 0, words \cup {<<ra, nextIp>>},
                  Append(fr, [ip |-> nextIp, sp |-> csp, trust |-> "scan", fp |-> 0, fpKnown |-> FALSE]))
Built(ch) == LET fp0 == FpNeeded(ch, 1, Base)
                 l == Lay(ch, 1, Base, fp0, {}, <<>>) IN
   [words |-> l.words, frames |-> l.frames, fp0 |-> fp0, fits |-> l.endsp <= StackEnd]
MemOf(ws) == [i \in 1..NW |-> LET a == Base + (i - 1) * Ptr  S == {w \in ws : w[1] = a} IN IF S = {} THEN 0 ELSE (CHOOSE w \in S : TRUE)[2]]
\* lf: the context frame is a stackless leaf function of F1 (rule lrleaf: .cfa: sp 0 + .ra: lr) called from the first function of
\* the chain; the stack pointer does not move for that one step, and the chain itself then must not use F1's rule
InitBuilt == /\ done = FALSE
             /\ \E lf \in BOOLEAN : \E ch \in {c \in Chains : Buildable(c) /\ (lf => \A k \in 1..Len(c) : c[k].tech # "cfi")} :
                  LET b == Built(ch)  first == IpOf(ch[1].tech)  ip0 == IF lf THEN A1 ELSE first IN
                  /\ b.fits
                  /\ rule = (IF lf THEN "lrleaf" ELSE "std")
                  /\ mem = MemOf(b.words)
                  /\ expect = (IF lf THEN <<[ip |-> first, sp |-> Base, trust |-> "cfi", fp |-> b.fp0, fpKnown |-> TRUE]>> ELSE <<>>) \o b.frames
                  /\ frames = <<[ip |-> ip0, instr |-> ip0, sp |-> Base, fp |-> b.fp0, lr |-> IF lf THEN first ELSE 0, cs |-> 77,
                                valid |-> {"pc", "sp", "fp", "lr", "cs"}, trust |-> "context"]>>
Init == IF Mode = "any" THEN InitAny ELSE InitBuilt
Spec == Init /\ [][Next]_vars
\* ---- C05 monitors on the model
WellFormed ==
  /\ frames[1].trust = "context" /\ frames[1].instr = frames[1].ip
  /\ \A k \in 2..Len(frames) :
       /\ frames[k].ip >= 4096 /\ frames[k].instr = frames[k].ip - Adj
       /\ frames[k].trust \in {"cfi", "frame_pointer", "scan"}
       /\ (frames[k].sp > frames[k - 1].sp \/ (k = 2 /\ frames[k].sp = frames[k - 1].sp))
       /\ frames[k].trust = "scan" => (Readable(frames[k].sp - Ptr) /\ Rd(frames[k].sp - Ptr) = frames[k].ip)
Bounded == Len(frames) <= MaxFrames
\* ---- C04: the walk of a built stack is the generated chain: return address, sp, technique, and the frame pointer is known
\* exactly when the chain hands it on, with the generated value
MatchesBuild == Mode = "built" =>
   /\ Len(frames) - 1 <= Len(expect)
   /\ \A k \in 2..Len(frames) : /\ frames[k].ip = expect[k - 1].ip /\ frames[k].sp = expect[k - 1].sp /\ frames[k].trust = expect[k - 1].trust
                                /\ (HasFp(frames[k]) <=> expect[k - 1].fpKnown)
                                /\ (expect[k - 1].fpKnown => frames[k].fp = expect[k - 1].fp)
   /\ (done => Len(frames) - 1 = Len(expect))
Emit == (done \/ Len(frames) = NW * Ptr + 3) => PrintT(<<"CASE", ToJson([mem |-> mem, rule |-> rule, frames |-> frames, expect |-> expect])>>)
====
