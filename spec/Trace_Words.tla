---- MODULE Trace_Words ----
(* Self-test of Words.tla: vectors computed by Rust's wrapping u64/u32 arithmetic     *)
(* (harness bin words_vectors) are re-computed on limbs; any disagreement is an       *)
(* invariant violation.  This keeps the arithmetic out of the unchecked trusted base. *)
EXTENDS Words, Json, IOUtils, TLC
Rec == ndJsonDeserialize(IOEnv.VERIF_TRACE)
VARIABLE l
Init == l = 1
Next == l <= Len(Rec) /\ l' = l + 1
Spec == Init /\ [][Next]_l
Ok(r) ==
  /\ Add(r.a, r.b) = r.add
  /\ Sub(r.a, r.b) = r.sub
  /\ Mul(r.a, r.b) = r.mul
  /\ (IsZero(r.b) \/ (Div(r.a, r.b) = r.div /\ Mod(r.a, r.b) = r.rem))
  /\ Lt(r.a, r.b) = (r.lt = 1)
  /\ Le(r.a, r.b) = (r.le = 1)
  /\ AddOverflows(r.a, r.b) = (r.ovf = 1)
  /\ IsPow2(r.b) = (r.p2 = 1)
  /\ (IsPow2(r.b) => AlignDown(r.a, r.b) = r.align)
  /\ Neg(r.a) = r.neg
  /\ FlipBit(r.a, r.k) = r.flip
Inv == l <= Len(Rec) => Ok(Rec[l])
Done == l = Len(Rec) + 1
PostOk == TLCGet("stats").diameter = Len(Rec) + 1
====
