SPECIFICATION TSpec
INVARIANT TypeInv
CONSTRAINT Progress
POSTCONDITION PostOk
CHECK_DEADLOCK FALSE
