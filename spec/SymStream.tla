---- MODULE SymStream ----
(***************************************************************************)
(* SymbolFile::parse (breakpad-symbols/src/sym_file/mod.rs): the streaming   *)
(* loop around circular::Buffer 0.3.0 and SymbolParser::parse_more, as seen  *)
(* by the reader it pulls from and the data callback it feeds.               *)
(*                                                                           *)
(* The input is abstract: its length, the (sorted) positions of its newline  *)
(* bytes, and the set of line numbers the line parser rejects.  One loop     *)
(* iteration is the function Iter(inp, st, n): n is what the reader returned *)
(* for the slice it was offered (the chunk schedule is the sequence of n's). *)
(* Iter also yields the events the outside sees during that iteration        *)
(* (callback slices, the read, the final result), which is what binds this   *)
(* module to the code: Trace_SymStream replays recorded events through Iter  *)
(* at the real constants, Gen/MC explore it at small ones.                   *)
(***************************************************************************)
EXTENDS Naturals, Sequences, FiniteSets, TLC
CONSTANTS InitCap, MaxCap,
          Repaired      \* FALSE: the loop as it stands; TRUE: with the repair of the unterminated-tail defect (see below)

\* ---- input model -------------------------------------------------------
\* inp = [len |-> L, nls |-> <<p1 < p2 < ...>>, bad |-> {line numbers}]   (positions 1-based; line k ends at nls[k])
RECURSIVE LBound(_,_,_,_)
LBound(s, x, lo, hi) == IF lo >= hi THEN lo ELSE LET mid == (lo + hi) \div 2 IN IF s[mid] < x THEN LBound(s, x, mid + 1, hi) ELSE LBound(s, x, lo, mid)
LowerBound(s, x) == LBound(s, x, 1, Len(s) + 1)            \* least index i with s[i] >= x, Len+1 if none
\* offset (1-based, relative to a) of the first / last newline in input[a..b]; 0 if none
FirstNl(inp, a, b) == LET i == LowerBound(inp.nls, a) IN IF i <= Len(inp.nls) /\ inp.nls[i] <= b THEN inp.nls[i] - a + 1 ELSE 0
LastNl(inp, a, b)  == LET j == LowerBound(inp.nls, b + 1) - 1 IN IF j >= 1 /\ inp.nls[j] >= a THEN inp.nls[j] - a + 1 ELSE 0
\* numbers of the first and last line that END inside input[a..b]
FirstLine(inp, a) == LowerBound(inp.nls, a)
LastLine(inp, b) == LowerBound(inp.nls, b + 1) - 1
FirstBad(inp, i, j) == LET B == {k \in inp.bad : i <= k /\ k <= j} IN IF B = {} THEN 0 ELSE CHOOSE k \in B : \A m \in B : k <= m

\* ---- circular::Buffer ----------------------------------------------------
DataLen(st) == st.end - st.pos
Space(st) == st.cap - st.end
Shift(st) == IF st.pos > 0 THEN [st EXCEPT !.pos = 0, !.end = st.end - st.pos] ELSE st
Consume(st, n) == LET s1 == [st EXCEPT !.pos = st.pos + n, !.total = st.total + n] IN
                  IF s1.pos > s1.cap \div 2 THEN Shift(s1) ELSE s1
Fill(st, n) == LET s1 == [st EXCEPT !.end = st.end + n, !.fed = st.fed + n] IN
               IF Space(s1) < DataLen(s1) + n THEN Shift(s1) ELSE s1

St0 == [pos |-> 0, end |-> 0, cap |-> InitCap, fc |-> FALSE, ttg |-> FALSE, rec |-> FALSE, jfr |-> FALSE,
        total |-> 0, fed |-> 0, plines |-> 0, done |-> FALSE, out |-> "none", eline |-> 0]
Finish(st, o, line) == [st EXCEPT !.done = TRUE, !.out = o, !.eline = line]

\* ---- one iteration of the loop -----------------------------------------
\* recovery scan at the top of the loop: hands the discarded bytes to the callback
Recover(inp, st) ==
  IF ~st.rec THEN [st |-> st, evs |-> <<>>]
  ELSE LET nl == FirstNl(inp, st.total + 1, st.fed) IN
       IF nl > 0 THEN [st |-> [Consume(st, nl) EXCEPT !.rec = FALSE, !.fc = (Repaired /\ DataLen(st) = nl), !.jfr = TRUE, !.plines = st.plines + 1],
                       evs |-> <<[ev |-> "Cb", len |-> nl]>>]
       ELSE [st |-> [Consume(st, DataLen(st)) EXCEPT !.fc = TRUE], evs |-> <<[ev |-> "Cb", len |-> DataLen(st)]>>]
\* parse_more on the whole window: through the last newline, or the first rejected line
ParseStep(inp, st0) ==
  LET st == [st0 EXCEPT !.jfr = FALSE]
      c == LastNl(inp, st.total + 1, st.fed)
      i == FirstLine(inp, st.total + 1)
      j == LastLine(inp, st.fed)
      b == IF c = 0 THEN 0 ELSE FirstBad(inp, i, j) IN
  IF b > 0 THEN [st |-> Finish(st, "err_parse", st.plines + (b - i)), evs |-> <<[ev |-> "End", out |-> "err_parse", line |-> st.plines + (b - i)]>>]
  ELSE [st |-> [Consume(st, c) EXCEPT !.fc = (DataLen(st) = c), !.plines = st.plines + (IF c = 0 THEN 0 ELSE j - i + 1)],
        evs |-> <<[ev |-> "Cb", len |-> c]>>]
SpaceOffered(inp, st) == Space(Recover(inp, st).st)
Iter(inp, stIn, n) ==
  LET r == Recover(inp, stIn)
      st1 == r.st
      rd == <<[ev |-> "Read", space |-> Space(st1), ret |-> n]>>
      st2 == Fill(st1, n)
      End(o, line) == [st |-> Finish(st2, o, line), evs |-> r.evs \o rd \o <<[ev |-> "End", out |-> o, line |-> line]>>]
      Go(p) == [st |-> p.st, evs |-> r.evs \o rd \o p.evs]
  IN IF n = 0 THEN
        IF st2.jfr /\ DataLen(st2) > 0 THEN (IF st2.rec THEN [st |-> st2, evs |-> r.evs \o rd] ELSE Go(ParseStep(inp, st2)))
        ELSE IF st2.fc THEN End("ok", 0)
        \* Repair: the buffer is asked to grow (or the line is discarded) only if the read returned 0 because the
        \* buffer was FULL; a zero-byte read into free space is the end of the input.  The test uses the space
        \* offered to this read, i.e. before fill() may have shifted the window.
        ELSE IF ~st2.ttg /\ (~Repaired \/ Space(st1) = 0) THEN
             IF st2.cap * 2 > MaxCap THEN [st |-> [st2 EXCEPT !.rec = TRUE], evs |-> r.evs \o rd]
             ELSE [st |-> [st2 EXCEPT !.cap = st2.cap * 2, !.ttg = TRUE], evs |-> r.evs \o rd]
        ELSE IF st2.total = 0 THEN End("err_empty", 0)
        ELSE End("err_eof", st2.plines)
     ELSE LET st3 == [st2 EXCEPT !.ttg = FALSE] IN
          IF st3.rec THEN [st |-> st3, evs |-> r.evs \o rd] ELSE Go(ParseStep(inp, st3))

\* what a reader may return when offered `space` bytes with `rem` bytes left: 0 only at EOF or for an empty slice
Returns(space, rem) == LET m == IF space < rem THEN space ELSE rem IN IF m = 0 THEN {0} ELSE 1..m
\* the whole-buffer reader (from_bytes): always as much as fits
RECURSIVE Whole(_,_,_)
Whole(inp, st, fuel) == IF st.done \/ fuel = 0 THEN st
   ELSE LET sp == SpaceOffered(inp, st)  rem == inp.len - st.fed  n == IF sp < rem THEN sp ELSE rem IN Whole(inp, Iter(inp, st, n).st, fuel - 1)
WholeOutcome(inp) == LET w == Whole(inp, St0, 4 * inp.len + 64) IN <<w.out, w.eline>>

\* longest line including its terminator; an unterminated tail counts with its own length
RECURSIVE MaxLineFrom(_,_,_,_)
MaxLineFrom(inp, k, prev, best) == IF k > Len(inp.nls) THEN (IF inp.len - prev > best THEN inp.len - prev ELSE best)
                                   ELSE MaxLineFrom(inp, k + 1, inp.nls[k], IF inp.nls[k] - prev > best THEN inp.nls[k] - prev ELSE best)
MaxLine(inp) == MaxLineFrom(inp, 1, 0, 0)
====
