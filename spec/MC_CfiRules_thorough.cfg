SPECIFICATION Spec
CONSTANTS Extra = 3
INVARIANTS Mandatory DeltaMonotone SetOrCleared Emit
CHECK_DEADLOCK FALSE
