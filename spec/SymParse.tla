---- MODULE SymParse ----
(***************************************************************************)
(* The record-level state machine of the Breakpad symbol file parser         *)
(* (breakpad-symbols/src/sym_file/parser.rs: SymbolParser::parse_more,       *)
(* parse_func_subline, finish_item, finish, into_rangemap_safe).             *)
(* A file is a sequence of lines; the parser is either at top level or       *)
(* inside a multi-line item (a FUNC collecting line / INLINE / INLINE_ORIGIN *)
(* sublines, or a STACK CFI INIT collecting STACK CFI deltas).  A line that  *)
(* is not a subline of the open item closes the item and is read again at    *)
(* top level; a line no top-level rule accepts fails the whole parse with    *)
(* the number of lines consumed so far; MODULE is only legal as the very     *)
(* first line.  At the end the open item is closed, PUBLICs are sorted by    *)
(* (address, name, parameter size) and the FUNC / STACK tables are built by  *)
(* the overlap rule of into_rangemap_safe (sort by range; a later entry that *)
(* starts inside the previous one is dropped unless it is equal, in which    *)
(* case the two are merged).                                                 *)
(* Lines are tokens of a fixed alphabet (Tok); the harness renders each by   *)
(* name with the text given in the comment of its definition.                *)
(***************************************************************************)
EXTENDS Naturals, Sequences, FiniteSets, TLC, Json
CONSTANTS MaxLen, Alphabet
\* kind, and the fields the semantics needs
Tok == [
  module  |-> [k |-> "module"],                                             \* MODULE Linux x86_64 0123456789ABCDEF0123456789ABCDEF0 mod.so
  info    |-> [k |-> "info"],                                               \* INFO CODE_ID abcdef
  urlA    |-> [k |-> "url", v |-> "http://a/"],                             \* INFO URL http://a/
  urlB    |-> [k |-> "url", v |-> "http://b/"],                             \* INFO URL http://b/
  file1a  |-> [k |-> "file", id |-> 1, v |-> "a.c"],                        \* FILE 1 a.c
  file1b  |-> [k |-> "file", id |-> 1, v |-> "b.c"],                        \* FILE 1 b.c
  origin0 |-> [k |-> "origin", id |-> 0, v |-> "inl"],                      \* INLINE_ORIGIN 0 inl
  pub800a |-> [k |-> "public", a |-> 2048, ps |-> 0, v |-> "pa"],           \* PUBLIC 800 0 pa
  pub800b |-> [k |-> "public", a |-> 2048, ps |-> 4, v |-> "pb"],           \* PUBLIC m 800 4 pb
  pub1ff  |-> [k |-> "public", a |-> 511, ps |-> 0, v |-> "pc"],            \* PUBLIC 1ff 0 pc
  f1      |-> [k |-> "func", a |-> 256, s |-> 256, ps |-> 0, v |-> "f1"],   \* FUNC 100 100 0 f1
  f1x     |-> [k |-> "func", a |-> 256, s |-> 256, ps |-> 0, v |-> "other"],\* FUNC 100 100 0 other
  f3      |-> [k |-> "func", a |-> 511, s |-> 32, ps |-> 0, v |-> "f3"],    \* FUNC 1ff 20 0 f3
  f2      |-> [k |-> "func", a |-> 768, s |-> 256, ps |-> 8, v |-> "f2"],   \* FUNC m 300 100 8 f2
  fz      |-> [k |-> "func", a |-> 1280, s |-> 0, ps |-> 0, v |-> "zero"],  \* FUNC 500 0 0 zero
  l1      |-> [k |-> "line", a |-> 256, s |-> 64, ln |-> 11, f |-> 1],      \* 100 40 11 1
  l0      |-> [k |-> "line", a |-> 288, s |-> 0, ln |-> 5, f |-> 1],        \* 120 0 5 1
  l2      |-> [k |-> "line", a |-> 320, s |-> 192, ln |-> 12, f |-> 1],     \* 140 c0 12 1
  l1b     |-> [k |-> "line", a |-> 256, s |-> 64, ln |-> 99, f |-> 1],      \* 100 40 99 1
  inl     |-> [k |-> "inline", a |-> 288, s |-> 8],                         \* INLINE 0 7 1 0 120 8
  inlbad  |-> [k |-> "inlinebad"],                                          \* INLINE x
  cfi     |-> [k |-> "cfi", a |-> 256, s |-> 256],                          \* STACK CFI INIT 100 100 .cfa: $rsp 8 + .ra: .cfa 8 - ^
  d120    |-> [k |-> "delta", a |-> 288],                                   \* STACK CFI 120 .cfa: $rsp 16 +
  d110    |-> [k |-> "delta", a |-> 272],                                   \* STACK CFI 110 .cfa: $rsp 24 +
  winfd   |-> [k |-> "winfd", a |-> 768, s |-> 256],                        \* STACK WIN 4 300 100 0 0 c 0 4 0 1 $T0 .raSearch = $eip $T0 ^ = $esp $T0 4 + =
  winfpo  |-> [k |-> "winfpo", a |-> 256, s |-> 64],                        \* STACK WIN 0 100 40 0 0 c 8 0 0 0 1
  blank   |-> [k |-> "blank"],                                              \* (empty line)
  garbage |-> [k |-> "garbage"] ]                                           \* THIS IS NOT A RECORD
VARIABLES seq, nlines, cur, module, url, files, origins, publics, funcs, cfis, winfd, winfpo, err, resubmit
vars == <<seq, nlines, cur, module, url, files, origins, publics, funcs, cfis, winfd, winfpo, err, resubmit>>
NoCur == [k |-> "none"]
Init == /\ seq = <<>> /\ nlines = 0 /\ cur = NoCur /\ module = FALSE /\ url = "" /\ files = <<>> /\ origins = <<>> /\ publics = <<>>
        /\ funcs = <<>> /\ cfis = <<>> /\ winfd = <<>> /\ winfpo = <<>> /\ err = [msg |-> "", line |-> 0] /\ resubmit = FALSE
Failed == err.msg # ""
\* closing the open item (finish_item)
LinesOf(ls) == SelectSeq(ls, LAMBDA l : l.s > 0)
ClosedFuncs == IF cur.k = "func" /\ cur.t.s > 0 THEN Append(funcs, [a |-> cur.t.a, e |-> cur.t.a + cur.t.s - 1, v |-> cur.t.v, ps |-> cur.t.ps, lines |-> LinesOf(cur.lines), ninl |-> cur.ninl]) ELSE funcs
ClosedCfis == IF cur.k = "cfi" /\ cur.t.s > 0 THEN Append(cfis, [a |-> cur.t.a, e |-> cur.t.a + cur.t.s - 1, deltas |-> cur.deltas]) ELSE cfis
\* the next line of the file: a subline of the open item, or it closes the item and is read at top level
Feed(n) ==
  /\ ~Failed /\ Len(seq) < MaxLen /\ n \in Alphabet
  /\ seq' = Append(seq, n) /\ resubmit' = FALSE
  /\ LET t == Tok[n] IN
     IF cur.k = "func" /\ t.k \in {"line", "inline", "origin"}
     THEN /\ nlines' = nlines + 1
          /\ cur' = IF t.k = "line" THEN [cur EXCEPT !.lines = Append(@, [a |-> t.a, s |-> t.s, ln |-> t.ln, f |-> t.f])]
                    ELSE IF t.k = "inline" THEN [cur EXCEPT !.ninl = @ + 1] ELSE cur
          /\ origins' = IF t.k = "origin" THEN Append(SelectSeq(origins, LAMBDA x : x.id # t.id), [id |-> t.id, v |-> t.v]) ELSE origins
          /\ UNCHANGED <<module, url, files, publics, funcs, cfis, winfd, winfpo, err>>
     ELSE IF cur.k = "cfi" /\ t.k = "delta"
     THEN /\ nlines' = nlines + 1 /\ cur' = [cur EXCEPT !.deltas = Append(@, t.a)]
          /\ UNCHANGED <<module, url, files, origins, publics, funcs, cfis, winfd, winfpo, err>>
     ELSE \* close the open item (if any), then the line is a top-level line
          LET f2 == ClosedFuncs  c2 == ClosedCfis IN
          /\ (IF t.k \in {"func", "cfi"} THEN TRUE ELSE cur' = NoCur)
          /\ (CASE t.k = "func" -> cur' = [k |-> "func", t |-> t, lines |-> <<>>, ninl |-> 0] /\ nlines' = nlines + 1 /\ funcs' = f2 /\ cfis' = c2
                                   /\ UNCHANGED <<module, url, files, origins, publics, winfd, winfpo, err>>
                [] t.k = "cfi" -> cur' = [k |-> "cfi", t |-> t, deltas |-> <<>>] /\ nlines' = nlines + 1 /\ funcs' = f2 /\ cfis' = c2
                                  /\ UNCHANGED <<module, url, files, origins, publics, winfd, winfpo, err>>
                [] OTHER -> /\ funcs' = f2 /\ cfis' = c2
                            /\ LET dummy == TRUE IN
                               CASE t.k = "blank" -> nlines' = nlines + 1 /\ UNCHANGED <<module, url, files, origins, publics, winfd, winfpo, err>>
                                 [] t.k \in {"garbage", "line", "inline", "inlinebad", "delta"} ->
                                      err' = [msg |-> "failed to parse file", line |-> nlines] /\ UNCHANGED <<nlines, module, url, files, origins, publics, winfd, winfpo>>
                                 [] t.k = "module" -> IF nlines # 0 THEN err' = [msg |-> "MODULE line found after the start of the file", line |-> nlines] /\ UNCHANGED <<nlines, module, url, files, origins, publics, winfd, winfpo>>
                                                      ELSE module' = TRUE /\ nlines' = nlines + 1 /\ UNCHANGED <<url, files, origins, publics, winfd, winfpo, err>>
                                 [] t.k = "info" -> nlines' = nlines + 1 /\ UNCHANGED <<module, url, files, origins, publics, winfd, winfpo, err>>
                                 [] t.k = "url" -> url' = t.v /\ nlines' = nlines + 1 /\ UNCHANGED <<module, files, origins, publics, winfd, winfpo, err>>
                                 [] t.k = "file" -> files' = Append(SelectSeq(files, LAMBDA x : x.id # t.id), [id |-> t.id, v |-> t.v]) /\ nlines' = nlines + 1
                                                    /\ UNCHANGED <<module, url, origins, publics, winfd, winfpo, err>>
                                 [] t.k = "origin" -> origins' = Append(SelectSeq(origins, LAMBDA x : x.id # t.id), [id |-> t.id, v |-> t.v]) /\ nlines' = nlines + 1
                                                      /\ UNCHANGED <<module, url, files, publics, winfd, winfpo, err>>
                                 [] t.k = "public" -> publics' = Append(publics, [a |-> t.a, v |-> t.v, ps |-> t.ps]) /\ nlines' = nlines + 1
                                                      /\ UNCHANGED <<module, url, files, origins, winfd, winfpo, err>>
                                 [] t.k = "winfd" -> winfd' = Append(winfd, [a |-> t.a, e |-> t.a + t.s - 1]) /\ nlines' = nlines + 1
                                                     /\ UNCHANGED <<module, url, files, origins, publics, winfpo, err>>
                                 [] t.k = "winfpo" -> winfpo' = Append(winfpo, [a |-> t.a, e |-> t.a + t.s - 1]) /\ nlines' = nlines + 1
                                                      /\ UNCHANGED <<module, url, files, origins, publics, winfd, err>>)
Next == \E n \in Alphabet : Feed(n)
Spec == Init /\ [][Next]_vars
\* ---- the tables at end of input (finish): what SymbolFile must contain if the file ends here
\* stable insertion sort of a sequence of <<key, element>> pairs by integer key (later equal elements stay later)
RECURSIVE InsertPair(_,_)
InsertPair(s, p) == IF s = <<>> THEN <<p>> ELSE IF p[1] < Head(s)[1] THEN <<p>> \o s ELSE <<Head(s)>> \o InsertPair(Tail(s), p)
RECURSIVE SortPairs(_)
SortPairs(s) == IF s = <<>> THEN <<>> ELSE InsertPair(SortPairs(SubSeq(s, 1, Len(s) - 1)), s[Len(s)])
SortByKey(s, Key(_)) == LET ps == SortPairs([i \in 1..Len(s) |-> <<Key(s[i]), s[i]>>]) IN [i \in 1..Len(ps) |-> ps[i][2]]
RangeKey(x) == x.a * 8192 + x.e
SameVal(x, y) == [x EXCEPT !.e = 0] = [y EXCEPT !.e = 0]
RECURSIVE SafeFold(_,_)
SafeFold(acc, rest) ==
  IF rest = <<>> THEN acc
  ELSE LET x == Head(rest) IN
       IF acc = <<>> THEN SafeFold(<<x>>, Tail(rest))
       ELSE LET last == acc[Len(acc)] IN
            IF x.a <= last.e /\ ~SameVal(x, last) THEN SafeFold(acc, Tail(rest))
            ELSE IF x.a <= last.e + 1 /\ SameVal(x, last) THEN SafeFold([acc EXCEPT ![Len(acc)].e = IF x.e > last.e THEN x.e ELSE last.e], Tail(rest))
            ELSE SafeFold(Append(acc, x), Tail(rest))
Safe(s) == SafeFold(<<>>, SortByKey(s, RangeKey))
LineTable(ls) == Safe([i \in 1..Len(ls) |-> [a |-> ls[i].a, e |-> ls[i].a + ls[i].s - 1, ln |-> ls[i].ln, f |-> ls[i].f]])
NameRank == [pa |-> 1, pb |-> 2, pc |-> 3]                                   \* the byte order of the names used by the tokens
PubKey(x) == x.a * 8 + NameRank[x.v]
FinalFuncs == LET fs == ClosedFuncs IN Safe([i \in 1..Len(fs) |-> [fs[i] EXCEPT !.lines = LineTable(@)]])
FinalCfis == Safe(ClosedCfis)
Final == [module |-> module, url |-> url, files |-> files, origins |-> origins, publics |-> SortByKey(publics, PubKey),
          funcs |-> FinalFuncs, cfis |-> [i \in 1..Len(FinalCfis) |-> [FinalCfis[i] EXCEPT !.deltas = SortByKey(@, LAMBDA x : x)]],
          winfd |-> Safe(winfd), winfpo |-> Safe(winfpo)]
\* design-level sanity: tables never overlap, every table entry comes from a record of the file
NoOverlap(s) == \A i \in 1..(Len(s) - 1) : s[i].e < s[i + 1].a
TablesSane == ~Failed => (NoOverlap(Final.funcs) /\ NoOverlap(Final.cfis) /\ NoOverlap(Final.winfd) /\ NoOverlap(Final.winfpo)
                          /\ \A i \in 1..Len(Final.funcs) : NoOverlap(Final.funcs[i].lines))
Emit == PrintT(<<"CASE", ToJson([seq |-> seq, err |-> err, final |-> IF Failed THEN [failed |-> TRUE] ELSE Final])>>)
====
