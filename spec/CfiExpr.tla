---- MODULE CfiExpr ----
(***************************************************************************)
(* STACK CFI expression language (breakpad-symbols/src/sym_file/walker.rs,   *)
(* module docs "STACK CFI expressions"): a postfix evaluator over 64-bit     *)
(* wrapping words.  Apply is the documented meaning of one token; the        *)
(* machine below consumes one token per step so that TLC enumerates every    *)
(* program up to a length bound and each state is one conformance case.      *)
(*                                                                           *)
(* Documented semantics transcribed here:                                    *)
(*   + - * / % @ : binary, rhs is popped first; 64-bit wrapping;             *)
(*                 / and % by zero fail; @ needs a power-of-two rhs          *)
(*   ^           : unary dereference of stack memory; unreadable => fail     *)
(*   .cfa        : push the CFA; not available while computing the CFA       *)
(*   .undef      : terminate, result explicitly unknown                      *)
(*   signed decimal literal (i64 precision), $reg / reg : push               *)
(*   anything else (unknown register, out-of-range literal) => fail          *)
(*   result defined iff exactly one value is left at the end                 *)
(* Tokens whose meaning the documentation does not fix ("+5", "a$b") are     *)
(* not in the alphabet.                                                      *)
(***************************************************************************)
EXTENDS Naturals, Sequences, TLC, Json, Words
W(v) == FromSmall(v, 4)
MaxW == AllOnes(4)
Half == <<0,0,0,32768>>                 \* 2^63
HalfM1 == <<65535,65535,65535,32767>>   \* 2^63-1

\* ---- the callee machine state of this instance (mirrored by the replay harness) ----
RegTable == [rax |-> W(4096), rbx |-> W(3), rsp |-> W(65536), rbp |-> W(65568)]
MemAt(a) == IF a = W(4096) THEN <<8, 0, 48879, 57005>>       \* 0xDEADBEEF00000008
            ELSE IF a = W(4104) THEN W(5)
            ELSE IF a = W(65536) THEN W(4194304)             \* stack words at 0x10000.. : 0x400000 + offset
            ELSE IF a = W(65544) THEN W(4194312)
            ELSE IF a = W(65552) THEN W(4194320)
            ELSE IF a = W(65560) THEN W(4194328)
            ELSE <<>>                                        \* <<>> = unreadable
\* literal spellings -> value; spellings in NotLits are decimal strings outside i64
Lits == [ t7 |-> W(7), tm1 |-> MaxW, t8 |-> W(8), t16 |-> W(16), t0 |-> W(0), t1 |-> W(1), t3 |-> W(3), tmin |-> Half, tmax |-> HalfM1,
          t65544 |-> W(65544), t4198400 |-> W(4198400), t4104 |-> W(4104) ]
NotLits == {"tbig", "ttoolow"}            \* 18446744073709551615, -9223372036854775809
RegToks == [ drax |-> "rax", brbx |-> "rbx", drsp |-> "rsp", drbp |-> "rbp", brsp |-> "rsp" ]   \* $rax rbx $rsp $rbp rsp
UnknownRegToks == {"dnope", "bnope"}      \* $nope nope

Fail == [ok |-> FALSE, stk |-> <<>>]
Good(s) == [ok |-> TRUE, stk |-> s]
Bin2(s, f(_,_)) == IF Len(s) < 2 THEN Fail ELSE Good(Append(SubSeq(s, 1, Len(s)-2), f(s[Len(s)-1], s[Len(s)])))
\* Semantic token classes.  A token is a record:
\*   [k |-> "op", v |-> one of + - * / % @]   binary operator
\*   [k |-> "deref"]                          ^
\*   [k |-> "cfa"]                            .cfa
\*   [k |-> "push", v |-> word]               literal in i64 range, or readable callee register
\*   [k |-> "fail"]                           .undef, unknown register, literal outside i64
\* ApplyV(stack, token, cfa, memval): cfa = <<>> while computing the CFA itself; memval is what stack
\* memory holds at the address on top of the stack (<<>> = unreadable), used by "deref" only.
ApplyV(s, tk, cfa, memval) ==
  CASE tk.k = "op" ->
        (CASE tk.v = "+" -> Bin2(s, Add)
           [] tk.v = "-" -> Bin2(s, Sub)
           [] tk.v = "*" -> Bin2(s, Mul)
           [] tk.v = "/" -> IF Len(s) >= 2 /\ ~IsZero(s[Len(s)]) THEN Bin2(s, Div) ELSE Fail
           [] tk.v = "%" -> IF Len(s) >= 2 /\ ~IsZero(s[Len(s)]) THEN Bin2(s, Mod) ELSE Fail
           [] tk.v = "@" -> IF Len(s) >= 2 /\ IsPow2(s[Len(s)]) THEN Bin2(s, AlignDown) ELSE Fail)
    [] tk.k = "deref" -> IF Len(s) >= 1 /\ memval # <<>> THEN Good(Append(SubSeq(s, 1, Len(s)-1), memval)) ELSE Fail
    [] tk.k = "cfa" -> IF cfa # <<>> THEN Good(Append(s, cfa)) ELSE Fail
    [] tk.k = "push" -> Good(Append(s, tk.v))
    [] tk.k = "fail" -> Fail
\* classification of this instance's spellings
TokOf(t) ==
  IF t \in {"+","-","*","/","%","@"} THEN [k |-> "op", v |-> t]
  ELSE IF t = "^" THEN [k |-> "deref"]
  ELSE IF t = ".cfa" THEN [k |-> "cfa"]
  ELSE IF t \in DOMAIN RegToks THEN [k |-> "push", v |-> RegTable[RegToks[t]]]
  ELSE IF t \in DOMAIN Lits THEN [k |-> "push", v |-> Lits[t]]
  ELSE [k |-> "fail"]                      \* .undef, UnknownRegToks, NotLits
Apply(s, t, cfa) == ApplyV(s, TokOf(t), cfa, IF t = "^" /\ Len(s) >= 1 THEN MemAt(s[Len(s)]) ELSE <<>>)
RECURSIVE RunFrom(_,_,_,_)
RunFrom(s, toks, i, cfa) == IF i > Len(toks) THEN Good(s)
                            ELSE LET a == Apply(s, toks[i], cfa) IN IF a.ok THEN RunFrom(a.stk, toks, i+1, cfa) ELSE Fail
\* value of a whole expression: limbs, or <<>> when the rule fails
Eval(toks, cfa) == LET r == RunFrom(<<>>, toks, 1, cfa) IN IF r.ok /\ Len(r.stk) = 1 THEN r.stk[1] ELSE <<>>
====
