SPECIFICATION Spec
CONSTANT MaxBuild = 5
INVARIANTS VersionNeverEmpty UnameOnlyOnLinuxZero BuildPartClean StoredBuildIsTrimmed Emit
CHECK_DEADLOCK FALSE
