SPECIFICATION Spec
CONSTANTS
  Tasks <- T3
  Keys <- K3
  Configs <- ConfigsThorough
  HoldAcrossAwait = TRUE
  MaxSteps = 11
INVARIANTS AtMostOnce SameOutcome Counters Emit
CHECK_DEADLOCK FALSE
