SPECIFICATION Spec
CONSTANTS MaxSets = 3
INVARIANTS AliasesAgree LastWriteWins SpIpSane NoDuplicates Emit EmitType
CHECK_DEADLOCK FALSE
