---- MODULE Trace_RangeMap ----
(***************************************************************************)
(* The C08 predicates evaluated on observations of the real code, with      *)
(* exact u64 addresses as 16-bit limbs.  One record per table built by the   *)
(* real code:                                                                *)
(*   bind    : which API built it                                            *)
(*   panic   : 1 if building or querying panicked                            *)
(*   entries : the input, each [k |-> "bs", b, n, v] (base, size) or         *)
(*             [k |-> "se", s, e, v] (inclusive start/end, as /proc maps)    *)
(*   listing : by-address iteration of the built table, same entry forms     *)
(*   probes  : [a, hits] - addresses queried and the values returned         *)
(*             (a sequence; single-result lookups give 0 or 1 element)       *)
(*   multi   : 1 for the unloaded-module lookup (all covering entries)       *)
(* The documented range of an entry is computed HERE (MemRange), not by the  *)
(* harness.  Every failing predicate is printed as a VERDICT line and the    *)
(* trace continues, so one run classifies all observations.                  *)
(***************************************************************************)
EXTENDS Words, Json, IOUtils, TLC, FiniteSets
Rec == ndJsonDeserialize(IOEnv.VERIF_TRACE)
VARIABLE l
One == FromSmall(1, 4)
None == <<>>
\* documented range: empty or overflowing => none; base + size = 2^64 is a valid range ending at 2^64-1
MemRange(x) == IF x.k = "se" THEN (IF Lt(x.e, x.s) THEN None ELSE <<x.s, x.e>>)
               ELSE IF IsZero(x.n) THEN None
               ELSE LET nm1 == Sub(x.n, One) IN IF AddOverflows(x.b, nm1) THEN None ELSE <<x.b, Add(x.b, nm1)>>
Covers(r, a) == r # None /\ Le(r[1], a) /\ Le(a, r[2])
Intersects(r1, r2) == r1 # None /\ r2 # None /\ Le(r1[1], r2[2]) /\ Le(r2[1], r1[2])
Ranges(es) == [i \in 1..Len(es) |-> MemRange(es[i])]
HitSet(p) == {p.hits[k] : k \in 1..Len(p.hits)}
Sorted(o) == LET lr == Ranges(o.listing) IN
   /\ \A i \in 1..Len(lr) : lr[i] # None
   /\ IF o.multi = 1 THEN \A i \in 1..(Len(lr) - 1) : Le(lr[i][1], lr[i+1][1])           \* unloaded modules: sorted by start
      ELSE \A i \in 1..(Len(lr) - 1) : Lt(lr[i][2], lr[i+1][1])                           \* sorted and non-overlapping
Sound(o) == LET er == Ranges(o.entries) IN
   \A j \in 1..Len(o.probes) : \A h \in HitSet(o.probes[j]) :
       \E i \in 1..Len(o.entries) : o.entries[i].v = h /\ Covers(er[i], o.probes[j].a)
Complete(o) == LET er == Ranges(o.entries) IN
   \A i \in 1..Len(o.entries) :
     (er[i] # None /\ \A k \in 1..Len(o.entries) : k # i => ~Intersects(er[i], er[k]))
        => \A j \in 1..Len(o.probes) : Covers(er[i], o.probes[j].a) => o.entries[i].v \in HitSet(o.probes[j])
Exact(o) == LET er == Ranges(o.entries) IN
   o.multi = 1 => \A j \in 1..Len(o.probes) :
       HitSet(o.probes[j]) = {o.entries[i].v : i \in {k \in 1..Len(o.entries) : Covers(er[k], o.probes[j].a)}}
Single(o) == o.multi = 0 => \A j \in 1..Len(o.probes) : Len(o.probes[j].hits) <= 1
Verdict(i, o) ==
  /\ (o.panic = 1 => PrintT(<<"VERDICT", i, o.bind, "BuildTotal">>))
  /\ (o.panic = 0 =>
        /\ (~Sorted(o) => PrintT(<<"VERDICT", i, o.bind, "SortedDisjoint">>))
        /\ (~Sound(o) => PrintT(<<"VERDICT", i, o.bind, "Sound">>))
        /\ (~Complete(o) => PrintT(<<"VERDICT", i, o.bind, "CompleteForIsolated">>))
        /\ (~Exact(o) => PrintT(<<"VERDICT", i, o.bind, "UnloadedExact">>))
        /\ (~Single(o) => PrintT(<<"VERDICT", i, o.bind, "Single">>)))
TInit == l = 1
TNext == l <= Len(Rec) /\ Verdict(l, Rec[l]) /\ l' = l + 1
TSpec == TInit /\ [][TNext]_l
PostOk == /\ PrintT(<<"TRACE", "matched", TLCGet("stats").diameter - 1, "of", Len(Rec)>>)
          /\ TLCGet("stats").diameter - 1 = Len(Rec)
====
