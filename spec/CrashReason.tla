---- MODULE CrashReason ----
(***************************************************************************)
(* Crash reason and crash address as functions of the exception record, the  *)
(* operating system and the CPU (minidump.rs: CrashReason::from_exception,   *)
(* its Display, MinidumpException::get_crash_address; processor.rs hands     *)
(* them on unchanged).  This is a decision table, written as a behaviour     *)
(* that fills in an exception record field by field; every reachable state   *)
(* with done = TRUE is one record whose reason shape and address are defined *)
(* here.  Numbers are abstract classes; the harness owns a frozen table      *)
(* class -> (number, platform name) taken from the platform headers.        *)
(*                                                                         *)
(*   windows : access violation / in-page error refine on the access kind    *)
(*             (needs >= 1 resp. >= 3 parameters; in-page shows the NTSTATUS  *)
(*             of parameter 2, low 32 bits); __fastfail (STATUS_STACK_BUFFER_ *)
(*             OVERRUN) shows the fast-fail code of parameter 0 when there is *)
(*             one; other codes: exception-code table, then Win32 error,     *)
(*             then NTSTATUS, then facility + Win32 error for the facilities   *)
(*             the table retains (Visual C++ only), else unknown              *)
(*   linux,  : signal from the code; SIGILL/TRAP/FPE/SEGV/BUS/SYS refine on   *)
(*   android   si_code (flags) when it is one of that signal's kinds; else    *)
(*             SI_USER prints the bare signal, other known si_codes their     *)
(*             name, unknown ones hex                                         *)
(*   mac,ios : EXC_BAD_ACCESS refines on the kernel return first, then on the *)
(*             CPU's own table; BAD_INSTRUCTION / ARITHMETIC / BREAKPOINT on  *)
(*             the CPU's table; SOFTWARE on its own table; a CPU without      *)
(*             table (32-bit arm) never refines                               *)
(*   other   : always "unknown code / flags"                                  *)
(*   address : windows access violation / in-page error with >= 2 parameters  *)
(*             => parameter 1, else the record's address; 32-bit CPUs keep    *)
(*             the low 32 bits                                                *)
(***************************************************************************)
EXTENDS Naturals, TLC, Json
OSes == {"windows", "linux", "android", "mac", "ios", "other"}
CPUs == {"x86", "amd64", "arm64", "arm", "ppc"}
WinCodes == {"av", "inpage", "fastfail", "general", "oom", "cpp", "simulated", "ntstatus", "winerror", "facility", "facility_lowsev", "wfacunk", "wunknown"}
LinuxRefinable == {"SIGILL", "SIGTRAP", "SIGFPE", "SIGSEGV", "SIGBUS", "SIGSYS"}
LinuxCodes == LinuxRefinable \cup {"SIGABRT", "SIGUSR1", "lunknown"}
MacCpuRefined == {"EXC_BAD_INSTRUCTION", "EXC_ARITHMETIC", "EXC_BREAKPOINT"}
MacCodes == MacCpuRefined \cup {"EXC_BAD_ACCESS", "EXC_SOFTWARE", "EXC_EMULATION", "SIMULATED", "munknown"}
CodesOf(o) == CASE o = "windows" -> WinCodes [] o \in {"linux", "android"} -> LinuxCodes [] o \in {"mac", "ios"} -> MacCodes [] OTHER -> {"av", "SIGSEGV", "EXC_BAD_ACCESS"}
\* flags (exception_flags): the numbers 0, 1, 2, 13, 0x80, 0x101, 0x10002, 0x7777, -6
Flags == {"f0", "f1", "f2", "f13", "f128", "f257", "fabrt", "fbig", "fm6"}
\* parameter 0 (access kind / fast-fail code): 0, 1, 8, 5 (not a kind), and 2^32 + 1
Info0 == {"i0", "i1", "i8", "i5", "ihi1"}
\* parameter 2 (NTSTATUS of an in-page error): known, known with junk in the high half, unknown
Info2 == {"known", "knownhi", "unk"}
VARIABLES os, cpu, code, flags, np, i0, i2, a1, ad, done
vars == <<os, cpu, code, flags, np, i0, i2, a1, ad, done>>
Init == os = "windows" /\ cpu = "x86" /\ code = "av" /\ flags = "f0" /\ np = 0 /\ i0 = "i0" /\ i2 = "known" /\ a1 = "lo" /\ ad = "lo" /\ done = FALSE
SetOs == ~done /\ os = "windows" /\ code = "av" /\ \E o \in OSes \ {"windows"} : os' = o /\ code' \in CodesOf(o) /\ UNCHANGED <<cpu, flags, np, i0, i2, a1, ad, done>>
SetCpu == ~done /\ cpu = "x86" /\ cpu' \in CPUs \ {"x86"} /\ UNCHANGED <<os, code, flags, np, i0, i2, a1, ad, done>>
SetCode == ~done /\ os = "windows" /\ code = "av" /\ code' \in WinCodes \ {"av"} /\ UNCHANGED <<os, cpu, flags, np, i0, i2, a1, ad, done>>
SetFlags == ~done /\ flags = "f0" /\ os # "windows" /\ flags' \in Flags \ {"f0"} /\ UNCHANGED <<os, cpu, code, np, i0, i2, a1, ad, done>>
\* parameters matter on Windows only; elsewhere one non-default combination shows that they are ignored
SetParams == ~done /\ np = 0 /\ np' \in 1..3 /\ (IF os = "windows" /\ code \in {"av", "inpage", "fastfail"} THEN i0' \in Info0 /\ i2' \in (IF code = "inpage" THEN Info2 ELSE {"known"}) ELSE i0' = "i1" /\ i2' = "known")
             /\ UNCHANGED <<os, cpu, code, flags, a1, ad, done>>
SetAddr == ~done /\ a1 = "lo" /\ ad = "lo" /\ (os = "windows" => code \in {"av", "inpage", "general"}) /\ a1' \in {"lo", "hi"} /\ ad' \in {"lo", "hi"} /\ UNCHANGED <<os, cpu, code, flags, np, i0, i2, done>>
Finish == ~done /\ done' = TRUE /\ UNCHANGED <<os, cpu, code, flags, np, i0, i2, a1, ad>>
Next == SetOs \/ SetCpu \/ SetCode \/ SetFlags \/ SetParams \/ SetAddr \/ Finish
Spec == Init /\ [][Next]_vars

\* ---- Windows ----
KindOf(i) == CASE i = "i0" -> "READ" [] i = "i1" -> "WRITE" [] i = "i8" -> "EXEC" [] OTHER -> "none"      \* 2^32+1 is not 1
WinReason ==
  CASE code = "av" -> IF np >= 1 /\ KindOf(i0) # "none" THEN [shape |-> "av_kind", kind |-> KindOf(i0)] ELSE [shape |-> "name", name |-> "EXCEPTION_ACCESS_VIOLATION"]
    [] code = "inpage" -> IF np >= 3 /\ KindOf(i0) # "none" THEN [shape |-> "inpage_kind", kind |-> KindOf(i0), status |-> IF i2 = "unk" THEN "hex" ELSE "name"] ELSE [shape |-> "name", name |-> "EXCEPTION_IN_PAGE_ERROR"]
    [] code = "fastfail" -> IF np >= 1 THEN [shape |-> "fastfail", ff |-> IF i0 = "ihi1" THEN "i1" ELSE i0] ELSE [shape |-> "name", name |-> "STATUS_STACK_BUFFER_OVERRUN"]     \* low 32 bits
    [] code = "general" -> [shape |-> "name", name |-> "EXCEPTION_BREAKPOINT"]
    [] code = "oom" -> [shape |-> "name", name |-> "Out of Memory"]
    [] code = "cpp" -> [shape |-> "name", name |-> "Unhandled C++ Exception"]
    [] code = "simulated" -> [shape |-> "name", name |-> "Simulated Exception"]
    [] code = "ntstatus" -> [shape |-> "name", name |-> "STATUS_HEAP_CORRUPTION"]
    [] code = "winerror" -> [shape |-> "name", name |-> "ERROR_FILE_NOT_FOUND"]
    [] code \in {"facility", "facility_lowsev"} -> [shape |-> "name", name |-> "FACILITY_VISUALCPP / ERROR_MOD_NOT_FOUND"]      \* any non-zero severity nibble
    [] OTHER -> [shape |-> "win_unknown"]
\* ---- Linux ----
LinuxReason ==
  IF code = "lunknown" THEN [shape |-> "unknown"]
  ELSE IF code \in LinuxRefinable /\ flags \in {"f1", "f2"} THEN [shape |-> "sig_kind", sig |-> code, k |-> flags]
  ELSE IF flags = "f0" THEN [shape |-> "sig"]                               \* SI_USER
  ELSE IF flags \in {"f128", "fm6"} THEN [shape |-> "sig_sicode", si |-> flags]     \* SI_KERNEL, SI_TKILL
  ELSE [shape |-> "sig_hex"]
\* ---- Mac ----
CpuFam == CASE cpu \in {"x86", "amd64"} -> "x86" [] cpu = "arm64" -> "arm" [] cpu = "ppc" -> "ppc" [] OTHER -> "none"
KernKinds == {"f1", "f2"}
CpuKinds(c, fam) ==
  CASE c = "EXC_BAD_ACCESS" -> (CASE fam = "x86" -> {"f13"} [] fam = "arm" -> {"f257"} [] fam = "ppc" -> {"f257"} [] OTHER -> {})
    [] c = "EXC_BAD_INSTRUCTION" -> (CASE fam = "x86" -> {"f1", "f13"} [] fam = "arm" -> {"f1"} [] fam = "ppc" -> {"f1", "f2"} [] OTHER -> {})
    [] c = "EXC_ARITHMETIC" -> (CASE fam \in {"x86", "arm", "ppc"} -> {"f1", "f2"} [] OTHER -> {})
    [] c = "EXC_BREAKPOINT" -> (CASE fam = "x86" -> {"f1", "f2"} [] fam \in {"arm", "ppc"} -> {"f1"} [] OTHER -> {})
    [] OTHER -> {}
MacReason ==
  IF code = "munknown" THEN [shape |-> "unknown"]
  ELSE IF code = "SIMULATED" THEN [shape |-> "name", name |-> "Simulated Exception"]
  ELSE IF code = "EXC_BAD_ACCESS" /\ flags \in KernKinds THEN [shape |-> "mac_kind", table |-> "kern", k |-> flags]
  ELSE IF code \in MacCpuRefined \cup {"EXC_BAD_ACCESS"} /\ flags \in CpuKinds(code, CpuFam) THEN [shape |-> "mac_kind", table |-> CpuFam, k |-> flags]
  ELSE IF code = "EXC_SOFTWARE" /\ flags \in {"fabrt", "f1"} THEN [shape |-> "mac_kind", table |-> "software", k |-> flags]
  ELSE [shape |-> "mac_general"]
Reason == CASE os = "windows" -> WinReason [] os \in {"linux", "android"} -> LinuxReason [] os \in {"mac", "ios"} -> MacReason [] OTHER -> [shape |-> "unknown"]
Is32 == cpu \in {"x86", "arm", "ppc"}
Address == LET fromInfo == os = "windows" /\ code \in {"av", "inpage"} /\ np >= 2 IN [src |-> IF fromInfo THEN "info1" ELSE "addr", val |-> IF fromInfo THEN a1 ELSE ad, trunc |-> Is32]
\* ---- design-level sanity ----
\* refinement never invents information: a refined reason always stems from a known code, and parameters only matter on Windows
RefinedOnlyForKnownCode == Reason.shape \in {"av_kind", "inpage_kind", "fastfail", "sig_kind", "mac_kind"} => code \notin {"lunknown", "munknown", "wunknown", "wfacunk"}
OtherOsNeverNames == os = "other" => Reason.shape = "unknown"
AddressFromInfoOnlyOnWindows == Address.src = "info1" => os = "windows"
Emit == done => PrintT(<<"CASE", ToJson([os |-> os, cpu |-> cpu, code |-> code, flags |-> flags, np |-> np, i0 |-> i0, i2 |-> i2, a1 |-> a1, ad |-> ad, reason |-> Reason, addr |-> Address])>>)
====
