SPECIFICATION Spec
CONSTANTS Extra = 2
INVARIANTS Mandatory DeltaMonotone SetOrCleared Emit
CHECK_DEADLOCK FALSE
