SPECIFICATION Spec
CONSTANTS
  Esps = {"v4096", "v4100", "v4104", "v4", "v0", "top8", "ff"}
  Saveds = {"v0", "v4", "v8", "v12", "v16", "h7", "h8", "ff"}
  Locals = {"v0", "v4", "v8", "v12", "h7", "h8", "ff"}
  Gcs = {"nogc", "v0", "v4", "v12", "h8", "ff"}
INVARIANTS Progress OnlyDocumented Emit
CHECK_DEADLOCK FALSE
