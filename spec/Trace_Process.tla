---- MODULE Trace_Process ----
(***************************************************************************)
(* Monitors over whole-pipeline runs of the real process_minidump, one       *)
(* record per run (harness record_process):                                  *)
(*  kind "total" (C03): [outcome, panic, over_bound, render, ms, len]        *)
(*      outcome in {ok, err}; never a panic; no thread with more frames than *)
(*      its stack memory has bytes + 2; an ok state renders as text, brief   *)
(*      text and JSON; time within a budget tied to the input size           *)
(*  kind "det" (C13): [runs, json, text, brief, inconsistent_failure]        *)
(*      the numbers of DISTINCT byte strings of print_json / print /         *)
(*      print_brief over repeated runs under different executors, supplier   *)
(*      delays and hash seeds must all be 1                                  *)
(***************************************************************************)
EXTENDS Naturals, Sequences, TLC, Json, IOUtils
Rec == ndJsonDeserialize(IOEnv.VERIF_TRACE)
VARIABLE l
Budget(r) == 2000 + r.len \div 16                         \* milliseconds
TotalVerdict(i, r) ==
  /\ (r.panic = 1 => PrintT(<<"VERDICT", i, "NoPanic">>))
  /\ (r.outcome \notin {"ok", "err"} => PrintT(<<"VERDICT", i, "OkOrError">>))
  /\ (r.over_bound = 1 => PrintT(<<"VERDICT", i, "FrameBound">>))
  /\ ((r.outcome = "ok" /\ r.render # 1) => PrintT(<<"VERDICT", i, "Renders">>))
  /\ (r.ms > Budget(r) => PrintT(<<"VERDICT", i, "TimeBudget">>))
DetVerdict(i, r) ==
  /\ (r.json # 1 => PrintT(<<"VERDICT", i, "JsonDeterministic">>))
  /\ (r.text # 1 => PrintT(<<"VERDICT", i, "TextDeterministic">>))
  /\ (r.brief # 1 => PrintT(<<"VERDICT", i, "BriefDeterministic">>))
  /\ (r.inconsistent_failure = 1 => PrintT(<<"VERDICT", i, "SameOutcome">>))
Verdict(i, r) == IF "outcome" \in DOMAIN r THEN TotalVerdict(i, r) ELSE DetVerdict(i, r)
TInit == l = 1
TNext == l <= Len(Rec) /\ Verdict(l, Rec[l]) /\ l' = l + 1
TSpec == TInit /\ [][TNext]_l
PostOk == /\ PrintT(<<"TRACE", "matched", TLCGet("stats").diameter - 1, "of", Len(Rec)>>)
          /\ TLCGet("stats").diameter - 1 = Len(Rec)
====
