SPECIFICATION Spec
CONSTANTS
  NW = 16
  Mode = "built"
  MaxDepth = 5
  Pads = {0, 1}
  Arch = "arm"
  Os = "linux"
  AliasAware = TRUE
INVARIANTS WellFormed Bounded MatchesBuild Emit
CHECK_DEADLOCK FALSE
