---- MODULE Trace_Walk ----
(***************************************************************************)
(* C05 (and the C03 frame bound) on call stacks produced by the REAL         *)
(* walk_stack, for any architecture; exact u64 on limbs.  One record per     *)
(* walk:                                                                     *)
(*   ptr, adj   pointer size in bytes, call adjustment of the architecture   *)
(*   leaf       1 if the architecture may repeat sp between the first two    *)
(*              frames (ARM, ARM64, MIPS)                                    *)
(*   ctx_ip     instruction pointer of the context the walk started from     *)
(*   base, words   the thread's stack memory (start address, its words)      *)
(*   nbytes     size of the stack memory in bytes                            *)
(*   frames     [ip, instr, sp, trust, mod [has, base, size], fn [has, base]]*)
(*   capped     1 if the harness stopped an over-long walk                   *)
(* Failed predicates are printed as VERDICT lines; the trace continues.      *)
(***************************************************************************)
EXTENDS Words, Json, IOUtils, TLC
Rec == ndJsonDeserialize(IOEnv.VERIF_TRACE)
VARIABLE l
W4(n) == FromSmall(n, 4)
NullPage == W4(4096)
InStack(r, a) == ~Lt(a, r.base) /\ LET off == Sub(a, r.base) IN IsSmall(off) /\ ToSmall(off) + r.ptr <= r.nbytes /\ ToSmall(off) % r.ptr = 0
WordAt(r, a) == r.words[(ToSmall(Sub(a, r.base)) \div r.ptr) + 1]
First(r) == r.frames[1].trust = "context" /\ r.frames[1].ip = r.ctx_ip /\ r.frames[1].instr = r.ctx_ip
Later(r) == \A k \in 2..Len(r.frames) : LET f == r.frames[k] IN
   /\ ~Lt(f.ip, NullPage)
   /\ f.instr = Sub(f.ip, W4(r.adj))
   /\ f.trust \in {"cfi", "frame_pointer", "scan"}
Progress(r) == \A k \in 2..Len(r.frames) :
   \/ Lt(r.frames[k-1].sp, r.frames[k].sp)
   \/ (r.leaf = 1 /\ k = 2 /\ r.frames[1].sp = r.frames[2].sp)
ScanOk(r) == \A k \in 2..Len(r.frames) : LET f == r.frames[k] IN f.trust = "scan" =>
   /\ ~Lt(f.sp, W4(r.ptr))
   /\ LET a == Sub(f.sp, W4(r.ptr)) IN
        \* the return address is the word just below the frame's sp, inside the stack memory.  The recorded memory is word-granular: when
        \* the scan ran on addresses that are not word-aligned (an unaligned context sp) the word's position is still checked, its value is not
        /\ ~Lt(a, r.base) /\ LET off == Sub(a, r.base) IN IsSmall(off) /\ ToSmall(off) + r.ptr <= r.nbytes
        /\ (InStack(r, a) => WordAt(r, a) = f.ip)
Covers(r) == \A k \in 1..Len(r.frames) : LET f == r.frames[k] IN
   /\ (f.mod.has = 1 => (~Lt(f.instr, f.mod.base) /\ Lt(Sub(f.instr, f.mod.base), f.mod.size)))
   /\ (f.fn.has = 1 => (f.mod.has = 1 /\ ~Lt(f.instr, f.fn.base)))
Bounded(r) == r.capped = 0 /\ Len(r.frames) <= r.nbytes + 2
Verdict(i, r) ==
  /\ (r.panic = 1 => PrintT(<<"VERDICT", i, "panic">>))
  /\ (r.panic = 0 =>
       /\ (~First(r) => PrintT(<<"VERDICT", i, "FirstFrame">>))
       /\ (~Later(r) => PrintT(<<"VERDICT", i, "LaterFrames">>))
       /\ (~Progress(r) => PrintT(<<"VERDICT", i, "StackPointerProgress">>))
       /\ (~ScanOk(r) => PrintT(<<"VERDICT", i, "ScanFrame">>))
       /\ (~Covers(r) => PrintT(<<"VERDICT", i, "ModuleFunctionCover">>))
       /\ (~Bounded(r) => PrintT(<<"VERDICT", i, "FrameBound">>)))
TInit == l = 1
TNext == l <= Len(Rec) /\ Verdict(l, Rec[l]) /\ l' = l + 1
TSpec == TInit /\ [][TNext]_l
PostOk == /\ PrintT(<<"TRACE", "matched", TLCGet("stats").diameter - 1, "of", Len(Rec)>>)
          /\ TLCGet("stats").diameter - 1 = Len(Rec)
====
