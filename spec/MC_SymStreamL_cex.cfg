SPECIFICATION Spec
CONSTANTS
  InitCap = 2
  MaxCap = 32
  Repaired = FALSE
  LineLens = {1, 3, 15}
  MaxLines = 3
  TailLens = {0, 1, 2}
INVARIANTS WindowBounded OkMeansAll Cex Beh
VIEW View
CHECK_DEADLOCK FALSE
