---- MODULE RangeMap ----
(***************************************************************************)
(* Address-range tables built from untrusted entries (minidump-common       *)
(* traits.rs IntoRangeMapSafe::into_rangemap_safe, the memory_range()        *)
(* constructors of modules / memory regions / memory info / maps / unloaded  *)
(* modules / FUNC / STACK CFI / STACK WIN records, and the STACK WIN overlap *)
(* repair of the symbol parser).                                             *)
(*                                                                           *)
(* Address domain: 0..MaxV where MaxV stands for u64::MAX (the harness maps  *)
(* MaxV-k to u64::MAX-k for the top values and small values to themselves;   *)
(* every operation below is order- and successor-based, so the map commutes  *)
(* with it).                                                                 *)
(* A behaviour appends entries one at a time (action Add); every reachable   *)
(* state is a conformance case.  The C08 predicates are stated on the input  *)
(* and the resulting table only (no implementation constants).               *)
(***************************************************************************)
EXTENDS Naturals, Sequences, TLC, FiniteSets, Json
CONSTANTS MaxLen, Bases, Sizes, Vals, MaxV     \* MaxV stands for u64::MAX (MaxV-1 for u64::MAX-1; values <= MaxV-2 are themselves)
None == <<>>
\* documented range of an entry (base, size): empty or overflowing entries have no range;
\* an entry whose last byte is the last address (base + size = 2^64) is a valid range
MemRange(b, s) == IF s = 0 THEN None ELSE IF b + s > MaxV + 1 THEN None ELSE <<b, b + s - 1>>
SatAdd1(x) == IF x = MaxV THEN MaxV ELSE x + 1
\* Option<Range> ordering: None first, then (start, end) lexicographic
KeyLt(a, b) == IF a = None THEN b # None ELSE IF b = None THEN FALSE ELSE a[1] < b[1] \/ (a[1] = b[1] /\ a[2] < b[2])
RECURSIVE InsertSorted(_,_)
InsertSorted(s, x) == IF s = <<>> THEN <<x>> ELSE IF KeyLt(x.r, s[1].r) THEN <<x>> \o s ELSE <<s[1]>> \o InsertSorted(Tail(s), x)
RECURSIVE SortFrom(_,_)
SortFrom(acc, rest) == IF rest = <<>> THEN acc ELSE SortFrom(InsertSorted(acc, rest[1]), Tail(rest))
SortStable(s) == SortFrom(<<>>, s)          \* equal keys keep their input order
RECURSIVE Fold(_,_)
Fold(acc, rest) ==
  IF rest = <<>> THEN acc
  ELSE LET x == rest[1] IN
       IF x.r = None THEN Fold(acc, Tail(rest))
       ELSE IF acc = <<>> THEN Fold(<<x>>, Tail(rest))
       ELSE LET last == acc[Len(acc)] IN
            IF x.r[1] <= last.r[2] /\ x.v # last.v THEN Fold(acc, Tail(rest))                       \* overlaps a different entry: dropped
            ELSE IF x.r[1] <= SatAdd1(last.r[2]) /\ x.v = last.v                                    \* same value, touching: merged
                 THEN Fold([acc EXCEPT ![Len(acc)] = [r |-> <<last.r[1], IF x.r[2] > last.r[2] THEN x.r[2] ELSE last.r[2]>>, v |-> last.v]], Tail(rest))
                 ELSE Fold(Append(acc, x), Tail(rest))
Safe(s) == Fold(<<>>, SortStable(s))        \* s: sequence of [r |-> None | <<start,end>>, v |-> value]
Covers(r, a) == r # None /\ r[1] <= a /\ a <= r[2]
Intersects(r1, r2) == r1 # None /\ r2 # None /\ r1[1] <= r2[2] /\ r2[1] <= r1[2]
Get(m, a) == LET S == {i \in 1..Len(m) : Covers(m[i].r, a)} IN IF S = {} THEN 0 ELSE m[CHOOSE i \in S : TRUE].v     \* 0 = no entry (values are positive)

VARIABLE input                               \* sequence of [b, s, v]
Init == input = <<>>
Add == /\ Len(input) < MaxLen
       /\ \E b \in Bases, s \in Sizes, v \in Vals : input' = Append(input, [b |-> b, s |-> s, v |-> v])
Next == Add
Spec == Init /\ [][Next]_input
AsEntries(vals) == [i \in 1..Len(input) |-> [r |-> MemRange(input[i].b, input[i].s), v |-> vals[i]]]
Given == AsEntries([i \in 1..Len(input) |-> input[i].v])         \* values as given (equal values merge)
ByIdx == AsEntries([i \in 1..Len(input) |-> i])                  \* values = positions (how the dump lists use it)
Addrs == 0..MaxV

\* ---- the C08 predicates, on an (entries, table) pair ----
SortedDisjoint(m) == \A i \in 1..(Len(m) - 1) : m[i].r[2] < m[i+1].r[1]
Sound(e, m) == \A a \in Addrs : Get(m, a) # 0 => \E i \in 1..Len(e) : Covers(e[i].r, a) /\ e[i].v = Get(m, a)
CompleteForIsolated(e, m) == \A i \in 1..Len(e) :
    (e[i].r # None /\ \A j \in 1..Len(e) : j # i => ~Intersects(e[i].r, e[j].r))
       => \A a \in Addrs : Covers(e[i].r, a) => Get(m, a) = e[i].v
\* unloaded modules keep every entry: all entries covering an address, in (start, end) order
AllCovering(e, a) == LET s == SortStable(e) IN SelectSeq(s, LAMBDA x : Covers(x.r, a))
UnloadedExact(e) == \A a \in Addrs : {x.v : x \in {AllCovering(e, a)[k] : k \in 1..Len(AllCovering(e, a))}} = {e[i].v : i \in {j \in 1..Len(e) : Covers(e[j].r, a)}}
PropGiven == SortedDisjoint(Safe(Given)) /\ Sound(Given, Safe(Given)) /\ CompleteForIsolated(Given, Safe(Given))
PropByIdx == SortedDisjoint(Safe(ByIdx)) /\ Sound(ByIdx, Safe(ByIdx)) /\ CompleteForIsolated(ByIdx, Safe(ByIdx)) /\ UnloadedExact(ByIdx)

\* ---- STACK WIN records: the parser's overlap repair before the table is built (parser.rs,
\*      insert_win_stack_info): a record that intersects the previously kept one and starts above it
\*      truncates the previous one to end just below it; one that intersects but does not start above
\*      it is dropped, except that a record with the identical range is passed on to the table build
\*      (which keeps the first of two identical ranges) ----
RECURSIVE WinInsert(_,_,_)
WinInsert(acc, e, i) ==
  IF i > Len(e) THEN acc
  ELSE LET x == e[i] IN
       IF x.r = None THEN WinInsert(acc, e, i + 1)
       ELSE IF acc = <<>> THEN WinInsert(<<x>>, e, i + 1)
       ELSE LET last == acc[Len(acc)] IN
            IF ~Intersects(last.r, x.r) THEN WinInsert(Append(acc, x), e, i + 1)
            ELSE IF x.r[1] > last.r[1]
                 THEN WinInsert(Append([acc EXCEPT ![Len(acc)] = [r |-> <<last.r[1], x.r[1] - 1>>, v |-> last.v]], x), e, i + 1)
                 ELSE IF x.r = last.r THEN WinInsert(Append(acc, x), e, i + 1)   \* identical range: kept here, the table build drops it
                 ELSE WinInsert(acc, e, i + 1)
WinTable == Safe(WinInsert(<<>>, ByIdx, 1))
\* after the repair, lookups are still sound w.r.t. the ORIGINAL records and the table is sorted
PropWin == SortedDisjoint(WinTable) /\ Sound(ByIdx, WinTable) /\ CompleteForIsolated(ByIdx, WinTable)

Ser(m) == [i \in 1..Len(m) |-> [s |-> m[i].r[1], e |-> m[i].r[2], v |-> m[i].v]]
Emit == PrintT(<<"CASE", ToJson([input |-> input, given |-> Ser(Safe(Given)), byidx |-> Ser(Safe(ByIdx)), win |-> Ser(WinTable), unlsorted |-> Ser(SelectSeq(SortStable(ByIdx), LAMBDA x : x.r # None)),
                                  unl |-> [a \in Addrs |-> [k \in 1..Len(AllCovering(ByIdx, a)) |-> AllCovering(ByIdx, a)[k].v]]])>>)
====
