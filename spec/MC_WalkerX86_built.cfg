SPECIFICATION Spec
CONSTANTS
  NW = 24
  Mode = "built"
  MaxDepth = 4
  Pads = {0, 1}
  WinClearNoop = TRUE
INVARIANTS WellFormed Bounded MatchesBuild Emit
CHECK_DEADLOCK FALSE
