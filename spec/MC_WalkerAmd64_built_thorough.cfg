SPECIFICATION Spec
CONSTANTS
  NW = 260
  Mode = "built"
  MaxDepth = 4
  Pads = {0, 1, 2, 38, 39, 158, 159}
  Os = "linux"
INVARIANTS WellFormed MatchesBuild Bounded Emit
CHECK_DEADLOCK FALSE
