---- MODULE Paths ----
(***************************************************************************)
(* Symbol lookup paths derived from module names (breakpad-symbols lib.rs:    *)
(* leafname, replace_or_add_extension, breakpad_sym_lookup,                   *)
(* code_info_breakpad_sym_lookup, extra_debuginfo_lookup, binary_lookup,      *)
(* moz_lookup).  Strings are TLC strings; characters are one-element          *)
(* substrings.  Documented layouts:                                           *)
(*   sym    : <debug leaf>/<DEBUGID>/<debug leaf, .pdb replaced by .sym>      *)
(*   code   : <code leaf>/<CODEID upper>/<code leaf, .dll replaced by .sym>   *)
(*   extra  : <debug leaf>/<DEBUGID>/<debug leaf>                             *)
(*   binary : cache <debug leaf>/<DEBUGID>/<code leaf>,                       *)
(*            server <code leaf>/<CODEID>/<code leaf>                         *)
(*   moz    : server path with its last character replaced by '_'             *)
(* A module whose leaf is empty, ".." or starts with a drive prefix has no    *)
(* lookup path at all (the builders answer None, written "" here).            *)
(* The C17 predicate Contained says a relative path is genuinely relative.   *)
(***************************************************************************)
EXTENDS Naturals, Sequences, TLC, Json
Ch(s, i) == SubSeq(s, i, i)
IsSep(c) == c = "/" \/ c = "\\"
RECURSIVE LastSep(_,_)
LastSep(s, i) == IF i = 0 THEN 0 ELSE IF IsSep(Ch(s, i)) THEN i ELSE LastSep(s, i - 1)
Leaf(s) == SubSeq(s, LastSep(s, Len(s)) + 1, Len(s))
Lower(c) == CASE c = "P" -> "p" [] c = "D" -> "d" [] c = "B" -> "b" [] c = "L" -> "l" [] OTHER -> c
RECURSIVE LowerS(_)
LowerS(s) == IF Len(s) = 0 THEN "" ELSE Lower(Ch(s, 1)) \o LowerS(SubSeq(s, 2, Len(s)))
RECURSIVE LastDot(_,_)
LastDot(s, i) == IF i = 0 THEN 0 ELSE IF Ch(s, i) = "." THEN i ELSE LastDot(s, i - 1)
\* if the text after the last '.' equals ext (case-insensitively) drop ".ext"; then append ".new"
ReplaceOrAddExt(f, ext, new) == LET d == LastDot(f, Len(f)) IN
   IF d > 0 /\ LowerS(SubSeq(f, d + 1, Len(f))) = ext THEN SubSeq(f, 1, d - 1) \o "." \o new ELSE f \o "." \o new
IsAlphaC(c) == c \in {"a","b","c","d","e","f","g","h","i","j","k","l","m","n","o","p","q","r","s","t","u","v","w","x","y","z",
                      "A","B","C","D","E","F","G","H","I","J","K","L","M","N","O","P","Q","R","S","T","U","V","W","X","Y","Z"}
\* a leaf usable as a path component: not empty, not "..", no drive prefix; otherwise the module has no lookup path ("")
SafeLeaf(s) == LET l == Leaf(s) IN Len(l) > 0 /\ l # ".." /\ ~(Len(l) >= 2 /\ IsAlphaC(Ch(l, 1)) /\ Ch(l, 2) = ":")
Join3(a, b, c) == a \o "/" \o b \o "/" \o c
SymRel(debugFile, debugId) == IF ~SafeLeaf(debugFile) THEN "" ELSE Join3(Leaf(debugFile), debugId, ReplaceOrAddExt(Leaf(debugFile), "pdb", "sym"))
CodeRel(codeFile, codeIdUpper) == IF ~SafeLeaf(codeFile) THEN "" ELSE Join3(Leaf(codeFile), codeIdUpper, ReplaceOrAddExt(Leaf(codeFile), "dll", "sym"))
ExtraRel(debugFile, debugId) == IF ~SafeLeaf(debugFile) THEN "" ELSE Join3(Leaf(debugFile), debugId, Leaf(debugFile))
BinCacheRel(codeFile, debugFile, debugId) == IF ~SafeLeaf(debugFile) \/ ~SafeLeaf(codeFile) THEN "" ELSE Join3(Leaf(debugFile), debugId, Leaf(codeFile))
BinServerRel(codeFile, debugFile, codeId) == IF ~SafeLeaf(debugFile) \/ ~SafeLeaf(codeFile) THEN "" ELSE Join3(Leaf(codeFile), codeId, Leaf(codeFile))
Moz(rel) == IF rel = "" THEN "" ELSE SubSeq(rel, 1, Len(rel) - 1) \o "_"

\* ---- the C17 predicate ----
\* components of a path under BOTH separator styles
RECURSIVE Comps(_,_,_)
Comps(s, i, cur) == IF i > Len(s) THEN <<cur>> ELSE IF IsSep(Ch(s, i)) THEN <<cur>> \o Comps(s, i + 1, "") ELSE Comps(s, i + 1, cur \o Ch(s, i))
IsAlpha(c) == c \in {"a","b","c","d","e","f","g","h","i","j","k","l","m","n","o","p","q","r","s","t","u","v","w","x","y","z",
                     "A","B","C","D","E","F","G","H","I","J","K","L","M","N","O","P","Q","R","S","T","U","V","W","X","Y","Z"}
StartsWithSep(p) == Len(p) > 0 /\ IsSep(Ch(p, 1))
DrivePrefix(p) == Len(p) >= 2 /\ IsAlpha(Ch(p, 1)) /\ Ch(p, 2) = ":"
HasDotDot(p) == LET cs == Comps(p, 1, "") IN \E k \in 1..Len(cs) : cs[k] = ".."
Contained(p) == Len(p) > 0 /\ ~StartsWithSep(p) /\ ~DrivePrefix(p) /\ ~HasDotDot(p)

\* ---- enumeration of names: sequences of tokens ----
CONSTANTS Tokens, MaxTok
VARIABLES toks
Init == toks = <<>>
Add == Len(toks) < MaxTok /\ \E t \in Tokens : toks' = Append(toks, t)
Spec == Init /\ [][Add]_toks
RECURSIVE Cat(_)
Cat(ts) == IF ts = <<>> THEN "" ELSE ts[1] \o Cat(Tail(ts))
Name == Cat(toks)
\* design-level: a name with an ordinary leaf (non-empty, not ".", "..", no ':') yields contained paths under every builder
OkOrNone(p) == p = "" \/ Contained(p)
SpecContained ==
   /\ OkOrNone(SymRel(Name, "ID")) /\ OkOrNone(CodeRel(Name, "ID")) /\ OkOrNone(ExtraRel(Name, "ID"))
   /\ OkOrNone(BinCacheRel(Name, Name, "ID")) /\ OkOrNone(BinServerRel(Name, Name, "ID")) /\ OkOrNone(Moz(SymRel(Name, "ID")))
Emit == PrintT(<<"CASE", ToJson([s |-> Name])>>)
\* " (deleted)" is what Linux appends to the path of a mapped file that has been unlinked
TokenSet == {"a", ".", "/", "\\", ":", "..", ".pdb", ".DLL", "C", "b.c", " (deleted)"}
====
