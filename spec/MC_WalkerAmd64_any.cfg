SPECIFICATION Spec
CONSTANTS
  NW = 3
  Mode = "any"
  MaxDepth = 0
  Pads = {0}
INVARIANTS WellFormed Emit
CONSTRAINT Cap
CHECK_DEADLOCK FALSE
