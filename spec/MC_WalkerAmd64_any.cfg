SPECIFICATION Spec
CONSTANTS
  NW = 3
  Mode = "any"
  MaxDepth = 0
  Pads = {0}
  Os = "linux"
INVARIANTS WellFormed Bounded Emit
CHECK_DEADLOCK FALSE
