SPECIFICATION Spec
CONSTANTS
  NW = 3
  Mode = "any"
  MaxDepth = 0
  Pads = {0}
INVARIANTS WellFormed Bounded Emit
CHECK_DEADLOCK FALSE
