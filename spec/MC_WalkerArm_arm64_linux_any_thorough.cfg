SPECIFICATION Spec
CONSTANTS
  NW = 4
  Mode = "any"
  MaxDepth = 1
  Pads = {0}
  Arch = "arm64"
  Os = "linux"
  AliasAware = TRUE
INVARIANTS WellFormed Bounded Emit
CHECK_DEADLOCK FALSE
