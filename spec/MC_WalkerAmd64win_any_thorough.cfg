SPECIFICATION Spec
CONSTANTS
  NW = 4
  Mode = "any"
  MaxDepth = 0
  Pads = {0}
  Os = "windows"
INVARIANTS WellFormed Bounded Emit
CHECK_DEADLOCK FALSE
