SPECIFICATION Spec
CONSTANTS
  MaxLen = 3
  Bases = {0, 1, 2, 3, 4, 10, 18, 19}
  Sizes = {0, 1, 2, 3, 5}
  Vals = {1, 2}
  MaxV = 19
INVARIANTS PropGiven PropByIdx PropWin Emit
CHECK_DEADLOCK FALSE
