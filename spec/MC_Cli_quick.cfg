SPECIFICATION Spec
INVARIANTS FailureIsSilent SuccessHasPrimary CyborgOnlyWithCyborg Emit
CHECK_DEADLOCK FALSE
