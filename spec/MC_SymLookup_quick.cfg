SPECIFICATION Spec
CONSTANTS MaxRecs = 6
INVARIANTS BasesBelow CoversOrPublic Nested Emit
CHECK_DEADLOCK FALSE
