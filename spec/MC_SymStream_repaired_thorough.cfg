SPECIFICATION Spec
CONSTANTS
  InitCap = 2
  MaxCap = 8
  MaxLen = 10
  Bytes = {"x", "n", "b"}
  Repaired = TRUE
INVARIANTS WindowBounded Terminates OkMeansAll ChunkIndependent LongLineDropped LongLineOk
CHECK_DEADLOCK FALSE
