---- MODULE Confluence ----
(***************************************************************************)
(* Determinism of process_minidump w.r.t. scheduling (processor.rs: the      *)
(* per-thread walks are joined with join_all; symbols come from one shared   *)
(* Symbolizer, see SymbolCache.tla).  Each thread's walk is a sequence of    *)
(* symbol look-ups (module keys); its result is a function of the answers.   *)
(* Look-ups complete in any order (supplier delays); results are collected   *)
(* BY THREAD INDEX; the symbol statistics are snapshotted after the join;    *)
(* hash-ordered collections are emitted in a canonical order.  Confluent:    *)
(* the final report is a function of the inputs alone.                       *)
(* The three flags name the classic ways to lose this (each must make TLC    *)
(* report a violation: they guard against a vacuous model).                  *)
(***************************************************************************)
EXTENDS Naturals, Sequences, FiniteSets, TLC
CONSTANTS Threads, Keys, Lookups,            \* Lookups[t] : sequence of keys thread t asks for, in order
          CollectInCompletionOrder,          \* bug: push results as threads finish
          SnapshotStatsEarly,                \* bug: take the statistics before the join
          EmitHashOrder                      \* bug: emit a hash-ordered collection as iterated
VARIABLES pos, loaded, finished, stats, report, hashorder
vars == <<pos, loaded, finished, stats, report, hashorder>>
Answer(k) == <<"symbols-of", k>>
ResultOf(t) == [i \in 1..Len(Lookups[t]) |-> Answer(Lookups[t][i])]
Perms(S) == {f \in [1..Cardinality(S) -> S] : \A i, j \in 1..Cardinality(S) : i # j => f[i] # f[j]}
Init == /\ pos = [t \in Threads |-> 1] /\ loaded = {} /\ finished = <<>> /\ stats = [taken |-> FALSE, v |-> {}] /\ report = [done |-> FALSE, threads |-> <<>>, stats |-> {}, limits |-> <<>>]
        /\ hashorder \in Perms(Keys)                                    \* the iteration order of this run's hash map
Step(t) == /\ pos[t] <= Len(Lookups[t])
           /\ loaded' = loaded \cup {Lookups[t][pos[t]]}                \* first requester loads, the others reuse (SymbolCache)
           /\ pos' = [pos EXCEPT ![t] = @ + 1]
           /\ finished' = IF pos[t] = Len(Lookups[t]) THEN Append(finished, t) ELSE finished
           /\ stats' = IF SnapshotStatsEarly /\ ~stats.taken THEN [taken |-> TRUE, v |-> loaded'] ELSE stats
           /\ UNCHANGED <<report, hashorder>>
AllDone == \A t \in Threads : pos[t] > Len(Lookups[t])
ThreadOrder == IF CollectInCompletionOrder THEN finished ELSE CHOOSE s \in [1..Cardinality(Threads) -> Threads] : \A i \in 1..(Cardinality(Threads) - 1) : s[i] < s[i+1]
Canonical(S) == CHOOSE s \in Perms(S) : \A i \in 1..(Cardinality(S) - 1) : s[i] < s[i+1]
Finish == /\ AllDone /\ ~report.done
          /\ LET st == IF SnapshotStatsEarly /\ stats.taken THEN stats.v ELSE loaded
                 limits == IF EmitHashOrder THEN hashorder ELSE Canonical(Keys) IN
             report' = [done |-> TRUE, threads |-> [i \in 1..Len(ThreadOrder) |-> ResultOf(ThreadOrder[i])], stats |-> st, limits |-> limits]
          /\ UNCHANGED <<pos, loaded, finished, stats, hashorder>>
Next == (\E t \in Threads : Step(t)) \/ Finish
Spec == Init /\ [][Next]_vars
Expected == [done |-> TRUE, threads |-> [i \in 1..Cardinality(Threads) |-> ResultOf(Canonical(Threads)[i])],
             stats |-> UNION {{Lookups[t][i] : i \in 1..Len(Lookups[t])} : t \in Threads}, limits |-> Canonical(Keys)]
Confluent == report.done => report = Expected
====
