SPECIFICATION Spec
CONSTANTS
  MaxLen = 3
  Tok = {"+","-","*","/","%","@","=","^",".undef","$T0","$eip","$esp","$ebp","$ebx","$edi",".raSearch",".raSearchStart",".cbLocals",".cbParams",".cbCalleeParams","l4","lm1","l8","=l4","$nope","lbig","junk"}
  InstIds = {"normal","noebx","grand","espwrap","bigloc","ebpwrap","lowesp"}
  Prefixes <- PrefixesNone
INVARIANTS TypeOK OnlyOuts NoImplicit Emit
CHECK_DEADLOCK FALSE
