---- MODULE Trace_CfiEval ----
(***************************************************************************)
(* Trace validation (impl -> spec) for the STACK CFI evaluator.  Each record *)
(* is one expression the real walk_frame evaluated for a random program over *)
(* random 64-bit operands: its classified tokens, the CFA available to it,   *)
(* every stack-memory read the evaluator performed (address, value) in       *)
(* order, and the result.  The specification re-executes the program token   *)
(* by token with CfiExpr!ApplyV; memory is the environment, so a "deref"     *)
(* step consumes the next logged read and requires its address to be the     *)
(* value on top of the stack.  A record the specification cannot reproduce   *)
(* stops the trace; the postcondition then reports its index.                *)
(***************************************************************************)
EXTENDS CfiExpr, IOUtils
Rec == ndJsonDeserialize(IOEnv.VERIF_TRACE)
VARIABLES l, i, tstk, ok, ri
tvars == <<l, i, tstk, ok, ri>>
TInit == l = 1 /\ i = 1 /\ tstk = <<>> /\ ok = TRUE /\ ri = 1 /\ TLCSet(1, 1)
R == Rec[l]
TokStep ==
  /\ l <= Len(Rec) /\ ok /\ i <= Len(R.toks)
  /\ LET tk == R.toks[i]
         needsRead == tk.k = "deref" /\ Len(tstk) >= 1 IN
     /\ needsRead => (ri <= Len(R.reads) /\ R.reads[ri].a = tstk[Len(tstk)])
     /\ LET a == ApplyV(tstk, tk, R.cfa, IF needsRead THEN R.reads[ri].v ELSE <<>>) IN
          /\ ok' = a.ok /\ tstk' = a.stk
     /\ ri' = IF needsRead THEN ri + 1 ELSE ri
  /\ i' = i + 1 /\ UNCHANGED l
Finish ==
  /\ l <= Len(Rec) /\ (~ok \/ i > Len(R.toks))
  /\ R.res = (IF ok /\ Len(tstk) = 1 THEN tstk[1] ELSE <<>>)
  /\ ri = Len(R.reads) + 1                       \* the evaluator read exactly what the semantics require
  /\ l' = l + 1 /\ i' = 1 /\ tstk' = <<>> /\ ok' = TRUE /\ ri' = 1
TNext == TokStep \/ Finish
TSpec == TInit /\ [][TNext]_tvars
Progress == TLCSet(1, IF TLCGet(1) < l THEN l ELSE TLCGet(1))
PostOk == /\ PrintT(<<"TRACE", "matched", TLCGet(1) - 1, "of", Len(Rec)>>)
          /\ TLCGet(1) = Len(Rec) + 1
TypeInv == \A k \in 1..Len(tstk) : Len(tstk[k]) = 4
====
