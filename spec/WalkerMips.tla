---- MODULE WalkerMips ----
(***************************************************************************)
(* The MIPS stack walker (minidump-unwind/src/mips.rs) + lib.rs walk_stack.  *)
(* Two techniques: STACK CFI, then scanning.  Bits = 32: o32 ABI, 4-byte      *)
(* words, a scan that does not start from the context frame first skips the  *)
(* callee's four argument home slots (16 bytes) and looks at 252 words,      *)
(* otherwise at 256; Bits = 64: 8-byte words, 128 words, no skip.  A scanned *)
(* word is a return address when it is >= 0x1000 and the byte before it lies *)
(* in a module (and in a function, if the module has symbols).  The caller   *)
(* must have pc >= 4096 and sp above the callee's (equal is allowed for the  *)
(* first step only).  The instruction of a caller frame is pc - 8 (the jump  *)
(* and its delay slot).                                                      *)
(* Callee-saved registers forwarded through CFI: s0..s7, gp, sp, fp; the      *)
(* model tracks fp and s0 ("cs").                                            *)
(* Modes "any" and "built" as in the other Walker modules.  In built stacks  *)
(* the home slots of scanned frames hold a code pointer (a callback passed   *)
(* as an argument), so that skipping them matters.                           *)
(***************************************************************************)
EXTENDS Naturals, Integers, Sequences, TLC, FiniteSets, Json
CONSTANTS NW, Mode, MaxDepth, Pads, Bits
Ptr == IF Bits = 32 THEN 4 ELSE 8
Adj == 8
Base == 65536
StackEnd == Base + NW * Ptr
M1lo == 4194304  M1hi == 4198399
F1lo == 4194560  F1hi == 4194815
F2lo == 4195072  F2hi == 4195327
F3lo == 4195584  F3hi == 4195839
M2lo == 5242880  M2hi == 5246975
A1 == F1lo + 80
A2 == F2lo + 80
A3 == F3lo + 80
A4 == M2lo + 16
AX == F1hi + 81
InMod(a) == (a >= M1lo /\ a <= M1hi) \/ (a >= M2lo /\ a <= M2hi)
InM1(a) == a >= M1lo /\ a <= M1hi
InF1(a) == a >= F1lo /\ a <= F1hi
InF3(a) == a >= F3lo /\ a <= F3hi
HasFunc(a) == InF1(a) \/ (a >= F2lo /\ a <= F2hi) \/ InF3(a)
HasCfi(a) == InF1(a) \/ InF3(a)
Rules == {"std", "raleaf", "nomem", "cfaonly"}
\* std    : .cfa: sp 2P + .ra: .cfa -P + ^ fp: .cfa -2P + ^
\* raleaf : .cfa: sp 0 + .ra: ra
\* nomem  : .cfa: sp P + .ra: <A1>
\* cfaonly: .cfa: sp 2P + .ra: .cfa -P + ^          (F3 always has this one)
Vals == {0, A1, A3, A4, AX, Base, Base + Ptr, 4000}
VARIABLES mem, rule, frames, done, expect
vars == <<mem, rule, frames, done, expect>>
Readable(a) == a >= Base /\ a + Ptr <= StackEnd /\ (a - Base) % Ptr = 0
Rd(a) == mem[(a - Base) \div Ptr + 1]
None == [none |-> TRUE]
IsNone(x) == "none" \in DOMAIN x
SeemsValid(pc) == /\ pc >= 4096
                  /\ LET x == pc - 1 IN InMod(x) /\ (InM1(x) => HasFunc(x))
Fwd(f) == f.valid \cap {"fp", "cs"}
RuleAt(instr) == IF InF3(instr) THEN "cfaonly" ELSE rule
ByCfi(f) ==
  IF ~("sp" \in f.valid) THEN None
  ELSE IF ~(InM1(f.instr) /\ HasCfi(f.instr)) THEN None
  ELSE LET r == RuleAt(f.instr) IN
    CASE r = "std" ->
           LET cfa == f.sp + 2 * Ptr IN
           IF ~Readable(cfa - Ptr) THEN None
           ELSE IF Readable(cfa - 2 * Ptr)
                THEN [ip |-> Rd(cfa - Ptr), sp |-> cfa, fp |-> Rd(cfa - 2 * Ptr), ra |-> f.ra, cs |-> f.cs, valid |-> {"pc", "sp", "fp"} \cup (Fwd(f) \cap {"cs"}), trust |-> "cfi"]
                ELSE [ip |-> Rd(cfa - Ptr), sp |-> cfa, fp |-> f.fp, ra |-> f.ra, cs |-> f.cs, valid |-> {"pc", "sp"} \cup (Fwd(f) \cap {"cs"}), trust |-> "cfi"]
      [] r = "raleaf" ->
           IF ~("ra" \in f.valid) THEN None
           ELSE [ip |-> f.ra, sp |-> f.sp, fp |-> f.fp, ra |-> f.ra, cs |-> f.cs, valid |-> {"pc", "sp"} \cup Fwd(f), trust |-> "cfi"]
      [] r = "nomem" ->
           [ip |-> A1, sp |-> f.sp + Ptr, fp |-> f.fp, ra |-> f.ra, cs |-> f.cs, valid |-> {"pc", "sp"} \cup Fwd(f), trust |-> "cfi"]
      [] r = "cfaonly" ->
           LET cfa == f.sp + 2 * Ptr IN
           IF ~Readable(cfa - Ptr) THEN None
           ELSE [ip |-> Rd(cfa - Ptr), sp |-> cfa, fp |-> f.fp, ra |-> f.ra, cs |-> f.cs, valid |-> {"pc", "sp"} \cup Fwd(f), trust |-> "cfi"]
RECURSIVE ScanFrom(_,_,_)
ScanFrom(start, i, count) ==
  IF i >= count THEN None
  ELSE LET a == start + i * Ptr IN
       IF ~Readable(a) THEN None
       ELSE IF SeemsValid(Rd(a))
            THEN [ip |-> Rd(a), sp |-> a + Ptr, fp |-> 0, ra |-> 0, cs |-> 0, valid |-> {"pc", "sp"}, trust |-> "scan"]
            ELSE ScanFrom(start, i + 1, count)
HomeSkip(f) == IF Bits = 32 /\ f.trust # "context" THEN 4 ELSE 0          \* words
ByScan(f) == IF ~("sp" \in f.valid) THEN None
             ELSE ScanFrom(f.sp + HomeSkip(f) * Ptr, 0, (IF Bits = 32 THEN 256 ELSE 128) - HomeSkip(f))
Pick(f) == LET c1 == ByCfi(f) IN IF ~IsNone(c1) THEN c1 ELSE ByScan(f)
Accept(f, c) == /\ ~IsNone(c) /\ c.ip >= 4096
                /\ (c.sp > f.sp \/ (c.sp = f.sp /\ f.trust = "context"))
MaxFrames == NW * Ptr + 2
Room == Len(frames) < MaxFrames
Finish(c) == c @@ [instr |-> c.ip - Adj]
Last == frames[Len(frames)]
StepCfi == /\ ~done /\ Room /\ LET c == Pick(Last) IN /\ Accept(Last, c) /\ c.trust = "cfi" /\ frames' = Append(frames, Finish(c))
           /\ UNCHANGED <<mem, rule, done, expect>>
StepScan == /\ ~done /\ Room /\ LET c == Pick(Last) IN /\ Accept(Last, c) /\ c.trust = "scan" /\ frames' = Append(frames, Finish(c))
            /\ UNCHANGED <<mem, rule, done, expect>>
StopNoFrame == /\ ~done /\ IsNone(Pick(Last)) /\ done' = TRUE /\ UNCHANGED <<mem, rule, frames, expect>>
StopRejected == /\ ~done /\ ~IsNone(Pick(Last)) /\ ~Accept(Last, Pick(Last)) /\ done' = TRUE /\ UNCHANGED <<mem, rule, frames, expect>>
StopBound == /\ ~done /\ ~Room /\ Accept(Last, Pick(Last)) /\ done' = TRUE /\ UNCHANGED <<mem, rule, frames, expect>>
Next == StepCfi \/ StepScan \/ StopNoFrame \/ StopRejected \/ StopBound
\* ---- Mode "any"
Ctx0 == {[ip |-> i, instr |-> i, sp |-> s, fp |-> 77, ra |-> r, cs |-> 78, valid |-> {"pc", "sp", "fp", "ra", "cs"}, trust |-> "context"] :
            i \in {A1, A3, A4}, s \in {Base, Base + Ptr, StackEnd}, r \in {A1 + 8, 0, 4000}}
InitAny == /\ mem \in [1..NW -> Vals] /\ rule \in Rules /\ (\E c \in Ctx0 : frames = <<c>>) /\ done = FALSE /\ expect = <<>>
\* ---- Mode "built"
Techs == {"cfi", "cfa", "scan"}
Calls == [tech : Techs, pad : Pads]
Chains == UNION {[1..n -> Calls] : n \in 1..MaxDepth}
IpOf(tech) == CASE tech = "cfi" -> A1 [] tech = "cfa" -> A3 [] tech = "scan" -> A4
Buildable(ch) == \A k \in 1..Len(ch) : IF ch[k].tech = "scan" THEN ch[k].pad < 100 ELSE ch[k].pad = 0
Callback == A4 + 64           \* a pointer to code passed as an argument: sits in the home slots
RECURSIVE KnowsFp(_,_)
KnowsFp(ch, k) == IF k = 1 THEN TRUE
                  ELSE LET prev == ch[k - 1].tech IN IF prev = "cfi" THEN TRUE ELSE IF prev = "scan" THEN FALSE ELSE KnowsFp(ch, k - 1)
RECURSIVE Lay(_,_,_,_,_,_,_)
\* lf: the chain is entered through a stackless leaf function (its caller is then not the context frame)
Lay(ch, k, sp, curfp, words, fr, lf) ==
  IF k > Len(ch) THEN [words |-> words, frames |-> fr, endsp |-> sp]
  ELSE LET c == ch[k]
           nextIp == IF k < Len(ch) THEN IpOf(ch[k + 1].tech) ELSE A4 + 8 IN
       CASE c.tech = "cfi" ->
              LET csp == sp + 2 * Ptr  cfp == 1000 + k IN
              Lay(ch, k + 1, csp, cfp, words \cup {<<sp, cfp>>, <<sp + Ptr, nextIp>>},
                  Append(fr, [ip |-> nextIp, sp |-> csp, trust |-> "cfi", fp |-> cfp, fpKnown |-> TRUE]), lf)
         [] c.tech = "cfa" ->
              LET csp == sp + 2 * Ptr IN
              Lay(ch, k + 1, csp, curfp, words \cup {<<sp + Ptr, nextIp>>},
                  Append(fr, [ip |-> nextIp, sp |-> csp, trust |-> "cfi", fp |-> curfp, fpKnown |-> KnowsFp(ch, k)]), lf)
         [] c.tech = "scan" ->
              \* o32: a frame that was itself called keeps four home slots for its callee's arguments at the bottom
              LET home == IF Bits = 32 /\ (k > 1 \/ lf) THEN 4 ELSE 0
                  ra == sp + Ptr * (home + c.pad)  csp == ra + Ptr
                  hw == IF home = 0 THEN {} ELSE {<<sp + Ptr, Callback>>, <<sp + 3 * Ptr, Callback>>} IN
              Lay(ch, k + 1, csp, 0, words \cup hw \cup {<<ra, nextIp>>},
                  Append(fr, [ip |-> nextIp, sp |-> csp, trust |-> "scan", fp |-> 0, fpKnown |-> FALSE]), lf)
Built(ch, lf) == LET l == Lay(ch, 1, Base, 77, {}, <<>>, lf) IN [words |-> l.words, frames |-> l.frames, fits |-> l.endsp + 4 * Ptr <= StackEnd]
MemOf(ws) == [i \in 1..NW |-> LET a == Base + (i - 1) * Ptr  S == {w \in ws : w[1] = a} IN IF S = {} THEN 0 ELSE (CHOOSE w \in S : TRUE)[2]]
\* lf: the context frame is a stackless leaf function of F1 (rule raleaf: .cfa: sp 0 + .ra: ra) called from the first function of
\* the chain; the stack pointer does not move for that one step, and the chain itself then must not use F1's rule
InitBuilt == /\ done = FALSE
             /\ \E lf \in BOOLEAN : \E ch \in {c \in Chains : Buildable(c) /\ (lf => \A k \in 1..Len(c) : c[k].tech # "cfi")} :
                  LET b == Built(ch, lf)  first == IpOf(ch[1].tech)  ip0 == IF lf THEN A1 ELSE first IN
                  /\ b.fits
                  /\ rule = (IF lf THEN "raleaf" ELSE "std")
                  /\ mem = MemOf(b.words)
                  /\ expect = (IF lf THEN <<[ip |-> first, sp |-> Base, trust |-> "cfi", fp |-> 77, fpKnown |-> TRUE]>> ELSE <<>>) \o b.frames
                  /\ frames = <<[ip |-> ip0, instr |-> ip0, sp |-> Base, fp |-> 77, ra |-> IF lf THEN first ELSE 0, cs |-> 78,
                                valid |-> {"pc", "sp", "fp", "ra", "cs"}, trust |-> "context"]>>
Init == IF Mode = "any" THEN InitAny ELSE InitBuilt
Spec == Init /\ [][Next]_vars
WellFormed ==
  /\ frames[1].trust = "context" /\ frames[1].instr = frames[1].ip
  /\ \A k \in 2..Len(frames) :
       /\ frames[k].ip >= 4096 /\ frames[k].instr = frames[k].ip - Adj
       /\ frames[k].trust \in {"cfi", "scan"}
       /\ (frames[k].sp > frames[k - 1].sp \/ (k = 2 /\ frames[k].sp = frames[k - 1].sp))
       /\ frames[k].trust = "scan" => (Readable(frames[k].sp - Ptr) /\ Rd(frames[k].sp - Ptr) = frames[k].ip)
Bounded == Len(frames) <= MaxFrames
MatchesBuild == Mode = "built" =>
   /\ Len(frames) - 1 <= Len(expect)
   /\ \A k \in 2..Len(frames) : /\ frames[k].ip = expect[k - 1].ip /\ frames[k].sp = expect[k - 1].sp /\ frames[k].trust = expect[k - 1].trust
                                /\ (("fp" \in frames[k].valid) <=> expect[k - 1].fpKnown)
                                /\ (expect[k - 1].fpKnown => frames[k].fp = expect[k - 1].fp)
   /\ (done => Len(frames) - 1 = Len(expect))
Emit == (done \/ Len(frames) = NW * Ptr + 3) => PrintT(<<"CASE", ToJson([mem |-> mem, rule |-> rule, frames |-> frames, expect |-> expect])>>)
====
