SPECIFICATION Spec
CONSTANTS
  MaxLen = 5
  Tok = {"+","-","*","/","%","@","^",".cfa",".undef","drax","brbx","dnope","bnope","t7","tm1","t8","t0","t1","tmin","tmax","tbig","ttoolow","t4104","t16"}
INVARIANTS TypeOK MachineIsEval NoSelfCfa UndefFails Emit
CHECK_DEADLOCK FALSE
