SPECIFICATION Spec
CONSTANTS MaxThreads = 3
INVARIANTS ReqNotSkipped ReqPrefersException ExcContextOnlyForReq Emit
CHECK_DEADLOCK FALSE
