---- MODULE CfiRules ----
(***************************************************************************)
(* The STACK CFI *rule-set* layer (walker.rs module docs "STACK CFI" and     *)
(* "STACK CFI registers"; SymbolFile::walk_frame):                           *)
(*   - a STACK CFI INIT record covers [addr, addr+size); delta records       *)
(*     (STACK CFI addr rules) belong to the INIT they follow;                *)
(*   - for a lookup address, INIT applies, then every delta whose address    *)
(*     is <= the lookup address, in address order; a REG: EXPR pair          *)
(*     overrides an earlier pair for the same register ($reg and reg name    *)
(*     the same register);                                                   *)
(*   - .cfa and .ra are mandatory; the CFA is evaluated first, without       *)
(*     access to itself; then .ra; if either fails the whole unwind fails;   *)
(*   - every other register is set from its rule, or explicitly cleared      *)
(*     (marked unknown) when its rule fails.                                 *)
(* A behaviour of this module builds a rule set pair by pair; every state    *)
(* in which each record has at least one pair is a conformance case with     *)
(* the expected outcome at each lookup address.                              *)
(***************************************************************************)
EXTENDS CfiExpr, FiniteSets
CONSTANTS Extra            \* number of pairs added on top of the base INIT record

\* expression pool: token sequences over CfiExpr's alphabet
Pool == [ c8 |-> <<"drsp","t8","+">>,  c16 |-> <<"drsp","t16","+">>, cself |-> <<".cfa","t8","+">>, und |-> <<".undef">>,
          ra8 |-> <<".cfa","t8","-","^">>, k |-> <<"t4198400">>, bad |-> <<"t1","+">>,
          s16 |-> <<".cfa","t16","-","^">>, unk |-> <<"dnope">>, cal |-> <<"drbp">> ]
\* label spelling -> register (documented: "$" prefix is optional and names the same register)
Labels == [ Lcfa |-> "cfa", Lra |-> "ra", Ldrbx |-> "rbx", Lbrbx |-> "rbx", Ldrbp |-> "rbp" ]
P(l, e) == [l |-> l, e |-> e]
Pairs == {P("Lcfa", e) : e \in {"c8","c16","cself","und"}} \cup {P("Lra", e) : e \in {"ra8","k","bad"}}
         \cup {P("Ldrbx", e) : e \in {"s16","unk","und","k"}} \cup {P("Lbrbx", e) : e \in {"s16","und"}}
         \cup {P("Ldrbp", e) : e \in {"s16","cal"}}
BaseInits == { <<>>, <<P("Lcfa","c8"), P("Lra","ra8")>>, <<P("Lcfa","c16"), P("Lra","ra8"), P("Ldrbx","s16")>>,
               <<P("Lra","ra8")>>, <<P("Lcfa","c8")>>, <<P("Lcfa","c16"), P("Lra","k"), P("Lbrbx","und"), P("Ldrbp","cal")>> }
InitAddr == 256  InitSize == 256
DeltaAddrs == {272, 288}
Lookups == <<255, 256, 271, 272, 273, 287, 288, 511, 512>>

VARIABLES recs, added
vars == <<recs, added>>
Init == added = 0 /\ \E b \in BaseInits : recs = <<[addr |-> InitAddr, pairs |-> b]>>
AddPair == /\ added < Extra
           /\ \E p \in Pairs : recs' = [recs EXCEPT ![Len(recs)].pairs = Append(@, p)]
           /\ added' = added + 1
StartDelta == /\ added < Extra /\ Len(recs) < 3 /\ Len(recs[Len(recs)].pairs) >= 1
              /\ \E a \in DeltaAddrs : (\A i \in 1..Len(recs) : recs[i].addr # a) /\ recs' = Append(recs, [addr |-> a, pairs |-> <<>>])
              /\ UNCHANGED added
Next == AddPair \/ StartDelta
Spec == Init /\ [][Next]_vars

\* ---- documented semantics ----
Regs == {"cfa", "ra", "rbx", "rbp"}
\* records that apply at lookup address lk, in address order (INIT first; INIT has the smallest address here)
Applicable(lk) == LET idx == {i \in 1..Len(recs) : i = 1 \/ recs[i].addr <= lk} IN
   \* sort the (at most 3) indices by address
   LET RECURSIVE Sorted(_)
       Sorted(S) == IF S = {} THEN <<>> ELSE LET m == CHOOSE i \in S : \A j \in S : recs[i].addr <= recs[j].addr IN <<m>> \o Sorted(S \ {m})
   IN Sorted(idx)
RECURSIVE ApplyPairs(_,_,_)
ApplyPairs(m, ps, i) == IF i > Len(ps) THEN m ELSE ApplyPairs([m EXCEPT ![Labels[ps[i].l]] = ps[i].e], ps, i+1)
RECURSIVE ApplyRecs(_,_,_)
ApplyRecs(m, order, i) == IF i > Len(order) THEN m ELSE ApplyRecs(ApplyPairs(m, recs[order[i]].pairs, 1), order, i+1)
RuleMap(lk) == ApplyRecs([r \in Regs |-> "none"], Applicable(lk), 1)
\* Eval of every pool expression, tabulated once (TLC evaluates constant definitions a single time):
\* first without a CFA, then under each CFA value a pool expression can produce
CfaVals == {Eval(Pool[e], <<>>) : e \in DOMAIN Pool} \ {<<>>}
EvalNoCfa == [e \in DOMAIN Pool |-> Eval(Pool[e], <<>>)]
EvalWith == [c \in CfaVals |-> [e \in DOMAIN Pool |-> Eval(Pool[e], c)]]
Outcome(lk) ==
  IF lk < InitAddr \/ lk >= InitAddr + InitSize THEN [ok |-> FALSE, why |-> "norecord"]
  ELSE LET m == RuleMap(lk) IN
       IF m["cfa"] = "none" \/ m["ra"] = "none" THEN [ok |-> FALSE, why |-> "missing"]
       ELSE LET cfa == EvalNoCfa[m["cfa"]] IN
            IF cfa = <<>> THEN [ok |-> FALSE, why |-> "cfa"]
            ELSE LET ra == EvalWith[cfa][m["ra"]] IN
                 IF ra = <<>> THEN [ok |-> FALSE, why |-> "ra"]
                 ELSE LET others == {r \in {"rbx", "rbp"} : m[r] # "none"}
                          val(r) == EvalWith[cfa][m[r]] IN
                      [ok |-> TRUE, cfa |-> cfa, ra |-> ra,
                       set |-> [r \in {x \in others : val(x) # <<>>} |-> val(r)],
                       clear |-> {x \in others : val(x) = <<>>}]
Complete == \A i \in 1..Len(recs) : Len(recs[i].pairs) >= 1

\* ---- design-level properties ----
\* a successful unwind always has both mandatory rules, and the CFA never depends on itself
Mandatory == \A i \in 1..Len(Lookups) : Outcome(Lookups[i]).ok =>
                 (RuleMap(Lookups[i])["cfa"] \notin {"none", "cself", "und"} /\ RuleMap(Lookups[i])["ra"] # "none")
\* a delta never influences addresses below it
DeltaMonotone == \A i \in 1..Len(Lookups) : (\A j \in 2..Len(recs) : recs[j].addr > Lookups[i]) =>
                 RuleMap(Lookups[i]) = ApplyPairs([r \in Regs |-> "none"], recs[1].pairs, 1)
\* every non-special register with a rule is either set or cleared, never silently kept
SetOrCleared == \A i \in 1..Len(Lookups) : LET o == Outcome(Lookups[i]) m == RuleMap(Lookups[i]) IN
                 o.ok => \A r \in {"rbx","rbp"} : (m[r] # "none") <=> (r \in DOMAIN o.set \/ r \in o.clear)
Emit == Complete => PrintT(<<"CASE", ToJson([recs |-> recs, exp |-> [i \in 1..Len(Lookups) |-> [lk |-> Lookups[i], out |-> Outcome(Lookups[i])]]])>>)
====
