---- MODULE CfiRules ----
(***************************************************************************)
(* The STACK CFI *rule-set* layer (walker.rs module docs "STACK CFI" and     *)
(* "STACK CFI registers"; SymbolFile::walk_frame):                           *)
(*   - a STACK CFI INIT record covers [addr, addr+size); delta records       *)
(*     (STACK CFI addr rules) belong to the INIT they follow;                *)
(*   - for a lookup address, INIT applies, then every delta whose address    *)
(*     is <= the lookup address, in address order; a REG: EXPR pair          *)
(*     overrides an earlier pair for the same register ($reg and reg name    *)
(*     the same register);                                                   *)
(*   - .cfa and .ra are mandatory; the CFA is evaluated first, without       *)
(*     access to itself; then .ra; if either fails the whole unwind fails;   *)
(*   - every other register is set from its rule, or explicitly cleared      *)
(*     (marked unknown) when its rule fails.                                 *)
(* A behaviour of this module builds a rule set pair by pair; every state    *)
(* in which each record has at least one pair is a conformance case with     *)
(* the expected outcome at each lookup address.                              *)
(***************************************************************************)
EXTENDS CfiExpr, FiniteSets
CONSTANTS Extra            \* number of pairs added on top of the base INIT record

\* expression pool: token sequences over CfiExpr's alphabet
Pool == [ c8 |-> <<"drsp","t8","+">>,  c16 |-> <<"drsp","t16","+">>, cself |-> <<".cfa","t8","+">>, und |-> <<".undef">>,
          ra8 |-> <<".cfa","t8","-","^">>, k |-> <<"t4198400">>, bad |-> <<"t1","+">>,
          s16 |-> <<".cfa","t16","-","^">>, unk |-> <<"dnope">>, cal |-> <<"drbp">> ]
\* label spelling -> register (documented: "$" prefix is optional and names the same register)
\* "$.cfa:" and "$.ra:" are NOT the CFA / return-address labels: they name registers that do not exist, and their rules have no effect
Labels == [ Lcfa |-> "cfa", Lra |-> "ra", Ldrbx |-> "rbx", Lbrbx |-> "rbx", Ldrbp |-> "rbp", Ljcfa |-> "jcfa", Ljra |-> "jra" ]
P(l, e) == [l |-> l, e |-> e]
Pairs == {P("Lcfa", e) : e \in {"c8","c16","cself","und"}} \cup {P("Lra", e) : e \in {"ra8","k","bad"}}
         \cup {P("Ldrbx", e) : e \in {"s16","unk","und","k"}} \cup {P("Lbrbx", e) : e \in {"s16","und"}}
         \cup {P("Ldrbp", e) : e \in {"s16","cal"}} \cup {P("Ljcfa", e) : e \in {"c16","und"}} \cup {P("Ljra", e) : e \in {"k","bad"}}
BaseInits == { <<>>, <<P("Lcfa","c8"), P("Lra","ra8")>>, <<P("Lcfa","c16"), P("Lra","ra8"), P("Ldrbx","s16")>>,
               <<P("Lra","ra8")>>, <<P("Lcfa","c8")>>, <<P("Lcfa","c16"), P("Lra","k"), P("Lbrbx","und"), P("Ldrbp","cal")>>,
               <<P("Ljcfa","c8"), P("Ljra","ra8")>>, <<P("Lcfa","c8"), P("Lra","ra8"), P("Ljcfa","c16"), P("Ljra","k")>> }
InitAddr == 256  InitSize == 256
DeltaAddrs == {272, 288}
Lookups == <<255, 256, 271, 272, 273, 287, 288, 511, 512>>

VARIABLES recs, added
vars == <<recs, added>>
Init == added = 0 /\ \E b \in BaseInits : recs = <<[addr |-> InitAddr, pairs |-> b]>>
AddPair == /\ added < Extra
           /\ \E p \in Pairs : recs' = [recs EXCEPT ![Len(recs)].pairs = Append(@, p)]
           /\ added' = added + 1
StartDelta == /\ added < Extra /\ Len(recs) < 3 /\ Len(recs[Len(recs)].pairs) >= 1
              /\ \E a \in DeltaAddrs : recs' = Append(recs, [addr |-> a, pairs |-> <<>>])     \* the same address may repeat
              /\ UNCHANGED added
Next == AddPair \/ StartDelta
Spec == Init /\ [][Next]_vars

\* ---- documented semantics ----
Regs == {"cfa", "ra", "rbx", "rbp", "jcfa", "jra"}
\* Orders in which the records applying at lookup address lk may be applied: INIT first, then the deltas
\* with address <= lk by ascending address.  Deltas with EQUAL addresses have no documented relative
\* order, so both orders are considered; the outcome is specified only when they agree.
Orders(lk) == LET D == {i \in 2..Len(recs) : recs[i].addr <= lk} IN
   IF D = {} THEN {<<1>>}
   ELSE IF Cardinality(D) = 1 THEN {<<1, CHOOSE i \in D : TRUE>>}
   ELSE \* exactly two deltas (Len(recs) <= 3)
        IF recs[2].addr < recs[3].addr THEN {<<1, 2, 3>>}
        ELSE IF recs[3].addr < recs[2].addr THEN {<<1, 3, 2>>}
        ELSE {<<1, 2, 3>>, <<1, 3, 2>>}
RECURSIVE ApplyPairs(_,_,_)
ApplyPairs(m, ps, i) == IF i > Len(ps) THEN m ELSE ApplyPairs([m EXCEPT ![Labels[ps[i].l]] = ps[i].e], ps, i+1)
RECURSIVE ApplyRecs(_,_,_)
ApplyRecs(m, order, i) == IF i > Len(order) THEN m ELSE ApplyRecs(ApplyPairs(m, recs[order[i]].pairs, 1), order, i+1)
RuleMapO(order) == ApplyRecs([r \in Regs |-> "none"], order, 1)
\* Eval of every pool expression, tabulated once (TLC evaluates constant definitions a single time):
\* first without a CFA, then under each CFA value a pool expression can produce
CfaVals == {Eval(Pool[e], <<>>) : e \in DOMAIN Pool} \ {<<>>}
EvalNoCfa == [e \in DOMAIN Pool |-> Eval(Pool[e], <<>>)]
EvalWith == [c \in CfaVals |-> [e \in DOMAIN Pool |-> Eval(Pool[e], c)]]
OutcomeO(lk, order) ==
  IF lk < InitAddr \/ lk >= InitAddr + InitSize THEN [ok |-> FALSE, why |-> "norecord"]
  ELSE LET m == RuleMapO(order) IN
       IF m["cfa"] = "none" \/ m["ra"] = "none" THEN [ok |-> FALSE, why |-> "missing"]
       ELSE LET cfa == EvalNoCfa[m["cfa"]] IN
            IF cfa = <<>> THEN [ok |-> FALSE, why |-> "cfa"]
            ELSE LET ra == EvalWith[cfa][m["ra"]] IN
                 IF ra = <<>> THEN [ok |-> FALSE, why |-> "ra"]
                 ELSE LET others == {r \in {"rbx", "rbp"} : m[r] # "none"}
                          val(r) == EvalWith[cfa][m[r]] IN
                      [ok |-> TRUE, cfa |-> cfa, ra |-> ra,
                       set |-> [r \in {x \in others : val(x) # <<>>} |-> val(r)],
                       clear |-> {x \in others : val(x) = <<>>}]
Outcomes(lk) == {OutcomeO(lk, o) : o \in Orders(lk)}
Outcome(lk) == IF Cardinality(Outcomes(lk)) = 1 THEN CHOOSE o \in Outcomes(lk) : TRUE ELSE [ok |-> FALSE, why |-> "unspecified"]
RuleMap(lk) == RuleMapO(CHOOSE o \in Orders(lk) : TRUE)
Specified(lk) == Cardinality(Outcomes(lk)) = 1 /\ Cardinality({RuleMapO(o) : o \in Orders(lk)}) = 1
Complete == \A i \in 1..Len(recs) : Len(recs[i].pairs) >= 1

\* ---- design-level properties ----
\* a successful unwind always has both mandatory rules, and the CFA never depends on itself
Mandatory == \A i \in 1..Len(Lookups) : (Specified(Lookups[i]) /\ Outcome(Lookups[i]).ok) =>
                 (RuleMap(Lookups[i])["cfa"] \notin {"none", "cself", "und"} /\ RuleMap(Lookups[i])["ra"] # "none")
\* a delta never influences addresses below it
DeltaMonotone == \A i \in 1..Len(Lookups) : (\A j \in 2..Len(recs) : recs[j].addr > Lookups[i]) =>
                 RuleMap(Lookups[i]) = ApplyPairs([r \in Regs |-> "none"], recs[1].pairs, 1)
\* every non-special register with a rule is either set or cleared, never silently kept
SetOrCleared == \A i \in 1..Len(Lookups) : LET o == Outcome(Lookups[i]) m == RuleMap(Lookups[i]) IN
                 (Specified(Lookups[i]) /\ o.ok) => \A r \in {"rbx","rbp"} : (m[r] # "none") <=> (r \in DOMAIN o.set \/ r \in o.clear)
Emit == Complete => PrintT(<<"CASE", ToJson([recs |-> recs, exp |-> [i \in 1..Len(Lookups) |-> [lk |-> Lookups[i], out |-> Outcome(Lookups[i])]]])>>)
====
