SPECIFICATION Spec
CONSTANTS
  NW = 28
  Mode = "built"
  MaxDepth = 4
  Pads = {0, 1}
  Bits = 64
INVARIANTS WellFormed Bounded MatchesBuild Emit
CHECK_DEADLOCK FALSE
