SPECIFICATION Spec
CONSTANTS
  InitCap = 2
  MaxCap = 32
  Repaired = TRUE
  LineLens = {1, 3, 15}
  MaxLines = 3
  TailLens = {0, 1, 2}
INVARIANTS WindowBounded OkMeansAll ChunkIndependent Beh
VIEW View
CHECK_DEADLOCK FALSE
