SPECIFICATION Spec
CONSTANTS
  Tasks <- T3
  Keys <- K3
  Configs <- ConfigsQuick
  HoldAcrossAwait = TRUE
  MaxSteps = 9
INVARIANTS AtMostOnce SameOutcome Counters Emit
CHECK_DEADLOCK FALSE
