SPECIFICATION Spec
INVARIANT Inv
POSTCONDITION PostOk
CHECK_DEADLOCK FALSE
