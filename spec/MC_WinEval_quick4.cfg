SPECIFICATION Spec
CONSTANTS
  MaxLen = 4
  Tok = {"+","-","*","/","%","@","=","^",".undef","$T0","$eip","$esp","$ebp","$ebx","$edi",".raSearch",".cbLocals",".cbParams","l4","lm1","l8","=l4","$nope"}
  InstIds = {"normal"}
  Prefixes <- PrefixesNone
INVARIANTS TypeOK OnlyOuts NoImplicit Emit
CHECK_DEADLOCK FALSE
