SPECIFICATION Spec
CONSTANTS
  Clients = {"a"}
  N = 3
  MaxUrls = 1
  Statuses = {200, 404, 500}
  DropPts = {0, 1, 2, 3, 4, 5}
  TmpOks = {TRUE, FALSE}
  MoveOks = {TRUE, FALSE}
  CacheOks = {TRUE, FALSE}
  Kinds = {"sym", "file"}
  Pres = {TRUE, FALSE}
INVARIANTS TypeOK CacheComplete NoStrayTemp NoEntryOnFailure AloneFailedLeavesNothing Emit
CHECK_DEADLOCK FALSE
