SPECIFICATION Spec
INVARIANTS Prop Emit
CHECK_DEADLOCK FALSE
