SPECIFICATION Spec
CONSTANTS
  NW = 30
  Mode = "built"
  MaxDepth = 5
  Pads = {0, 1, 29}
  WinClearNoop = TRUE
INVARIANTS WellFormed Bounded MatchesBuild Emit
CHECK_DEADLOCK FALSE
