SPECIFICATION Spec
CONSTANTS MaxLines = 2
INVARIANTS DiscardedNeverAnswers FpoIsNoFallback Emit
CHECK_DEADLOCK FALSE
