SPECIFICATION Spec
CONSTANTS
  NW = 3
  Mode = "any"
  MaxDepth = 1
  Pads = {0}
  Arch = "arm"
  Os = "ios"
  AliasAware = TRUE
INVARIANTS WellFormed Bounded Emit
CHECK_DEADLOCK FALSE
