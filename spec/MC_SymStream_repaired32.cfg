SPECIFICATION Spec
CONSTANTS
  InitCap = 2
  MaxCap = 16
  MaxLen = 11
  Bytes = {"x", "n"}
  Repaired = TRUE
INVARIANTS WindowBounded Terminates OkMeansAll ChunkIndependent LongLineDropped LongLineOk
CHECK_DEADLOCK FALSE
