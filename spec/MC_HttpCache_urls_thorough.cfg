SPECIFICATION Spec
CONSTANTS
  Clients = {"a"}
  N = 2
  MaxUrls = 3
  Statuses = {200, 404}
  DropPts = {3}
  TmpOks = {TRUE}
  MoveOks = {TRUE, FALSE}
  CacheOks = {TRUE}
  Kinds = {"sym", "file"}
  Pres = {FALSE}
INVARIANTS TypeOK CacheComplete NoStrayTemp NoEntryOnFailure AloneFailedLeavesNothing Emit
CHECK_DEADLOCK FALSE
