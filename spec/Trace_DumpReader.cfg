SPECIFICATION TSpec
POSTCONDITION PostOk
CHECK_DEADLOCK FALSE
