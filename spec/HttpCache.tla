---- MODULE HttpCache ----
(***************************************************************************)
(* HttpSymbolSupplier's download-and-cache protocol (breakpad-symbols        *)
(* http.rs: locate_symbols / locate_file_internal, fetch_symbol_file,        *)
(* fetch_lookup, create_cache_file, commit_cache_file; sym_file/mod.rs        *)
(* parse_async tee-ing every consumed byte through the data callback).        *)
(*                                                                           *)
(* One cache path (one module, one file kind); the clients share it.  The    *)
(* environment of a behaviour: is there an entry already (pre), can a temp   *)
(* file be created (tmpOk), can the entry's directory be created (cacheOk),  *)
(* the kind of file ("sym": parsed while streamed, URL note appended;        *)
(* "file": a binary / debug file fetched opaquely by fetch_lookup).  Each    *)
(* client has one script per configured symbol URL: HTTP status, how many    *)
(* of the N body chunks arrive before the connection is cut (N = complete),  *)
(* which chunk (if any) makes the parser fail, and the await point at which  *)
(* the caller drops the future (if any).                                     *)
(*                                                                           *)
(* Steps of a client (one action per await point / file-system effect):      *)
(*   Local   look in the local paths and the cache first (a hit ends it)     *)
(*   Send    GET url[idx]; non-2xx => this URL failed                        *)
(*   Chunk   one chunk: parsed and written to the temp file                  *)
(*   End     body complete => commit; cut short => this URL failed           *)
(*   Note    append the URL note          (sym only)                         *)
(*   Remove  remove an existing entry      (sym only; "TODO: don't do this") *)
(*   Persist persist_noclobber; when the move cannot succeed nothing is      *)
(*           cached and no temp file stays behind                             *)
(*   NextUrl a failed URL: the NamedTempFile is dropped (deleted), the next  *)
(*           URL is tried; after the last one the lookup is NotFound         *)
(*   Drop    the future is dropped at an await point: temp file deleted      *)
(* C16: CacheComplete, NoStrayTemp, NoEntryOnFailure, ServedFromCache.       *)
(***************************************************************************)
EXTENDS Naturals, Sequences, TLC, FiniteSets, Json
CONSTANTS Clients, N, MaxUrls, Statuses, DropPts, TmpOks, CacheOks, MoveOks, Kinds, Pres
VARIABLES cache, tmp, pc, got, idx, script, env, out
vars == <<cache, tmp, pc, got, idx, script, env, out>>
NeverDrop == N + 1
DropAtSend == N + 2     \* dropAt = k in 0..N: dropped while waiting for more body after k chunks
Absent == [present |-> FALSE, bytes |-> 0, note |-> FALSE, by |-> "none", url |-> 0]
NoTmp == [open |-> FALSE, bytes |-> 0, note |-> FALSE]
Scripts == [status : Statuses, cut : 0..N, badAt : 0..N, dropAt : DropPts]
\* moveOk: the final move of the temp file into the cache can succeed (same file system, directory still there)
Envs == [pre : Pres, tmpOk : TmpOks, cacheOk : CacheOks, moveOk : MoveOks, kind : Kinds]
Complete(e) == e.present /\ e.bytes = N /\ (e.note <=> env.kind = "sym")
SeqsUpTo(S, n) == UNION {[1..k -> S] : k \in 1..n}
Init == /\ env \in Envs
        /\ cache = IF env.pre THEN [present |-> TRUE, bytes |-> N, note |-> env.kind = "sym", by |-> "pre", url |-> 0] ELSE Absent
        /\ tmp = [c \in Clients |-> NoTmp] /\ pc = [c \in Clients |-> "local"] /\ got = [c \in Clients |-> 0]
        /\ idx = [c \in Clients |-> 1] /\ out = [c \in Clients |-> <<>>]
        /\ script \in [Clients -> SeqsUpTo(Scripts, MaxUrls)]
S(c) == script[c][idx[c]]
\* this URL failed: temp file gone, remember why, go on with the next URL (or give up)
FailUrl(c, why) == /\ tmp' = [tmp EXCEPT ![c] = NoTmp] /\ out' = [out EXCEPT ![c] = Append(@, why)]
                   /\ pc' = [pc EXCEPT ![c] = "nexturl"] /\ UNCHANGED <<got, idx>>
Local(c) == /\ pc[c] = "local"
            /\ pc' = [pc EXCEPT ![c] = IF cache.present THEN "hit" ELSE "send"]
            /\ UNCHANGED <<cache, tmp, got, idx, script, env, out>>
WantsDrop(c, where) == S(c).dropAt = where
Send(c) == /\ pc[c] = "send" /\ ~WantsDrop(c, DropAtSend) /\ UNCHANGED <<cache, script, env>>
           /\ IF S(c).status # 200 THEN FailUrl(c, "http_error")
              ELSE IF env.kind = "file" /\ ~(env.tmpOk /\ env.cacheOk) THEN FailUrl(c, "no_temp")      \* fetch_lookup: create_cache_file(..)?
              ELSE /\ pc' = [pc EXCEPT ![c] = "stream"] /\ UNCHANGED <<got, idx, out>>
                   /\ tmp' = [tmp EXCEPT ![c] = IF env.tmpOk /\ env.cacheOk THEN [open |-> TRUE, bytes |-> 0, note |-> FALSE] ELSE NoTmp]
Chunk(c) == /\ pc[c] = "stream" /\ got[c] < S(c).cut /\ ~WantsDrop(c, got[c]) /\ UNCHANGED <<cache, script, env>>
            /\ IF env.kind = "sym" /\ S(c).badAt = got[c] + 1 THEN FailUrl(c, "parse_error")
               ELSE /\ tmp' = [tmp EXCEPT ![c] = IF ~@.open THEN @ ELSE [@ EXCEPT !.bytes = @ + 1]]      \* tee through the callback
                    /\ got' = [got EXCEPT ![c] = @ + 1]
                    /\ UNCHANGED <<pc, idx, out>>
End(c) == /\ pc[c] = "stream" /\ got[c] = S(c).cut /\ ~WantsDrop(c, got[c]) /\ UNCHANGED <<cache, script, env>>
          /\ IF S(c).cut < N THEN FailUrl(c, "io_error")                       \* connection cut
             ELSE /\ pc' = [pc EXCEPT ![c] = IF ~tmp[c].open THEN "ok_uncached" ELSE IF env.kind = "sym" THEN "note" ELSE "persist"]
                  /\ UNCHANGED <<tmp, got, idx, out>>
Note(c) == /\ pc[c] = "note" /\ tmp' = [tmp EXCEPT ![c] = [@ EXCEPT !.note = TRUE]] /\ pc' = [pc EXCEPT ![c] = "remove"]
           /\ UNCHANGED <<cache, got, idx, script, env, out>>
Remove(c) == /\ pc[c] = "remove" /\ cache' = Absent /\ pc' = [pc EXCEPT ![c] = "persist"] /\ UNCHANGED <<tmp, got, idx, script, env, out>>
Persist(c) == /\ pc[c] = "persist" /\ UNCHANGED <<got, script, env>>
              /\ IF ~env.moveOk
                 THEN \* the move fails: the temp file is deleted with its handle, nothing is cached; a parsed symbol file is still the
                      \* lookup's answer (the failure is only logged), a binary has no path to return and the URL counts as failed
                      IF env.kind = "sym" THEN /\ tmp' = [tmp EXCEPT ![c] = NoTmp] /\ pc' = [pc EXCEPT ![c] = "ok_commit_failed"] /\ UNCHANGED <<cache, idx, out>>
                      ELSE FailUrl(c, "persist_error") /\ UNCHANGED cache
                 ELSE IF ~cache.present
                 THEN /\ cache' = [present |-> TRUE, bytes |-> tmp[c].bytes, note |-> tmp[c].note, by |-> c, url |-> idx[c]]
                      /\ tmp' = [tmp EXCEPT ![c] = NoTmp] /\ pc' = [pc EXCEPT ![c] = "ok_cached"] /\ UNCHANGED <<idx, out>>
                 ELSE /\ UNCHANGED <<cache, idx, out>> /\ tmp' = [tmp EXCEPT ![c] = NoTmp]
                      /\ pc' = [pc EXCEPT ![c] = IF env.kind = "sym" THEN "ok_lost_race" ELSE "file_lost_race"]
                      \* sym: persist_noclobber refused, result still Ok.  file: the error is returned; modelled as terminal
                      \* (the code would try the next URL; only reachable with two clients)
NextUrl(c) == /\ pc[c] = "nexturl" /\ UNCHANGED <<cache, tmp, script, env, out>>
              /\ IF idx[c] < Len(script[c])
                 THEN idx' = [idx EXCEPT ![c] = @ + 1] /\ got' = [got EXCEPT ![c] = 0] /\ pc' = [pc EXCEPT ![c] = "send"]
                 ELSE pc' = [pc EXCEPT ![c] = "notfound"] /\ UNCHANGED <<idx, got>>
Drop(c) == /\ \/ (pc[c] = "send" /\ WantsDrop(c, DropAtSend))
              \/ (pc[c] = "stream" /\ WantsDrop(c, got[c]))
           /\ pc' = [pc EXCEPT ![c] = "dropped"] /\ tmp' = [tmp EXCEPT ![c] = NoTmp]
           /\ UNCHANGED <<cache, got, idx, script, env, out>>      \* only at await points
Next == \E c \in Clients : Local(c) \/ Send(c) \/ Chunk(c) \/ End(c) \/ Note(c) \/ Remove(c) \/ Persist(c) \/ NextUrl(c) \/ Drop(c)
Spec == Init /\ [][Next]_vars
TerminalPcs == {"hit", "notfound", "ok_uncached", "ok_cached", "ok_lost_race", "ok_commit_failed", "file_lost_race", "dropped"}
Terminal(c) == pc[c] \in TerminalPcs
AllTerminal == \A c \in Clients : Terminal(c)
\* ---- C16 ----
CacheComplete == ~cache.present \/ Complete(cache)
NoStrayTemp == \A c \in Clients : Terminal(c) => ~tmp[c].open
NoEntryOnFailure == \A c \in Clients : (cache.present /\ cache.by = c) => (pc[c] = "ok_cached" /\ cache.url = idx[c])
\* a client that found nothing leaves the cache as it found it (single-client reading of "failed downloads leave no entry")
AloneFailedLeavesNothing == (Cardinality(Clients) = 1) => \A c \in Clients : pc[c] \in {"notfound", "dropped", "ok_uncached", "ok_commit_failed"} => ~cache.present
TypeOK == /\ pc \in [Clients -> TerminalPcs \cup {"local", "send", "stream", "note", "remove", "persist", "nexturl"}]
          /\ \A c \in Clients : got[c] \in 0..N /\ idx[c] \in 1..Len(script[c]) /\ Len(out[c]) < idx[c] + 1
Emit == AllTerminal => PrintT(<<"CASE", ToJson([env |-> env, script |-> script, pc |-> pc, cache |-> cache, idx |-> idx, out |-> out])>>)
====
