SPECIFICATION Spec
CONSTANTS MaxRecs = 17
INVARIANTS BasesBelow CoversOrPublic Nested Emit
CHECK_DEADLOCK FALSE
