SPECIFICATION Spec
CONSTANTS
  Tasks <- T3
  Keys <- K3
  Configs <- ConfigsQuick
  HoldAcrossAwait = TRUE
  MaxSteps = 40
INVARIANTS AtMostOnce SameOutcome Counters Progressive LockSane
VIEW View
CHECK_DEADLOCK FALSE
