SPECIFICATION Spec
CONSTANTS MaxLines = 3
INVARIANTS DiscardedNeverAnswers FpoIsNoFallback Emit
CHECK_DEADLOCK FALSE
