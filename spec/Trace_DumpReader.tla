---- MODULE Trace_DumpReader ----
(***************************************************************************)
(* C01 on the real reader.  One record per (generator, input length,         *)
(* outcome) group of executed cases, carrying the worst allocation peak of   *)
(* the group, and one record per case that did not end in Ok / Err.          *)
(* outcome: "ok" (the file opened; every stream request returned Ok or Err   *)
(* and everything printed), "err" (Minidump::read returned Err), "panic",   *)
(* "abort" (the allocator was asked for more than the bound below and        *)
(* refused), "hang" (no answer within the watchdog's 30 s).                  *)
(*   Total      : outcome is ok or err                                       *)
(*   AllocBound : peak <= 8 MiB + 256 L + L^2                                *)
(* compared in KiB with the peak rounded down and the bound rounded up, so   *)
(* the monitor never demands more than the statement (32-bit TLC integers).  *)
(* For cases generated from DumpReader.tla the record also carries the       *)
(* model's predicted result for the stream and the observed one: a           *)
(* difference is DRIFT (the model, not the property).                        *)
(***************************************************************************)
EXTENDS Naturals, Sequences, TLC, Json, IOUtils
Rec == ndJsonDeserialize(IOEnv.VERIF_TRACE)
VARIABLE l
BoundKiB(len) == 8192 + (len \div 4) + 1 + ((len \div 1024) + 1) * len
Verdict(i, r) ==
  /\ (r.outcome \notin {"ok", "err"} => PrintT(<<"VERDICT", i, "Total">>))
  /\ ((r.peak \div 1024) > BoundKiB(r.len) => PrintT(<<"VERDICT", i, "AllocBound">>))
  /\ ((r.pred \in {"ok", "err", "read_err"} /\ r.pred # r.obs) => PrintT(<<"DRIFT", i, r.pred, r.obs>>))
TInit == l = 1
TNext == l <= Len(Rec) /\ Verdict(l, Rec[l]) /\ l' = l + 1
TSpec == TInit /\ [][TNext]_l
PostOk == /\ PrintT(<<"TRACE", "matched", TLCGet("stats").diameter - 1, "of", Len(Rec)>>)
          /\ TLCGet("stats").diameter - 1 = Len(Rec)
====
