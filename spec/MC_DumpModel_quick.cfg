SPECIFICATION Spec
CONSTANTS
  Facets = {"modules", "threads", "memory", "directory", "names", "misc", "crashpad", "sysinfo"}
  MaxDir = 3
INVARIANTS TypeOK ServedIsLast ServedMonotone Emit
CHECK_DEADLOCK FALSE
