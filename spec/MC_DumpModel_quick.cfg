SPECIFICATION Spec
CONSTANTS
  Facets = {"modules", "threads", "memory", "directory", "names", "misc"}
  MaxDir = 3
INVARIANTS TypeOK ServedIsLast ServedMonotone Emit
CHECK_DEADLOCK FALSE
