SPECIFICATION Spec
CONSTANTS
  Esps = {"v4096", "v4100", "v4", "v0", "top8"}
  Saveds = {"v0", "v4", "v8", "h7", "ff"}
  Locals = {"v0", "v4", "v8", "v12", "h8", "ff"}
  Gcs = {"nogc", "v0", "v12", "ff"}
INVARIANTS Progress OnlyDocumented Emit
CHECK_DEADLOCK FALSE
