---- MODULE Words ----
(***************************************************************************)
(* Exact unsigned arithmetic on N*16-bit words (N = 2: u32, N = 4: u64)     *)
(* represented as little-endian sequences of 16-bit limbs.  TLC integers    *)
(* are Java ints, so everything that can exceed 2^31-1 goes through here.   *)
(* Self-tested against Rust's wrapping arithmetic by MC_Words (see ./check  *)
(* WORDS self-test, run as part of C06/C07).                                *)
(***************************************************************************)
EXTENDS Naturals, Sequences
B == 65536
Zero(n) == [i \in 1..n |-> 0]
FromSmall(v, n) == [i \in 1..n |-> IF i = 1 THEN v % B ELSE IF i = 2 THEN (v \div B) % B ELSE 0]   \* 0 <= v < 2^31
IsSmall(a) == (\A i \in 3..Len(a) : a[i] = 0) /\ (Len(a) < 2 \/ a[2] < 16384)                   \* a < 2^30
ToSmall(a) == a[1] + (IF Len(a) >= 2 THEN a[2] * B ELSE 0)
AllOnes(n) == [i \in 1..n |-> B - 1]
RECURSIVE AddC(_,_,_,_)
AddC(a, b, i, c) == IF i > Len(a) THEN <<>> ELSE LET s == a[i] + b[i] + c IN <<s % B>> \o AddC(a, b, i+1, s \div B)
Add(a, b) == AddC(a, b, 1, 0)
RECURSIVE CarryOut(_,_,_,_)
CarryOut(a, b, i, c) == IF i > Len(a) THEN c ELSE CarryOut(a, b, i+1, (a[i] + b[i] + c) \div B)
AddOverflows(a, b) == CarryOut(a, b, 1, 0) = 1            \* checked_add would be None
RECURSIVE SubC(_,_,_,_)
SubC(a, b, i, br) == IF i > Len(a) THEN <<>> ELSE LET s == a[i] + B - b[i] - br IN <<s % B>> \o SubC(a, b, i+1, IF s < B THEN 1 ELSE 0)
Sub(a, b) == SubC(a, b, 1, 0)
RECURSIVE CmpI(_,_,_)
CmpI(a, b, i) == IF i = 0 THEN 1 ELSE IF a[i] < b[i] THEN 0 ELSE IF a[i] > b[i] THEN 2 ELSE CmpI(a, b, i-1)
Lt(a, b) == CmpI(a, b, Len(a)) = 0
Le(a, b) == CmpI(a, b, Len(a)) # 2
IsZero(a) == \A i \in 1..Len(a) : a[i] = 0
RECURSIVE MulByte(_,_,_,_,_)   \* (a * m) << (16*sh), m < 256, truncated to Len(a) limbs
MulByte(a, m, i, c, sh) == IF i > Len(a) THEN <<>> ELSE
     IF i <= sh THEN <<0>> \o MulByte(a, m, i+1, 0, sh)
     ELSE LET s == a[i-sh] * m + c IN <<s % B>> \o MulByte(a, m, i+1, s \div B, sh)
RECURSIVE Shl8C(_,_,_)
Shl8C(a, i, c) == IF i > Len(a) THEN <<>> ELSE LET s == a[i] * 256 + c IN <<s % B>> \o Shl8C(a, i+1, s \div B)
RECURSIVE MulAcc(_,_,_,_)
MulAcc(a, b, j, acc) == IF j > Len(b) THEN acc ELSE
   MulAcc(a, b, j+1, Add(Add(acc, MulByte(a, b[j] % 256, 1, 0, j-1)), Shl8C(MulByte(a, b[j] \div 256, 1, 0, j-1), 1, 0)))
Mul(a, b) == IF IsSmall(a) /\ IsSmall(b) /\ ToSmall(a) < 32768 /\ ToSmall(b) < 32768 THEN FromSmall(ToSmall(a) * ToSmall(b), Len(a))
             ELSE MulAcc(a, b, 1, Zero(Len(a)))
RECURSIVE Shl1C(_,_,_)
Shl1C(a, i, c) == IF i > Len(a) THEN <<>> ELSE LET s == a[i] * 2 + c IN <<s % B>> \o Shl1C(a, i+1, s \div B)
Bit(a, k) == (a[(k \div 16) + 1] \div (2 ^ (k % 16))) % 2
SetBit0(a, b) == [a EXCEPT ![1] = (a[1] - (a[1] % 2)) + b]
RECURSIVE DivI(_,_,_,_,_)
DivI(a, d, k, q, r) == IF k < 0 THEN <<q, r>> ELSE
   LET r2full == Shl1C(r, 1, 0)                    \* r < d so r*2+1 may exceed the word only if d > 2^(w-1); handled by carry below
       r2 == SetBit0(r2full, Bit(a, k))
       carry == Bit(r, Len(r) * 16 - 1) = 1         \* the shifted-out bit: then r2 (true value) >= 2^w > d
       ge == carry \/ ~Lt(r2, d)
   IN DivI(a, d, k-1, SetBit0(Shl1C(q, 1, 0), IF ge THEN 1 ELSE 0), IF ge THEN Sub(r2, d) ELSE r2)
DivMod(a, d) == IF IsSmall(a) /\ IsSmall(d) THEN <<FromSmall(ToSmall(a) \div ToSmall(d), Len(a)), FromSmall(ToSmall(a) % ToSmall(d), Len(a))>>
                ELSE DivI(a, d, Len(a) * 16 - 1, Zero(Len(a)), Zero(Len(a)))
Div(a, d) == DivMod(a, d)[1]
Mod(a, d) == DivMod(a, d)[2]
RECURSIVE PopLimbR(_,_)
PopLimbR(v, k) == IF k = 0 THEN 0 ELSE (v % 2) + PopLimbR(v \div 2, k-1)
RECURSIVE PopFrom(_,_)
PopFrom(a, i) == IF i > Len(a) THEN 0 ELSE PopLimbR(a[i], 16) + PopFrom(a, i+1)
PopCount(a) == PopFrom(a, 1)
IsPow2(a) == PopCount(a) = 1
AlignDown(a, p) == Sub(a, Mod(a, p))                \* a & ~(p-1) for p a power of two
Neg(a) == Sub(Zero(Len(a)), a)
\* bitwise xor with a single bit
FlipBit(a, k) == LET li == (k \div 16) + 1  w == 2 ^ (k % 16) IN
   [a EXCEPT ![li] = IF (a[li] \div w) % 2 = 1 THEN a[li] - w ELSE a[li] + w]
====
