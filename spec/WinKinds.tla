---- MODULE WinKinds ----
(***************************************************************************)
(* Which unwind record of a symbol file answers for an address              *)
(* (parser.rs stack_win_line; SymbolFile::walk_frame):                       *)
(*   - a STACK WIN line yields a record only when its type and its           *)
(*     has_program_string flag agree: type 4 with a program string is frame  *)
(*     data, type 0 without one is an FPO record; every other combination    *)
(*     (types 1, 2, 3, ...; a flag that contradicts the type) is discarded;  *)
(*   - of several records of one kind over the same range the first one in   *)
(*     the file stays;                                                       *)
(*   - frame data is preferred over FPO; the record chosen is evaluated, and *)
(*     only if that fails (or there is none) STACK CFI is consulted; an FPO  *)
(*     record is never a fall-back for failed frame data.                    *)
(* A behaviour writes the file line by line; every state is a file.          *)
(***************************************************************************)
EXTENDS Naturals, Sequences, TLC, Json, FiniteSets
CONSTANTS MaxLines
Types == {"0", "1", "2", "3", "4"}
\* good: whether evaluating the record (were it kept) succeeds on the test stack
Line == [ty : Types, hps : BOOLEAN, good : BOOLEAN]
VARIABLES lines, cfi
vars == <<lines, cfi>>
Init == lines = <<>> /\ cfi = FALSE
AddLine == Len(lines) < MaxLines /\ \E l \in Line : lines' = Append(lines, l) /\ UNCHANGED cfi
AddCfi == ~cfi /\ cfi' = TRUE /\ UNCHANGED lines
Next == AddLine \/ AddCfi
Spec == Init /\ [][Next]_vars
KindOf(l) == IF l.ty = "4" /\ l.hps THEN "framedata" ELSE IF l.ty = "0" /\ ~l.hps THEN "fpo" ELSE "discarded"
Of(k) == {i \in 1..Len(lines) : KindOf(lines[i]) = k}
First(k) == CHOOSE i \in Of(k) : \A j \in Of(k) : i <= j
Chosen == IF Of("framedata") # {} THEN First("framedata") ELSE IF Of("fpo") # {} THEN First("fpo") ELSE 0
Answer == IF Chosen # 0 /\ lines[Chosen].good THEN KindOf(lines[Chosen]) ELSE IF cfi THEN "cfi" ELSE "none"
\* ---- design-level properties ----
DiscardedNeverAnswers == Answer \in {"framedata", "fpo"} => KindOf(lines[Chosen]) = Answer
FpoIsNoFallback == (Of("framedata") # {} /\ ~lines[First("framedata")].good) => Answer \in {"cfi", "none"}
Emit == PrintT(<<"CASE", ToJson([lines |-> lines, cfi |-> cfi, answer |-> Answer])>>)
====
