#!/bin/bash
# usage: tools/seed_matrix.sh [seed-dir ...]   (default: all)
# Runs each seeded change against the quick check of its own property (plus the extra checks listed in
# seeded/<id>/also, one id per line, if present) and writes seeded/<id>/detect.json. /repo is reverted after each.
set -u
cd /verif
seeds=("$@"); [ ${#seeds[@]} -eq 0 ] && seeds=(seeded/*/)
for d in "${seeds[@]}"; do
  d=${d%/}; id=$(basename $d); prop=${id%%-*}
  patch=$d/patch.diff; [ -f $d/patch_rebased.diff ] && patch=$d/patch_rebased.diff
  checks=($prop); [ -f $d/also ] && checks+=($(cat $d/also))
  res="{"
  for c in "${checks[@]}"; do
    out=$(tools/try_seed.sh $patch $c quick 2>&1)
    rc=$(echo "$out" | grep -oE "exit=[0-9]+" | cut -d= -f2)
    if echo "$out" | grep -q "PATCH DOES NOT APPLY"; then v="patch-does-not-apply"; elif [ "$rc" = "1" ]; then v="caught"; elif [ "$rc" = "0" ]; then v="missed"; else v="tool-failure"; fi
    line=$(echo "$out" | grep -E "^C[0-9]+:" | tail -1 | tr -d '"')
    res="$res\"$c\": {\"verdict\": \"$v\", \"summary\": \"$line\"},"
  done
  res="${res%,}}"
  echo "{\"patch\": \"$(basename $patch)\", \"checks\": $res}" > $d/detect.json
  echo "$id $(cat $d/detect.json)" | cut -c1-260
  git -C /repo status --short | grep -q . && { echo "REPO DIRTY after $id"; git -C /repo checkout -- .; }
done
