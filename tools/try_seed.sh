#!/bin/bash
# usage: tools/try_seed.sh <patch.diff> <property-id> [tier]
# Applies a seeded change to /repo, runs the check, reverts /repo. Prints the verdict lines.
set -u
patch=$(realpath $1); pid=$2; tier=${3:-quick}
cd /repo || exit 2
if ! git apply --check "$patch" 2>/dev/null; then echo "PATCH DOES NOT APPLY: $patch"; exit 2; fi
git apply "$patch"
cd /verif && ./check "$pid" --tier "$tier" 2>&1 | grep -E "^(VIOLATION|KNOWN-FINDING|TOOL-FAILURE|DRIFT|C[0-9]+:)" | cut -c1-300
rc=${PIPESTATUS[0]}
git -C /repo checkout -- . 
echo "exit=$rc (repo reverted: $(git -C /repo status --short | wc -l) dirty files)"
