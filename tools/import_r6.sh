#!/bin/bash
# usage: tools/import_r6.sh C19 C20 ...  - copies round-4 agent output (/tmp/r6/out/<ID>/mN) into seeded/<ID>-r6mN
for id in "$@"; do for n in 1 2; do
  src=/tmp/r6/out/$id/m$n; dst=/verif/seeded/$id-r6m$n
  [ -f $src/patch.diff ] || { echo "missing $src"; continue; }
  mkdir -p $dst; cp $src/patch.diff $src/AGENT_README.md $dst/; cp $src/demo_m$n.rs $dst/ 2>/dev/null || cp $src/demo*.rs $dst/
  echo "$dst: $(head -1 $dst/AGENT_README.md)"
done; done
