#!/usr/bin/env python3
"""Regenerates /verif/MANIFEST.json from the table below (keeps it schema-valid at all times)."""
import json, os, sys
ROOT = os.path.dirname(os.path.dirname(os.path.abspath(__file__)))
props = [json.loads(l) for l in open(os.path.join(ROOT, "properties.jsonl"))]

CHECKS = {
 "C06": dict(
   level="model_checking", design_ref="DESIGN.md section 5 'C06'",
   technique="TLA+ token machine (CfiExpr/CfiEval/CfiRules) model-checked by TLC; every TLC state replayed through the real parser + SymbolFile::walk_frame; random u64 programs recorded from the real evaluator and trace-validated by TLC (Trace_CfiEval)",
   text="The documented STACK CFI semantics are an explicit TLA+ specification on exact 64-bit limb arithmetic. TLC enumerates every program over the token alphabet up to a length bound and every small INIT/delta rule set, checks design invariants (no self-referential CFA, .undef fails, mandatory .cfa/.ra, deltas only affect addresses at or above them, registers with rules are set or cleared), and each enumerated state is executed on the real code and compared for equality (the property is equality with the documented semantics). Beyond the bound, random long programs over random u64 operands are recorded from the real evaluator (tokens, memory reads, result) and validated step by step by TLC.",
   note="Trusted: TLC, the transcription of walker.rs's module documentation into CfiExpr.tla/CfiRules.tla, Words.tla (self-tested against Rust each run), the mock FrameWalker/projection in harness/src/bin/replay_cfi.rs and record_cfi.rs. Exhaustive only within MaxLen / Extra bounds; CfiStackWalker's register forwarding is covered by the walker checks (C04/C05), not here."),
 "C07": dict(
   level="model_checking", design_ref="DESIGN.md section 5 'C07'",
   technique="TLA+ token machine for STACK WIN program strings (WinEval) and step machine for FPO (WinFpo) on u32 limbs, model-checked by TLC; every TLC state replayed through the real parser + SymbolFile::walk_frame with a CfiStackWalker-like mock",
   text="The documented STACK WIN semantics (variables, assignment, .undef, the '=tok' spelling, predefined constants incl. the '@' rule for .raSearch, 32-bit wrapping, the FPO formulae with the leftover-return-address skip, sums past 2^32 fail cleanly) are an explicit TLA+ specification. TLC enumerates every program up to a length bound over 7 register/size instances and every FPO configuration of a size grid, checks design invariants (only the six documented registers are reported, nothing is forwarded implicitly, caller esp above callee esp), and each state is executed on the real code and compared for equality incl. the caller's validity set.",
   note="Trusted: TLC, the transcription of walker.rs's module docs into WinEval.tla/WinFpo.tla, Words.tla (self-tested each run), the mock FrameWalker in replay_win.rs (mirrors CfiStackWalker's forwarding/clear contract). Exhaustive only within MaxLen and the grids. Two open known findings (no-op '$'-prefixed clear) are listed in known-findings.json; a fix: commit repaired the size-overflow panics."),
 "C08": dict(
   level="model_checking", design_ref="DESIGN.md section 5 'C08'",
   technique="TLA+ specification of into_rangemap_safe / memory_range constructors / STACK WIN overlap repair (RangeMap.tla) model-checked by TLC with the C08 predicates as invariants; every enumerated entry sequence replayed into 13 kinds of real tables; differing cases and seeded random u64 tables decided by TLC evaluating the predicates on the recorded real tables (Trace_RangeMap.tla, exact u64 on limbs)",
   text="TLC enumerates every sequence of up to MaxLen (base,size,value) entries over a small address domain that contains stand-ins for u64::MAX-1 and u64::MAX, checks BuildTotal/Sound/SortedDisjoint/CompleteForIsolated/UnloadedExact on the specified table, and the harness builds each sequence into the real module, unloaded-module, memory, memory64, memory-info, maps lists (directly and through dumps written by a frozen vendored writer) and symbol-file FUNC/line/STACK CFI/STACK WIN tables and queries every address. Equal to the model's table => predicates hold by the model check; otherwise TLC evaluates the predicates on the observed real table (violation) or reports drift. Random u64 tables are observed and checked the same way.",
   note="Trusted: TLC, RangeMap.tla/Trace_RangeMap.tla, Words.tla (self-tested each run), the order-isomorphism between the small domain and u64, harness/src/rm.rs (plumbing only), frozen writer vendor/vf-synth. Completeness is checked at probed addresses only (whole small domain; boundaries +-1 for random tables). A fix: commit (d8a0445) repaired ranges ending at 2^64-1."),
 "C09": dict(
   level="model_checking", design_ref="DESIGN.md section 5 'C10 / C09'",
   technique="TLA+ specification of the SymbolFile::parse loop + circular::Buffer (SymStream.tla) model-checked by TLC (window bound, termination measure, long-line handling) at small constants and at the real capacity ratio; TLC-enumerated chunk schedules replayed on the real parser and grammar-generated/corrupted files under seeded chunkings trace-validated by TLC at the real constants (Trace_SymStream.tla) with the C09 monitors",
   text="The streaming loop is an explicit state machine; TLC checks on every input string up to a length bound and every chunk schedule that the window never exceeds MaxCap, that the number of iterations is bounded, and that an over-long line never fails the parse by itself. The real parser is bound to it by an event log taken from outside (slice length offered to the reader = cap-end, bytes returned, callback slice lengths, result): every recorded loop iteration must be exactly what SymStream!Iter predicts at the real constants, and the monitors WindowBounded / ReadsBounded / LongLineDropped / no panic / no hang are evaluated by TLC on each validated parse.",
   note="Trusted: TLC, SymStream.tla (transcribed from mod.rs and circular 0.3.0), the reader/callback wrappers in record_symstream.rs. Heap use of the parsed tables is not modelled (window only). Line-parser totality is exercised by the generated files (all record kinds, numeric extremes, non-UTF-8, CR/LF variants, byte corruption) but only for the sampled inputs."),
 "C10": dict(
   level="model_checking", design_ref="DESIGN.md section 5 'C10 / C09'",
   technique="TLA+ specification of the SymbolFile::parse loop (SymStream.tla); TLC checks ChunkIndependent / OkMeansAll / CallbackPrefix over every input and every chunk schedule at small constants and at capacity ratio 16; enumerated schedules are scaled by 5120 and executed read-for-read on the real parser; seeded random chunkings of generated files; all event logs validated by TLC against SymStream!Iter at the real constants with the C10 monitors",
   text="TLC explores every way a reader may split every small input and proves, for the loop as specified, that the outcome equals the whole-buffer outcome for inputs with lines below MaxCap/2 and that the callback stream is the input prefix / the whole input on success. The specification is bound to the code in both directions: schedules chosen by TLC are run on the real parser, and real parses under seeded chunkings (whole, 1-byte trickle, random, around each buffer threshold, single split, line-by-line, tiny) are recorded; TLC validates each loop iteration and evaluates ChunkIndependent (vs. from_bytes of the same bytes, tables compared), OkMeansAll and CallbackPrefix (bytes compared) on every parse.",
   note="Trusted: as C09. The specification carries Repaired=TRUE, i.e. the loop after fix: commit e37a3d0 (the unterminated-tail defect was found by TLC and reproduced on the real code first). parse_async is the same loop text over reqwest chunks; it is exercised by C16's loopback server, not here."),
 "C18": dict(
   level="model_checking", design_ref="DESIGN.md section 5 'C18'",
   technique="TLA+ state machine of register files with documented name/alias tables (Registers.tla, RegTables.tla) model-checked by TLC; complete replay of every state on the real CpuContext / MinidumpContext incl. raw-field ground truth",
   text="The space is finite, so the check is complete within MaxSets writes: TLC enumerates every context type and every short history of set-by-name operations over all register names, documented aliases and unknown names, checks that aliases agree, the last write wins, sp/ip names are distinct registers and no slot is listed twice, and each state is executed on the real code: raw struct fields (ground truth), reads through every name and alias with and without validity, dedicated sp/ip accessors, memoization, singleton validity sets through aliases in both directions, unknown names under three validity forms (absence, no panic) and the two enumerations.",
   note="Trusted: TLC, the hand-entered documented tables (tools/gen_registers_tla.py), raw_slot() in replay_registers.rs. Four open known findings (SPARC window aliases) are listed in known-findings.json."),
 "C11": dict(
   level="model_checking", design_ref="DESIGN.md section 5 'C11'",
   technique="TLA+ declarative (linear-scan) specification of fill_symbol (SymLookup.tla) with C11 predicates checked by TLC over every symbol file built from candidate record pools; every file rendered, parsed by the real parser and queried through the real fill_symbol at every address under three module bases; plus a TLA+ state machine of the record-level parser (SymParse.tla: top level / inside FUNC / inside STACK CFI INIT, closing and failing lines, final sort and overlap rule) whose every line sequence is parsed by the real parser and compared table by table",
   text="The lookup result is specified without any search structure: FUNC cover, PUBLIC fallback with FUNC cut-off, STACK WIN parameter-size precedence, line records with dropped zero-size entries, inline chains to depth 3 incl. a multi-range INLINE record. TLC builds every file of up to MaxRecs records, checks that bases never exceed the address, that the function covers it or is the nearest PUBLIC, and that inline frames nest; the real parser + fill_symbol must return exactly the specified FrameSymbolizer calls for each (file, address, module base).",
   note="Trusted: TLC, SymLookup.tla, the renderer/recorder in replay_symlookup.rs. Records of one kind do not overlap in generated files (overlap policy is C08). Depth > 3 chains and random large files are not covered. SymParse line tokens are a fixed alphabet of 28 lines (rendered by replay_symparse.rs)."),
 "C17": dict(
   level="model_checking", design_ref="DESIGN.md section 5 'C17'",
   technique="TLA+ string-level specification of the lookup path builders and of the containment predicate (Paths.tla); TLC enumerates module names as token sequences; the real builders' outputs are recorded and TLC evaluates Contained on each real output (Trace_Paths.tla)",
   text="TLC proves on the specified builders that every produced path is contained (or no path is produced) for every name of up to MaxTok tokens over an alphabet with both separators, '.', '..', ':', drive letters and extensions; the harness gives each name (and seeded hostile names) to the real breakpad_sym / lookup(kind) / code-info / extra-debuginfo / binary / mozilla-CAB builders, and TLC evaluates the containment predicate on the real strings and compares them with the documented layout (difference = drift).",
   note="Trusted: TLC, Paths.tla (string functions on TLC strings), record_paths.rs. Joining onto directories/URLs is not executed here (http.rs join sites are observed by C16's file-system scan). A fix: commit (78a433e) repaired the unsafe-leaf classes."),
 "C12": dict(
   level="model_checking", design_ref="DESIGN.md section 5 'C12'",
   technique="TLA+ poll-granular model of Symbolizer::get_symbols over an async mutex per module key (SymbolCache.tla) model-checked by TLC (AtMostOnce, SameOutcome, Counters, Progressive, LockSane) over all poll/open interleavings incl. spurious polls; every complete bounded behaviour replayed poll-exactly on the real Symbolizer; free-running executors summarised and judged by TLC (Trace_SymbolCache.tla)",
   text="All interleavings of three concurrent tasks (1-3 lookups each over 1-3 module keys, suppliers that suspend 0-3 times and answer Ok/NotFound/ParseError/LoadError) are explored exhaustively; a variant that drops the lock across the supplier await is required to violate AtMostOnce (vacuity guard). Each complete behaviour is executed on the real Symbolizer by a hand-written executor that polls exactly the named task, with pending_stats and per-task observations compared after every step and supplier call counts, observed outcomes (each requester must see its own module's symbols) and counters at the end. Keys differ in exactly one component of the module identity.",
   note="Trusted: TLC, SymbolCache.tla, the executor / gated mock supplier in replay_symcache.rs. Cancellation excluded (as in the statement). Thread-level interleavings inside tokio are sampled only."),
 "C04": dict(
   level="model_checking", design_ref="DESIGN.md section 0 and section 5 'C05 / C04'",
   technique="TLA+ models of the get_caller_frame loops of x86-64 (WalkerAmd64.tla), x86 with STACK WIN frame data / FPO / STACK CFI and grand-callee parameter sizes (WalkerX86.tla), ARM on iOS and Linux and ARM64 in both context layouts (WalkerArm.tla), MIPS o32 and 64-bit (WalkerMips.tla), each with a stack builder; TLC checks that the modelled walk of every built stack is exactly the generated call chain; every built stack is materialised and walked by the real walk_stack and compared frame for frame",
   text="Build(chain) lays out a well-formed stack for every chain of up to MaxDepth calls; per call the caller is found by a frame record, by an unwind record of each kind the architecture has, or by scanning, with filler and parameter sizes chosen so that the record kinds meet every grand-callee parameter size. TLC proves MatchesBuild on each model (the walk returns exactly the chain, stops at its end, and knows the frame pointer wherever the chain hands it on); the harness turns each built stack into a real context, stack memory, module list and symbol text, runs walk_stack and compares return address, stack pointer, technique label, callee-saved register validity and values, and parameter size with the model.",
   note="Trusted: TLC, the three Walker modules, harness/src/walk.rs (materialisation and projection through public, alias-aware accessors). For STACK WIN frames only %ebp is compared among callee-saved registers (the stale validity of ebx/esi/edi is the finding recorded under C07)."),
 "C05": dict(
   level="model_checking", design_ref="DESIGN.md section 0 and section 5 'C05 / C04'",
   technique="TLA+ models of the x86-64, x86, ARM, ARM64 and MIPS walkers with the C05 predicates as invariants, exhaustively explored by TLC over every small stack / context / unwind-rule combination and replayed for exact agreement on the real walkers; for all walkers, recorded real call stacks from seeded random inputs are judged by TLC (Trace_Walk.tla, exact u64 on limbs)",
   text="C05 is a set of predicates over the produced frames; they are stated once in TLA+ and evaluated (a) as invariants of the walker models over every small stack/context/rule combination, which the real walkers must reproduce exactly (return address, sp, technique, register validity and values), and (b) by TLC on call stacks recorded from the real walkers under seeded random contexts, stack bytes, module lists and symbol text.",
   note="Trusted: TLC, Trace_Walk.tla, Words.tla (self-tested), the Walker modules, harness/src/walk.rs. Arbitrary inputs are sampled, not enumerated."),
 "C14": dict(
   level="model_checking", design_ref="DESIGN.md section 5 'C14'",
   technique="TLA+ specification of the process-state indexing rules (Processor.tla) with design invariants checked by TLC; every reachable dump description serialised by a frozen independent writer, processed by the real process_minidump and compared field by field",
   text="The statement is a case analysis; it is transcribed as a TLA+ module whose behaviours build a dump description piece by piece. TLC checks that the requesting thread is never the dump writer, that the exception's thread id is preferred over Breakpad's, and that only the requesting thread ever starts from the exception context; the harness writes each description as a real minidump (x86 and amd64 contexts, exception context located by a two-pass layout, Breakpad info, misc info, /proc status, loaded and unloaded modules) and requires the real ProcessState to match: call stacks per thread entry in order (id, name, info), requesting thread (any admissible index), the context frame 0 came from, crash address incl. 32-bit zero-extension and the >= 2 parameter gate, Windows access-violation reason classes, process id source, per-frame unloaded-module offsets, module lists.",
   note="Trusted: TLC, Processor.tla, the frozen writer vendor/vf-synth + harness/src/dumpgen.rs, projection in replay_processor.rs. Up to MaxThreads threads; crash reasons for non-Windows platforms and the large code enumerations are not judged; process times are not covered."),
 "C19": dict(
   level="model_checking", design_ref="DESIGN.md section 5 'C19'",
   technique="TLA+ specification of check_for_bitflips / try_bit_flips on a bit-set address representation (BitFlip.tla) with the C19 predicate checked by TLC; one generated minidump per case processed by the real process_minidump and compared as a set",
   text="TLC enumerates CPU x access kind x examined value x memory map for three scenarios (crash address, non-canonical address recovered from the crashing instruction, null pointer plus offset) and checks on the specification that every candidate is exactly one bit away inside the platform's range and null or in a region possibly permitting the access, and that nothing is reported for 32-bit / ARM64 / accessible / null-plus-offset cases. Each case becomes a real dump (exception record, memory-info regions incl. one ending at 2^64-1, exception context with the examined value in rbx and the bytes of `mov rax,[rbx]` at rip) and the real possible_bit_flips must equal the specified set, with all confidences in [0,1].",
   note="Trusted: TLC, BitFlip.tla, the frozen dump writer + dumpgen.rs, replay_bitflip.rs. The float confidence formula itself is not modelled; one instruction form only; Linux maps as the memory map are not exercised here."),
 "C03": dict(
   level="exploration", design_ref="DESIGN.md section 5 'C01 C02 C03'",
   technique="model-structured exploration: inputs generated from the TLA+ specifications' case structure (Processor.tla dumps, walker / CFI / STACK WIN rule shapes, corrupt symbol text) plus seeded corruption; the totality monitor is TLA+ (Trace_Process.tla) evaluated by TLC on every recorded run of the real process_minidump_with_options under the three option sets",
   text="Quantifies over byte strings, which no state machine enumerates; the specification contributes structure and the verdict. Each run is recorded with panic capture, a symbol provider that cuts (and reports) an unbounded walk, the per-thread frame count against the stack memory the walk used, rendering of text / brief / JSON, and wall time; TLC judges ok-or-error, no panic, frame bound, renders, time budget.",
   note="Exploration only: generated and corrupted dumps are sampled. The bound of C03 is also an invariant of WalkerAmd64.tla (checked exhaustively for the amd64 model in C05). Three fix: commits came out of this check (unbounded CFI walk, /proc limits panic) and C13 (limits order)."),
 "C13": dict(
   level="model_checking", design_ref="DESIGN.md section 5 'C13'",
   technique="TLA+ model of the join of per-thread walks over a shared symbol cache with explicit nondeterministic completion order and hash-iteration points (Confluence.tla; three named bug variants must violate Confluent); real runs of each corpus item under different executors, supplier delay schedules, OS threads and hash seeds compared byte for byte, judged by TLC (Trace_Process.tla)",
   text="TLC proves on the model that the report is a function of the inputs for every completion order, and that collecting in completion order, snapshotting statistics early, or emitting a hash-ordered collection each break it. The real pipeline is run 8 times per item in one process (plain, three per-module supplier delay schedules, multi-thread tokio twice, a fresh OS thread) and the bytes of print_json, print and print_brief must be identical; items include modules sharing one debug identity whose look-up order depends on the schedule, /proc limits with many rows, aliasing CFI rule names and unknown-width CPUs after 32-bit ones.",
   note="Trusted: TLC, Confluence.tla / SymbolCache.tla, record_process.rs. Schedules are those the delayed supplier produces (0..3 polls per module) plus sampled tokio thread interleavings, not all interleavings of the real executor."),
 "C15": dict(
   level="exploration", design_ref="DESIGN.md section 5 'C15'",
   technique="TLA+ statement of the documented JSON schema and of the cross-field consistency rules (Trace_Report.tla, hex strings parsed and subtracted on limbs) evaluated by TLC on every report recorded from the real print_json; lexical validity by from_utf8 + serde_json",
   text="No state space: the specification is a library of predicates (Schema, HexW, Counts, Offsets, CrashingThreadCopy, ModulesMirror) that TLC evaluates on the projected JSON of every report the corpus and the Processor.tla cases produce, with the library's own module list passed alongside for the mirror check.",
   note="Trusted: TLC, Trace_Report.tla (transcription of json-schema.md), the JSON projection in record_process.rs, serde_json for lexical validity. Sampled inputs; function_offset is only bounded by module_offset."),
 "C01": dict(
   level="exploration", design_ref="DESIGN.md section 5 'C01'",
   technique="TLA+ model of the reader's validation protocol (DumpReader.tla: 8 protocol classes, adversarial count/size/offset fields, allocation and work accounting; one mutant per guard) model-checked by TLC; every terminal state instantiated as bytes in rich template dumps and driven through the whole reading and printing surface under a bounding allocator, panic capture and a watchdog; the statement's monitor (Trace_DumpReader.tla) evaluated by TLC on those runs and on boundary-value sweeps, truncations, hostile text streams and random files",
   text="TLC proves AllocBacked, WorkBounded and NoPanic for the protocol with every guard and shows that dropping any one guard breaks an invariant. Each terminal state becomes a set of field substitutions in valid dumps that contain all 24 stream types and 9 CPU context layouts in both byte orders (frozen writer); worker processes run Minidump::read, get_stream for all 24 types, every accessor and every print routine. TLC then evaluates Total (Ok or Err: no panic, abort or hang) and AllocBound (8 MiB + 256 L + L^2) on the recorded outcomes; the model's predicted stream result is compared as drift.",
   note="Trusted: TLC, DumpReader.tla / Trace_DumpReader.tla, the frozen writer and rich.rs templates, reader.rs (the surface driver), the counting allocator. The quantifier is over all byte strings: the cases are structured families, so this is exploration, not proof."),
 "C02": dict(
   level="model_checking", design_ref="DESIGN.md section 5 'C02'",
   technique="TLA+ specification of what a well-formed dump means (DumpModel.tla: last-directory-entry-wins walk, file-order items, get_thread and stack fallback, identifier rules as constructor terms, memory byte maps, exact UTF-16 names, MISC_INFO layout rule) model-checked by TLC; every abstract dump written by the frozen vendored writer with seeded leaf values in both byte orders, read back with /repo's reader and compared item by item and byte by byte",
   text="TLC checks ServedIsLast for every directory sequence and enumerates every abstract dump facet by facet. The harness renders each case into bytes (frozen writer, both byte orders, 32/64-bit memory lists), parses it with the code under test and compares: lists in file order, by_addr order, every address of every memory region, stack memory source, identifiers rendered from the specification's rule terms and the leaf values written, strings exactly. Rich templates covering all 24 stream types are read back field by field.",
   note="Trusted: TLC, DumpModel.tla, the frozen writer (vendor/vf-synth) and the raw sections in replay_dumpmodel.rs / rich.rs, debugid/uuid for rendering identifiers. Leaf values are sampled; list sizes are 0..3."),
 "C16": dict(
   level="model_checking", design_ref="DESIGN.md section 5 'C16'",
   technique="TLA+ model of the download-and-cache protocol (HttpCache.tla: one action per await point and file-system effect, per-URL fault scripts, drop points, pre-existing entries, unusable directories, sym and file kinds) model-checked by TLC for one client and for two clients racing on one cache path; every terminal behaviour replayed on the real HttpSymbolSupplier against scripted raw-TCP loopback servers, with cache/ and tmp/ read back byte for byte and an offline repeat of the lookup",
   text="TLC checks CacheComplete, NoStrayTemp and NoEntryOnFailure in every state, including every interleaving of two clients' remove/persist steps. Each terminal behaviour (environment x per-URL script) is then played on the real supplier under several wire concretisations (Content-Length / chunked, chunk boundaries at line ends / mid-line); the model's terminal state predicts the lookup result, which URLs were asked, the exact bytes of the cache entry (body followed by the INFO URL note) and an empty tmp/. An offline supplier must then return the same symbol table and URL from the cache alone. Hostile module names must not move any write outside cache/ and tmp/.",
   note="Trusted: TLC, HttpCache.tla, replay_httpcache.rs (the scripted server and the directory read-back), reqwest/hyper as the HTTP client. Cross-process races are model-checked, not executed; close-delimited bodies are excluded (no client can tell a cut from the end)."),
 "C20": dict(
   level="model_checking", design_ref="DESIGN.md section 5 'C20'",
   technique="TLA+ option machine of minidump-stackwalk (Cli.tla) model-checked by TLC (failing runs are silent, successful runs have exactly one primary report, cyborg output only with --cyborg); every option combination x input class executed on the built binary and compared with reports produced in-process by the library",
   text="The option space is finite and is enumerated completely by TLC (mode flag sets, --brief, --pretty, --output-file, --features, symbol path spellings, six input classes); for each reachable run the specification gives exit status and the report token per sink. The harness builds the binary from /repo, runs it, and compares exit status, stdout, stderr presence, --output-file and --cyborg contents byte for byte with the library's own print / print_brief / print_json / per-stream prints on the same bytes and options; successful cases are repeated over all valid inputs (repository samples, generated dumps incl. big-endian and an unaligned stack size).",
   note="Trusted: TLC, Cli.tla, replay_cli.rs (incl. the frozen transcription of the --dump stream order). Inputs are sampled; --log-file, --symbols-url / caches, local debuginfo and TTY progress output are not exercised."),
}

NA_DEFAULT = "check not built yet (work in progress; DESIGN.md section 5 has the planned specification)"
NA = {}

def main():
    checks = []
    for p in props:
        pid = p["id"]
        if pid not in CHECKS:
            continue
        c = CHECKS[pid]
        checks.append({
            "property_id": pid,
            "quick_cmd": "./check %s --tier quick" % pid,
            "thorough_cmd": "./check %s --tier thorough" % pid,
            "evidence_file": "/verif/evidence/%s.json" % pid,
            "replay_cmd_template": "./check %s --replay {path}" % pid,
            "engine": "tlc+harness",
            "level_claimed": {"category": c["level"], "text": c["text"], "design_ref": c["design_ref"]},
            "level_note": c["note"],
            "technique": c["technique"],
        })
    m = {
        "version": 1,
        "setup_cmd": "cd /verif/harness && CARGO_NET_OFFLINE=true cargo build --offline --bins",
        "hooks": {
            "guard": "rust_minidump_verif",
            "enable": "--cfg rust_minidump_verif via /verif/harness/.cargo/config.toml rustflags (no source hook exists: every observation point is a public API, see DESIGN.md section 7)",
            "baseline_off_cmd": "cd /repo && (cargo nextest run --workspace --no-fail-fast --offline || cargo test --workspace --no-fail-fast --offline)",
            "source_commits": [],
            "add_only": True,
        },
        "engines": [{"name": "tlc+harness", "path": "/verif/check", "serves_properties": sorted(CHECKS),
                     "kind_free_text": "python driver: TLC (spec/*.tla) for model checking, case generation and trace validation; Rust harness (harness/) replays TLC cases on the real crates and records traces from them"}],
        "checks": checks,
        "notes": "See DESIGN.md. ./check <id> --tier quick|thorough; exit 0 ok / 1 VIOLATION / 2 tool failure. known-findings.json lists genuine defects.",
        "not_applicable": [{"property_id": p["id"], "reason": NA.get(p["id"], NA_DEFAULT)} for p in props if p["id"] not in CHECKS],
    }
    json.dump(m, open(os.path.join(ROOT, "MANIFEST.json"), "w"), indent=1)
    print("MANIFEST.json: %d checks, %d not_applicable" % (len(checks), len(m["not_applicable"])))

if __name__ == "__main__":
    main()
