#!/usr/bin/env python3
"""Write seeded/<id>/meta.json for every kept seeded change from its AGENT_README.md, patch, confirm.json and detect.json,
and print the markdown table used in DESIGN.md section 0.7 (python3 tools/seed_meta.py --table)."""
import json, os, re, sys, glob

ROOT = "/verif/seeded"
# seeded changes whose effect a later fix: commit removed or changed (the patch no longer applies cleanly or no longer breaks anything)
NOTES = {
    "C03-m1": "raises the per-thread frame cap; the walk bound added by fix 90612ba makes the cap unreachable, so C03's monitor no longer sees it; the widened acceptance test it also contains is caught by C05",
    "C09-m2": "re-introduces a variant of the end-of-input defect that fix e37a3d0 repaired; patch_rebased.diff is the part that still applies",
    "C06-r3m2": "marks a register valid before the 32-bit range check in CfiStackWalker::set_caller_register; written against 2c7e47f; the strict x86 CFI stage built to answer it exposed a genuine defect on the same path (a failing set_caller_register left a forwarded register valid). Fix 19b16c8 makes walk_with_stack_cfi clear the register whenever set_caller_register fails, so on the current tree the change is behaviourally neutral and no check can (or should) report it",
    "C15-r4m1": "changes the process state (the crash address of a 32-bit access violation is no longer masked), not the rendering: the JSON report of that state is still schema-conformant ('0x' + at least 8 digits), so C15's monitors accept it by design; the zero-extension clause belongs to C14, whose CrashReason.tla stage reports it",
    "C02-r5m2": "the >= 2 parameter gate of the crash address is C14's clause (CrashReason.tla); C02 is about reading streams back, and the exception stream reads back unchanged",
    "C04-r5m1": "changes SymbolFile::fill_symbol's PUBLIC fall-back; reported by C11 (SymLookup.tla). The walker models' symbol files have no PUBLIC records, so C04's built stacks do not see it",
    "C10-r5m2": "only parse_async is changed, which can be driven over HTTP only: C16's streamed-body scenarios (whole-buffer parser as oracle) report it; C10's recorder drives the synchronous loop",
    "C13-r5m2": "a difference between a fresh download and a later cache hit; C16 compares the URL reported by the download with the one the cache note records and reports it; C13's recorder does not download",
    "C17-m3": "strips NUL from cache-relative paths in http.rs: needs the http feature and a module name such as '.\\0.'; detected by C16's hostile-name scenarios (writes outside cache/)",
}

def base_of(sid):
    if "-r6" in sid or "-r7" in sid:
        return "3b86fcc"
    if "-r4" in sid or "-r5" in sid:
        return "19b16c8"
    if "-r3" in sid:
        return "2c7e47f"
    if sid in ("C04-r2m1", "C04-r2m2", "C16-r2m1", "C16-r2m2"):
        return "f4dbe85"
    if "-r2" in sid and sid.split("-")[0] in ("C01", "C02", "C05", "C06", "C07", "C08", "C09", "C10", "C12", "C17", "C18", "C20"):
        return "070ccfd"
    if "-r2" in sid:
        return "26537ed"
    if sid in ("C01-m3", "C02-m1", "C04-m2"):
        return "d8a0445"
    return "0c877d2"

def section(text, title_re):
    m = re.search(r"^#+\s*" + title_re + r".*?$\n(.*?)(?=^#+\s|\Z)", text, re.S | re.M | re.I)
    return re.sub(r"\s+", " ", m.group(1)).strip()[:900] if m else ""

def main():
    rows = []
    for d in sorted(glob.glob(ROOT + "/*/")):
        sid = os.path.basename(d.rstrip("/"))
        prop = sid.split("-")[0]
        readme = open(d + "AGENT_README.md").read() if os.path.exists(d + "AGENT_README.md") else ""
        title = re.sub(r"^#\s*", "", readme.strip().split("\n")[0]).strip() if readme else sid
        patch = open(d + "patch.diff").read()
        files = sorted(set(re.findall(r"^\+\+\+ b/(\S+)", patch, re.M)))
        confirm = json.load(open(d + "confirm.json")) if os.path.exists(d + "confirm.json") else None
        detect = json.load(open(d + "detect.json")) if os.path.exists(d + "detect.json") else None
        meta = {
            "id": sid, "property": prop, "summary": title, "files_changed": files,
            "needs_to_manifest": section(readme, r"What is needed") or section(readme, r"(When|Conditions|Trigger)"),
            "breaks": section(readme, r"Which part of"),
            "origin": "written by a fresh sub-agent (round %s) that was given only the text of %s and a scratch worktree of /repo at commit %s" % ((re.search(r"-r(\d+)m", sid) or [None, "1"])[1], prop, base_of(sid)),
            "base_commit": base_of(sid),
            "confirmed_by_me": None if confirm is None else {
                "how": "tools/confirm_seed.sh in scratch worktree /tmp/wt-confirm at the seed's base commit: demo test without the change, with the change, then cargo test --workspace --no-fail-fast --offline with the change",
                "demo_without_change": confirm.get("demo_without_change"), "demo_with_change": confirm.get("demo_with_change"),
                "suite_failures_with_change": confirm.get("suite_failures_with_change"), "suite_failures_baseline": confirm.get("suite_failures_baseline"),
                "confirmed": confirm.get("confirmed")},
            "detection": None if detect is None else {
                "how": "tools/seed_matrix.sh: git -C /repo apply %s; ./check <ID> --tier quick; git -C /repo checkout -- ." % detect.get("patch"),
                "patch_used": detect.get("patch"), "results": detect.get("checks")},
        }
        if sid in NOTES:
            meta["note"] = NOTES[sid]
        json.dump(meta, open(d + "meta.json", "w"), indent=1)
        rows.append(meta)
    if "--table" in sys.argv:
        print("| seed | change | confirmed | own check | other checks |")
        print("|------|--------|-----------|-----------|--------------|")
        for m in rows:
            det = (m["detection"] or {}).get("results") or {}
            own = det.get(m["property"], {}).get("verdict", "not run")
            others = ", ".join("%s: %s" % (k, v["verdict"]) for k, v in det.items() if k != m["property"])
            conf = "yes" if (m["confirmed_by_me"] or {}).get("confirmed") else "no"
            summ = re.sub(r"^m\d\s*[-—:]\s*", "", m["summary"])[:110].replace("|", "/")
            print("| %s | %s | %s | %s | %s |" % (m["id"], summ, conf, own, others))

main()
