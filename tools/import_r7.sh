#!/bin/bash
# usage: tools/import_r7.sh C19 C20 ...  - copies round-7 agent output (/tmp/r7/wt-<ID>/mutations/m1) into seeded/<ID>-r7m1
for id in "$@"; do
  src=/tmp/r7/wt-$id/mutations/m1; dst=/verif/seeded/$id-r7m1
  [ -f $src/patch.diff ] || { echo "missing $src"; continue; }
  mkdir -p $dst; cp $src/patch.diff $src/AGENT_README.md $dst/; cp $src/demo_m1.rs $dst/ 2>/dev/null || cp $src/demo*.rs $dst/
  echo "$dst: $(head -1 $dst/AGENT_README.md)"
done
