#!/bin/bash
# usage: tools/confirm_seed.sh <seed-dir> ...   (e.g. seeded/C06-m1)
# Confirms, in a scratch worktree outside /repo and /verif, that a seeded change (a) applies and compiles,
# (b) leaves the existing test suite at its baseline, (c) makes its demonstration fail, which passes without it.
# Writes <seed-dir>/confirm.json. The worktree is created on demand and must be removed by the caller:
#   git -C /repo worktree remove --force /tmp/wt-confirm
set -u
WT=/tmp/wt-confirm
BASE=${SEED_BASE:-0c877d2}
if [ ! -d $WT ]; then git -C /repo worktree add -q --detach $WT $BASE || exit 2; fi
suite() { (cd $WT && cargo test --workspace --no-fail-fast --offline 2>&1 | grep -E "^test .* (FAILED|failed)$|^test result" | sort | uniq -c | sort -k2 | md5sum | cut -c1-12; cd $WT && cargo test --workspace --no-fail-fast --offline 2>&1 | grep -E "^test .* FAILED$" | sort | tr '\n' ' '); }
if [ ! -f /tmp/wt-confirm.baseline ]; then (cd $WT && git checkout -q -- . && cargo test --workspace --no-fail-fast --offline 2>&1 | grep -E "^test .* FAILED$" | sort | tr '\n' ' ') > /tmp/wt-confirm.baseline; fi
ARGS=(); for d in "$@"; do ARGS+=("$(realpath $d)"); done
for d in "${ARGS[@]}"; do
  demo=$(ls $d/demo_*.rs 2>/dev/null | head -1)
  crate=$(grep -oE "(breakpad-symbols|minidump-processor|minidump-unwind|minidump-common|minidump-stackwalk|minidump-synth|minidump)/tests" $d/AGENT_README.md | head -1 | cut -d/ -f1)
  [ -z "$crate" ] && crate=breakpad-symbols
  name=$(basename $demo .rs)
  feat=""; grep -q -- "--features http" $d/AGENT_README.md && feat="--features http"
  cd $WT && git checkout -q -- . && git clean -fdq -- '*/tests/demo_*.rs' 2>/dev/null
  mkdir -p $WT/$crate/tests && cp $demo $WT/$crate/tests/
  without=$(cd $WT && cargo test -p $crate $feat --offline --test $name 2>&1 | grep -a -E "^test result" | tail -1)
  if ! git -C $WT apply $d/patch.diff; then echo "{\"applies\": false}" > $d/confirm.json; continue; fi
  with=$(cd $WT && cargo test -p $crate $feat --offline --test $name 2>&1 | grep -a -E "^test result|^error(\[E|: could not compile)" | tail -1)
  rm -f $WT/$crate/tests/$name.rs
  failing=$(cd $WT && cargo test --workspace --no-fail-fast --offline 2>&1 | grep -E "^test .* FAILED$|^error(\[E|: could not compile)" | sort | tr '\n' ' ')
  git -C $WT checkout -q -- .
  python3 - "$d" "$crate" "$name" "$without" "$with" "$failing" "$(cat /tmp/wt-confirm.baseline)" <<'PY'
import json,sys
d,crate,name,without,with_,failing,base=sys.argv[1:8]
# the demonstration must pass (or at least fail less) without the change and fail with it; the suite must be at its baseline
import re
def failed(line):
    m = re.search(r"(\d+) failed", line)
    return int(m.group(1)) if m else None
fw, fc = failed(without), failed(with_)
ok = fw is not None and fc is not None and fc > fw and failing.strip()==base.strip()
json.dump({"demo_crate":crate,"demo":name,"demo_without_change":without,"demo_with_change":with_,
           "suite_failures_with_change":failing.strip(),"suite_failures_baseline":base.strip(),"confirmed":ok}, open(d+"/confirm.json","w"), indent=1)
print(d.split('/')[-1], "CONFIRMED" if ok else "NOT-CONFIRMED", "|", without, "|", with_, "|", failing.strip())
PY
done
